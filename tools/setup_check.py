#!/venv/bin/python
"""setup_cmd: nothing to build or fetch; byte-compile-check the framework sources (in memory) and confirm the data-file parsers import."""
import ast, glob, os, sys
VERIF = os.path.dirname(os.path.dirname(os.path.abspath(__file__)))
n = 0
for p in glob.glob(os.path.join(VERIF, '**', '*.py'), recursive=True):
	if '/seeded/' in p or '/selftest/variants/' in p:
		continue
	with open(p, encoding='utf-8') as f:
		ast.parse(f.read(), p)
	n += 1
import lark, jinja2, yaml  # noqa: F401  (the repository's own pinned dependencies, used as parsers of data files)
os.makedirs(os.path.join(VERIF, 'evidence', 'replay'), exist_ok=True)
print(f'setup ok: {n} framework files parse; lark {lark.__version__}, jinja2 {jinja2.__version__}')
