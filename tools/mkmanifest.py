#!/venv/bin/python
"""Regenerates /verif/MANIFEST.json from the table below (kept in one place so the manifest never drifts from the checks)."""
import json, os, sys

VERIF = os.path.dirname(os.path.dirname(os.path.abspath(__file__)))
sys.path.insert(0, VERIF)

PY = '/venv/bin/python'

CLAIMED = {
	# id: (category, technique, text, note, design_ref)
	'C01': ('other', 'operator-precedence order compatibility over grammar ladder x Jinja output shapes x frozen C++ table; template/helper/i18n existence joins; anchoring lint',
		'Decides six structural necessary conditions of C01 exhaustively over finite tables: every (parent, un-parenthesised child) operator pair the grammar allows is checked against the C++ operators Py2Cpp emits (handler code + Jinja ASTs), every render call site resolves to an existing parseable template, every helper/filter/i18n key a template uses exists, handler parameters equal node properties, scope containment is element-anchored, the dunder->operator table agrees with CPython dispatch; templates of primary expressions render closed C++ text, operator chains are rendered per operator and front to back, comparison chains are not left-folded, argument labels are honoured (F20-F22 known). Does not decide run-time equivalence or C++20 acceptance.',
		'trusts the frozen ISO C++ precedence table, lark/jinja2/PyYAML as data-file parsers; grammar ladder ~ CPython is C02', 'DESIGN.md §4 C01'),
	'C02': ('other', 'operator-ladder order isomorphism against CPython precedence tables; abstract evaluation of child selectors over lark-compiled tree shapes; dispatch-table shadowing analysis',
		'Decides exhaustively over finite tables: the grammar ladder is order-isomorphic to ast._Precedence for all ~25 common tokens; each of ~300 child selectors in the node classes addresses a child the grammar can produce at that position for every mapped tag, with satisfiable class assertions; no unconditional class shadows later candidates of its tag; constant indexing into repeated slots is reported (F7 known finding); path-pattern matchers discriminate the entry tag where the grammar mixes declarations and expressions, and never locate a self-nesting tag by first occurrence. Tree equality with ast.parse over all programs is not decided.',
		'tree shapes from lark compiled rules; LALR automaton and indenter not modelled', 'DESIGN.md §4 C02'),
	'C03': ('other', 'stub-signature vs CPython result-type table, token->dunder table via probe object, literal-handler table, anchoring lint on index paths',
		'Decides four narrow necessary conditions: stub operator/conversion signatures equal the types CPython computes on constants for every admitted operand type; the operator token->dunder table equals CPython dispatch; literal handlers name the right standard type; index-path containment tests are "."-anchored; operators typed without an operand check yield the result type of CPython for every scalar operand (F11/F12 known); a flattened operator chain is typed with the operator of each step. Scope lookup / template substitution over run-time data is not decided.',
		'CPython builtins are the oracle (evaluated on constants, no tranp code runs)', 'DESIGN.md §4 C03'),
	'C04': ('other', 'store pairing along load/unload paths, syntactic nondeterminism-source inventory with positive fixture, global-mutation inventory, in-place-writer call-site analysis for shared reflection symbols',
		'Decides: every per-module store written on the load path is deleted on the unload path and Modules.unload reaches every owner; no set construction, id/hash or unsorted listing outside a reviewed allow-list on the pipeline; process-global mutation is limited to the reviewed (import-time / pure-cache) sites; the transpiler dependency stack is balanced; every function that writes reflection attrs in place is only handed `.to_temporary()` copies (shared SymbolDB symbols are never rewritten). Equality of outputs across histories and hash seeds is not decided.',
		'insertion-ordered dicts; per-module objects live in the per-module DI container', 'DESIGN.md §4 C04'),
	'C05': ('other', 'guard-dominance walk over the closed cache region + who-may-touch + cache-identity coverage',
		'Decides the clause "with caching disabled no cache file is read or written": every call-graph path from a public cache entry to a file-system effect passes the enabled side of a CacheSetting.enabled test; only the cache region touches the cache directory; every cache identity covers the settings/files its factory reads, losslessly, and the symbol-cache identity covers the transitive import closure (F16 known). warm==cold over all edit histories is not decided.',
		'effects are recognised by callee name inside the region; callee resolution is annotation/MRO based', 'DESIGN.md §4 C05'),
	'C07': ('other', 'try-enclosure and exception-ladder checks, abstract-hole MRO resolution, stated-belief contradiction lint, explicit-raise inventory',
		'Decides the shape clauses of "only Errors.Error escapes": third-party parser boundary on both branches, Procedure handler ladder and assert enclosure, no un-overridden NotImplementedError member on dispatchable classes, no index()==-1 belief, every explicit raise on the pipeline is an Errors.* class (frozen exceptions with reasons), interactive loop/top-level catches. Implicit exceptions and termination are not decided.',
		'explicit raise sites and boundaries only; implicit KeyError/IndexError are out of static reach', 'DESIGN.md §4 C07'),
	'C08': ('other', 'intraprocedural taint lint: separator anchoring of prefix/suffix/substring/length tests on identifier-carrying strings, frozen triage',
		'Decides that no decision in the scanned pipeline files depends on a prefix/suffix/substring/length relation of user-chosen identifiers (the mechanism the property names). Every tainted sink is anchored on a separator, compares whole elements, or is listed with a reason; the same for name substitutions, prefix tests and substring queries inside the Jinja templates (F19 known); the spelling-defined visibility table (to_accessor) is evaluated on sample spellings against the convention of Python. The metamorphic relation itself is not decided.',
		'taint is intraprocedural with attribute/parameter sources; grammar-tag paths are not name-carrying', 'DESIGN.md §4 C08'),
	'C09': ('other', 'abstract interpretation list/single over property bodies vs run-time-visible annotation; handler-signature join with Node.prop_keys recomputed statically; Procedure shape obligations; grammar-production emptiness',
		'Decides the contract between the value-driven flattening and the annotation-driven popping for all 102 expandable properties and 183 handlers of the three Procedure clients, exhaustively; plus metadata-key unambiguity, one-result-per-node shape of Procedure, and that the raw-descendant fallback cannot fire for classes with properties.',
		'purity of node properties is argued, not checked; prop_keys recomputed with the algorithm read from node.py', 'DESIGN.md §4 C09'),
	'C06': ('other', 'dataflow over the header round trip (dict-literal keys -> constructor parameters -> attributes), writer/reader separator agreement, Jinja first-line check, same-expression checks in Runner',
		'Decides the header round-trip and target-selection clauses: the header reads back to the same value (field wiring is the identity, every field is hashed), written and parsed text forms agree, the embedded header is built from the same sources that can_transpile compares, the header is read from the (absolute) path the output is written to, forced runs take every module, each output-dir rule maps distinct module files to distinct outputs. Dependency-driven staleness is not decided.',
		'jinja2 as reader of block/entrypoint.j2', 'DESIGN.md §4 C06'),
	'C13': ('other', 'static evaluation of the TokenDefinition tables (default and grammar variant) joined with the TokenTypes enum and a frozen name<->spelling table; domain-order reachability',
		'Decides the table clauses exhaustively (28 symbols, 21 combined symbols, two definitions): offsets map to the right enum members, ranges are disjoint and fold into the Symbol domain, bracket/minus members used by type sit at the right offsets, combined symbols have a length the lexer tries, no opener is shadowed by an earlier domain or list entry; plus three layout clauses by guard dominance: nothing is emitted and no indentation state is written while inside brackets, the indent is measured after the last line break of the token and the level/DEDENT count follow it, columns are measured from the last line break. Token-stream equality with CPython over all texts is not decided.',
		'frozen member-name <-> spelling table', 'DESIGN.md §4 C13'),
	'C14': ('other', 'writer/reader/TypedDict key-set joins and field dataflow for the two record shapes; separator agreement of the attr-path encoding',
		'Decides the schema clauses of the symbol-table export/import: keys written == keys read == TypedDict keys per record shape, discriminators agree, every restored constructor field is fed from the key of the same name, path fields use the same codec pair, attr paths use the same separator, integer indices and are written totally; the export order is a post-order walk that also visits the declaration behind every referenced type key. Symbol-by-symbol equality and idempotence over all tables are not decided.',
		'CPython ast only', 'DESIGN.md §4 C14'),
	'C15': ('other', 'field symmetry of dumps/loads branches and coverage of every attribute the EntryOfLark view reads by what loads restores',
		'Decides that nothing the node layer can observe of a lark tree is lost by the cache encoding: per-branch key symmetry, discriminator agreement, source_map order, every Tree/Token/Meta attribute read by the view is restored from the value of the same field (position provenance), restored children are re-iterable lists, no other module reads the raw lark object, JSON codec and cache format agree. Field-by-field equality over all trees is not decided.',
		'lark constructor signatures read with inspect', 'DESIGN.md §4 C15'),
	'C17': ('other', 'finite dispatch analysis: branch operator vs CPython-parsed operator class, routing partition, exhaustiveness against the grammar operator ladder',
		'Decides exhaustively over the finite (node class, token) table that a folded value can only come from a branch applying the operator CPython applies for that token, that int/int true division is never truncated, that every other combination is refused, that no grammar-admitted token falls into a default arm that changes its meaning, that a same-level chain is folded front to back with the operator of each step, and that the evaluator keeps no memo across expressions. Numeric corner cases through float() are not decided.',
		'the evaluator computes with Python operators, so the right operator gives the right value', 'DESIGN.md §4 C17'),
	'C19': ('other', 'store analysis of the container classes: fresh-copy/alias classification in clone/combine, add/delete store pairing along bind/unbind paths (following super), raise-type inventory',
		'Decides the structural clauses of the container model: clones and combinations own their storage and do not mutate operands, the right operand wins, stores written by bind/resolve are exactly those deleted by unbind, rebind is unbind-then-bind, the public API raises ValueError (TypeError in combine) also for surplus invoke arguments, invoke curries the maximal resolvable prefix, store keys are normalised symbols, a clone carries bindings only (F24 known: left instances survive a right re-binding). Observational equivalence with a reference model is not decided.',
		'stores = dict attributes initialised in __init__', 'DESIGN.md §4 C19'),
	'C10': ('other', 'writer/reader codec agreement for path elements, tag-alphabet check over the compiled grammar, closure scan of match_feature for upward navigation and side effects',
		'Decides: path elements are written and parsed with the same tag / tag[index] codec, the index is positional and written exactly when the tag repeats, grammar tags cannot collide with the codec metacharacters; all 30 match_feature definitions and the 44 functions they reach are downward-only and pure; the resolver caches accepted instances by path only and takes the first accepting class; memo keys are distinct and complete; structural queries stay on the entry tree. pluck(T,p) is e over all trees is not decided.',
		'upward navigation recognised by member name', 'DESIGN.md §4 C10'),
	'C11': ('other', 'operator-ladder extraction from the meta-grammar text (independent reader) vs CPython precedence; dominance of the full-consumption test; artifact sync',
		'Decides the ladder order isomorphism for all operator tokens of py_gram.lark (violated by the walrus level: known findings F9/F9b), that parse returns only after consuming every token, and that py_rules.py is the compiled form of py_gram.lark. Ordered-choice hazards and tree equality over generated sentences are not decided.',
		'vlib/metagram.py reader; regexp terminals read with re._parser', 'DESIGN.md §4 C11'),
	'C16': ('other', 'structural check of the span plumbing (field provenance of EntryOfLark.source_map, pass-through of Node/Nodes.source_map) and linear normal forms of the quotation arithmetic in ErrorRender and the engine ErrorCollector',
		'Decides only the finite, shape-visible clauses every reported span passes through: EntryOfLark.source_map files line/column/end_line/end_column of ONE object as begin/end; Node.source_map is the span of the entry at the node path, unchanged; the error quotation shifts all four components by -1, quotes the begin line, marks columns [begin, end) on single-line spans and to the end of the line otherwise with at least one caret, and replaces a tab by exactly one character; the engine ErrorCollector reports begin_line + 1, quotes lines[begin_line] and uses the same range rule. The spans themselves (tokens of the slice == tokens of the node, child inside parent) are run-time numbers of the third-party parser and are NOT decided.',
		'lark reports 1-based positions with exclusive end column; restoration from the cache is the position-provenance clause of C15', 'DESIGN.md §4 C16'),
	'C18': ('other', 'structural check of the bracket scanners of BlockParser: pair table, guard of the closer stack, skip-before-test ordering in every scanning loop',
		'Decides one necessary condition of "cuts only at delimiters outside all brackets and string quotes": text between quotes is opaque to every scanner. The pair table lists the four bracket kinds and both quote characters; _skip_other_block changes its closer stack, while a quote is on top, only for that quote; _analyze_entry, break_separator and break_last_block hand foreign openers (a set containing both quote characters) to _skip_other_block before they test for the requested brackets or the delimiter. The input/output laws themselves (rejoin, balance, last group, decorator and parameter reassembly) are relations over all strings and are NOT decided.',
		'escaped quotes inside literals are not modelled (neither by the scanners nor here)', 'DESIGN.md §4 C18'),
	'C12': ('translation_validation', 'translation validation of shipped grammar/rule-module pairs by an independent meta-grammar reader (ast + hand-written parser)',
		'Every rule of data/syntax/gram.lark and py_gram.lark is compared node-by-node with the tuple tree checked in as gram_rules.py / py_rules.py; exhaustive over the 83 shipped rules. Decides the two fixed-point obligations of the property on the artifacts; says nothing about generated grammars.',
		'trusts CPython ast.literal_eval and the 150-line reader vlib/metagram.py, which is itself validated by the gram.lark == gram_rules.py fixed point', 'DESIGN.md §4 C12'),
}

# clauses added in rounds 6-7 (appended to the claim text of the property)
EXTRA = {
	'C01': ' Also: a source group is always rendered with its parentheses (no decision on the rendered text), and every rendering of a range() loop takes start, bound and step from the separated arguments; the brace-initialiser conversion is applied only when the assigned node is a call. The fill-list rendering reads its operands by role, not by position. A string literal emitted between double quotes must have a body converted for that delimiter (violated today for single-quoted literals containing a double quote: known finding F52). Which assignment declares a variable is decided against every collected declaration (shared with C08). Capture lists exclude variables of scopes nested in the closure; decorator decisions search the whole list; the bound of a range loop is closed before it is pasted after the comparison; a line comment cannot end in a backslash. Known today: constructor hoisting reorders statements (F61), enumerate index increments (F62), comprehension range bound and descending ranges (F63b, F64). The alias of a Python exception class is a base of the aliases of its subclasses; every slice template consumes start, stop and step; the rendering of len() is checked for a signed conversion (known finding F71).',
	'C02': ' Also: list-valued child selections decide each child on its own (no early stop), and classification by decorator searches the whole decorator list. Positional slices of child lists must be conditioned on the dropped position.',
	'C03': ' Also: every walker over symbol.attrs in the reflection layer descends into the enumerated child itself, so substitution of type variables reaches every nesting level. The arms of a conditional expression are merged only when the whole reflections are equal. Kind tests over the function node classes with an implicit receiver cover Method, ClassMethod and Constructor across their if-chain. `a or b` / `a and b` typed bool regardless of operands: violated today, known finding F49. A member looked up on the actualized receiver is bound on that same receiver. The single-pass table of unwrapping steps in ConvertionTrait.actualize lists the optional first.',
	'C04': ' Also: no parameter default constructed at definition time is modified or handed on, and extends() is only ever called on newly created reflections (never on a symbol of the shared table). Each transpile gets a new dependency frame; class-body containers are not written through self. SymbolDB.unload deletes the rows of a module whether or not it carries the completed mark. The entrypoint store and the symbol table are each released unconditionally of the state of the other.',
	'C05': ' Also: SymbolDB selects the rows of a module by equality of the module part, never by a prefix or substring test (one cache file per module identity). The loader and cache classes keep their memo tables per instance. The eviction pattern for older cache files is derived from the cache path by cutting at the last hyphen. The content fingerprint behind Module.identity is a hashlib digest of everything read from the file (no checksum, no partial or truncated digest).',
	'C06': ' Also: can_transpile, evaluated as a boolean function of (header readable, header differs, other conditions), regenerates whenever no header can be read or it differs, and leaves an unchanged module untouched; the recorded hash must cover the module file and its imports (violated today: known finding F42).',
	'C07': ' Also: the read of the module source lies inside the same Errors.Syntax boundary as the parser call (helper-aware), and ErrorRender stringifies error arguments only inside a try that cannot re-raise; results of functions declared to return T | None are tested before an attribute is read. Regexp terminals of the engine grammars have no nested unbounded repeats; the frozen lookup boundaries convert a missing key into their Errors class. Work-list walks over the base-class graph keep a visited collection (a cyclic hierarchy ends in an error, not in an endless loop). Modules.load converts every exception of the loading stage that is not an Errors.Error. The quotation of the reported node is built inside a protecting try.',
	'C08': ' Also: the declaration merge compares an added variable with every collected declaration (not one representative per spelling), and constant words rewritten in rendered code are anchored. Identifier character classes in the back-end regexps are case-complete. The search over collected declarations stops early only on a positive scope comparison; class-scope visibility is decided relative to the examined class; a class member is looked up in the class namespace only; the key followed through an aliased import uses the entity name. A node is related to its parent / child by identity, never by comparing spellings.',
	'C09': ' Also: Procedure keeps no per-node memo across runs (node identity is the path, not the tree). Lists handed out by list-valued methods of the node classes (prop_keys) are not changed in place when the method returns stored state.',
	'C10': ' A memo key that mentions a parameter only through a derived value is accepted only when the method reads the parameter through that same value. Prefix tests on entry paths are separator-anchored. No slice bound is a negated value that can be zero. relativefy is called with full paths only while DSN.relativefy splits the path text at its argument. Depth-bounded queries pass depth - 1 in their recursion.',
	'C11': ' Also: the index of the reported cause token is bounded below, and progress state written during a parse is re-initialised at the start of the next one. Regexp terminals are matched with fullmatch. The unwrap markers of _unwrap_children count and splice ALL children of a tree (placeholders of omitted optional parts included). The lexer condition that makes a minus unary accepts every character in FIRST(primary) of the grammar. The repeat loop continues while a token remains at cursor + steps, and the terminal matcher refuses exactly when none remains.',
	'C12': ' Also: the quote scan that delimits string and regexp terminals decides on the parity of the backslash run (shared with C13); engine classes hold no state shared between rule sets; the rule-module renderer must escape per token (violated today: known finding F41). from_ast does not mutate the tree it reads. The string terminal of both meta-grammar artifacts matches every decoded control character the printer writes between quotes.',
	'C13': ' Also: the quote scan ends on the parity of the backslash run for every quote pair, and the layout Context handed to the handlers is constructed per source. The lexer keeps no state between sources; a joined token spans from its own start. After an escaped candidate closer the scan resumes one character later; the comment scan tests no backslash. The sign / subtraction decision for a minus accepts every operand start of the grammar; no module-level state in the tokenizer files. The indent unit is learnt only from a non-zero width, and every read ahead of the lexer position is dominated by a bounds test.',
	'C15': ' Also: every written record takes its name, token text and span from one and the same entry (may-reaching definitions of the span variable). Names and token texts are stored verbatim.',
	'C17': ' Also: a string body written between quotes it was not written with is re-escaped. Where Py2Cpp chooses between the token text of an enum value and the evaluator result, the token text is taken only for Literal nodes. The hexadecimal prefix is recognised in both cases the grammar admits. The converter that re-escapes a string body for another quote is escape-aware (no context-free replace). Two ints are divided by Python\'s own true division (not through float()), and triple-quoted operands are not admitted to the one-character un-quoting of the concatenation.',
	'C14': ' import_json marks as completed the module parsed from the row key (not e.g. the declaring module of the symbol). Sibling attr paths are grouped by their whole parent path. On every return of deserialize the symbol is computed from every key written for that record shape (up to keys the path condition equates); completion of a module with an empty export is a known finding (F70).',
	'C16': ' Also: every attribute of the wrapped parser object that the span getter consults, as value or guard, is restored by the cache reader (obligations shared with C15). Every guard before the quotation lets a node on line 1 through.',
	'C18': ' Also: angle brackets are treated as brackets only where the neighbouring characters do not make them operators; DecoratorHelper recognises a label by a leading identifier followed by a single `=`, and Param.parse keeps everything after the first top-level `=` as the default. Nested blocks end at their own closer (the closer is consumed exactly once) and the entry tree is enumerated at every level; no bracket position is obtained by a raw text search.',
	'C19': ' Also: in LazyDI, operations on the by-name definitions are decided by tests of that layer (unbind removes an unresolved registration; the proxy binding happens exactly when defined and not yet materialised); every whole-store installation copies. The argument count is compared with the expected count, not with a zip-built list. By-name keys are built from the qualified name. rebind discards the old generation whenever the symbol is bound (no shortcut on the factory), and combine drops the left operand\'s instance / materialised binding of every symbol the right operand binds / defines.',
}

NOT_APPLICABLE = {
}


def main() -> None:
	props = [json.loads(l)['id'] for l in open(os.path.join(VERIF, 'properties.jsonl'))]
	checks = []
	for pid in props:
		if pid not in CLAIMED:
			continue
		cat, tech, text, note, ref = CLAIMED[pid]
		text = text + EXTRA.get(pid, '')
		checks.append({
			'property_id': pid,
			'quick_cmd': f'{PY} /verif/vcheck.py {pid} --tier quick',
			'thorough_cmd': f'{PY} /verif/vcheck.py {pid} --tier thorough',
			'evidence_file': f'/verif/evidence/{pid}.json',
			'replay_cmd_template': f'{PY} /verif/vcheck.py {pid} --replay {{path}}',
			'engine': 'vcheck',
			'level_claimed': {'category': cat, 'text': text, 'design_ref': ref},
			'level_note': note,
			'technique': tech,
		})
	na = [{'property_id': p, 'reason': NOT_APPLICABLE.get(p, 'static check for this property is not built yet in this round (see DESIGN.md §4 for the planned clauses)')} for p in props if p not in CLAIMED]
	manifest = {
		'version': 1,
		'setup_cmd': f'{PY} /verif/tools/setup_check.py',
		'hooks': {
			'guard': 'ROG_WORKS_TRANP_VERIF',
			'enable': 'none needed: the checks read /repo sources with ast/lark/jinja2 parsers and add no instrumentation',
			'baseline_off_cmd': 'cd /repo && /venv/bin/python -m pytest -q -p no:cacheprovider --timeout=900 --continue-on-collection-errors',
			'source_commits': [],
			'add_only': True,
		},
		'engines': [{'name': 'vcheck', 'path': '/verif/vcheck.py', 'serves_properties': [c['property_id'] for c in checks],
			'kind_free_text': 'repository-specific static analysis: ast-level source index with C3 class model, grammar model (lark grammar loader as a data-file parser), Jinja template model, anchoring taint lint, guard-dominance walks; never imports or runs tranp'}],
		'checks': checks,
		'not_applicable': na,
		'notes': 'All checks are static (no tranp code is executed). exit 0 pass / 1 VIOLATION / 2 ANALYSIS-ERROR (vanished anchor, instance floor, undecided obligation). known_findings.json lists genuine defects not repaired; fix: commits in /repo are recorded there as fixed entries.',
	}
	with open(os.path.join(VERIF, 'MANIFEST.json'), 'w') as f:
		json.dump(manifest, f, indent=1, ensure_ascii=False)
		f.write('\n')
	print(f'MANIFEST.json: {len(checks)} checks, {len(na)} not_applicable')


if __name__ == '__main__':
	main()
