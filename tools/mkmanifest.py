#!/venv/bin/python
"""Regenerates /verif/MANIFEST.json from the table below (kept in one place so the manifest never drifts from the checks)."""
import json, os, sys

VERIF = os.path.dirname(os.path.dirname(os.path.abspath(__file__)))
sys.path.insert(0, VERIF)

PY = '/venv/bin/python'

CLAIMED = {
	# id: (category, technique, text, note, design_ref)
	'C12': ('translation_validation', 'translation validation of shipped grammar/rule-module pairs by an independent meta-grammar reader (ast + hand-written parser)',
		'Every rule of data/syntax/gram.lark and py_gram.lark is compared node-by-node with the tuple tree checked in as gram_rules.py / py_rules.py; exhaustive over the 83 shipped rules. Decides the two fixed-point obligations of the property on the artifacts; says nothing about generated grammars.',
		'trusts CPython ast.literal_eval and the 150-line reader vlib/metagram.py, which is itself validated by the gram.lark == gram_rules.py fixed point', 'DESIGN.md §4 C12'),
}

NOT_APPLICABLE = {
	'C16': 'node spans are numbers produced by the parser at run time; every clause of the statement (slice tokens == node tokens, child span inside parent, caret range) quantifies over run-time positions of all programs; the only structural clause (position fields survive the cache) is decided under C15',
	'C18': 'the splitting helpers are character-level scanners; every law in the statement is an input/output relation over all strings, and a static re-specification of the scanner would be a proxy that fires on behaviour-preserving rewrites',
}


def main() -> None:
	props = [json.loads(l)['id'] for l in open(os.path.join(VERIF, 'properties.jsonl'))]
	checks = []
	for pid in props:
		if pid not in CLAIMED:
			continue
		cat, tech, text, note, ref = CLAIMED[pid]
		checks.append({
			'property_id': pid,
			'quick_cmd': f'{PY} /verif/vcheck.py {pid} --tier quick',
			'thorough_cmd': f'{PY} /verif/vcheck.py {pid} --tier thorough',
			'evidence_file': f'/verif/evidence/{pid}.json',
			'replay_cmd_template': f'{PY} /verif/vcheck.py {pid} --replay {{path}}',
			'engine': 'vcheck',
			'level_claimed': {'category': cat, 'text': text, 'design_ref': ref},
			'level_note': note,
			'technique': tech,
		})
	na = [{'property_id': p, 'reason': NOT_APPLICABLE.get(p, 'static check for this property is not built yet in this round (see DESIGN.md §4 for the planned clauses)')} for p in props if p not in CLAIMED]
	manifest = {
		'version': 1,
		'setup_cmd': f'{PY} /verif/tools/setup_check.py',
		'hooks': {
			'guard': 'ROG_WORKS_TRANP_VERIF',
			'enable': 'none needed: the checks read /repo sources with ast/lark/jinja2 parsers and add no instrumentation',
			'baseline_off_cmd': 'cd /repo && /venv/bin/python -m pytest -q -p no:cacheprovider --timeout=900 --continue-on-collection-errors',
			'source_commits': [],
			'add_only': True,
		},
		'engines': [{'name': 'vcheck', 'path': '/verif/vcheck.py', 'serves_properties': [c['property_id'] for c in checks],
			'kind_free_text': 'repository-specific static analysis: ast-level source index with C3 class model, grammar model (lark grammar loader as a data-file parser), Jinja template model, anchoring taint lint, guard-dominance walks; never imports or runs tranp'}],
		'checks': checks,
		'not_applicable': na,
		'notes': 'All checks are static (no tranp code is executed). exit 0 pass / 1 VIOLATION / 2 ANALYSIS-ERROR (vanished anchor, instance floor, undecided obligation). known_findings.json lists genuine defects not repaired; fix: commits in /repo are recorded there as fixed entries.',
	}
	with open(os.path.join(VERIF, 'MANIFEST.json'), 'w') as f:
		json.dump(manifest, f, indent=1, ensure_ascii=False)
		f.write('\n')
	print(f'MANIFEST.json: {len(checks)} checks, {len(na)} not_applicable')


if __name__ == '__main__':
	main()
