#!/venv/bin/python
"""EXPLORATION ONLY — not part of any registered check. Runs tranp in-memory under CPython 3.12 with a typing.TypeIs shim,
to confirm findings and seeded changes against the real code. usage: explore.py [--repo DIR] file.py | -  (prints C++ or the error)"""
import os, sys, typing
import typing_extensions
if not hasattr(typing, 'TypeIs'):
	setattr(typing, 'TypeIs', typing_extensions.TypeIs)

def make(repo: str):
	os.chdir(repo)
	sys.path.insert(0, repo)
	from rogw.tranp.app.app import App
	from rogw.tranp.bin.transpile import TranspileApp, Args, WrapSourceProvider, make_dummy_module_meta_factory
	from rogw.tranp.data.meta.types import ModuleMetaFactory
	from rogw.tranp.module.modules import Modules
	from rogw.tranp.syntax.ast.parser import SourceProvider
	from rogw.tranp.transpiler.types import ITranspiler
	from rogw.tranp.lang.module import to_fullyname
	defs = TranspileApp.definitions(Args(['-c', 'example/config.yml']))
	defs[to_fullyname(SourceProvider)] = WrapSourceProvider
	defs[to_fullyname(ModuleMetaFactory)] = make_dummy_module_meta_factory
	app = App(defs)
	sp = app.resolve(SourceProvider)
	mods = app.resolve(Modules)
	tr = app.resolve(ITranspiler)
	def transpile(src: str) -> str:
		sp.source_code = src
		mods.unload(sp.main_module_path)
		m = mods.load(sp.main_module_path)
		return tr.transpile(m.entrypoint)
	return transpile

if __name__ == '__main__':
	args = sys.argv[1:]
	repo = '/repo'
	if args and args[0] == '--repo':
		repo = args[1]; args = args[2:]
	src = sys.stdin.read() if args[0] == '-' else open(args[0]).read()
	t = make(repo)
	try:
		print(t(src))
	except Exception as e:
		print(f'ERROR {type(e).__module__}.{type(e).__qualname__}: {str(e)[:300]}')
		sys.exit(3)
