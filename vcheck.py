#!/venv/bin/python
"""vcheck <Cxx> [--tier quick|thorough] [--replay path] — static checks of /repo against the given properties.

exit 0: every obligation discharged (known findings are printed as KNOWN-FINDING lines)
exit 1: a violation not listed in known_findings.json (a `VIOLATION property=<id> replay=<path>` line is printed)
exit 2: the analysis is broken (vanished anchor, instance floor not met, undecided obligation, traceback)
"""
from __future__ import annotations

import argparse
import importlib
import json
import os
import sys

sys.path.insert(0, os.path.dirname(os.path.abspath(__file__)))
sys.dont_write_bytecode = True

from vlib import core  # noqa: E402


def main() -> int:
	ap = argparse.ArgumentParser()
	ap.add_argument('prop')
	ap.add_argument('--tier', default=os.environ.get('VERIF_TIER') or 'quick', choices=['quick', 'thorough'])
	ap.add_argument('--replay', default=None)
	args = ap.parse_args()
	prop = args.prop.upper()
	try:
		mod = importlib.import_module(f'checks.{prop.lower()}')
	except ModuleNotFoundError as e:
		if e.name != f'checks.{prop.lower()}':
			raise
		print(f'ANALYSIS-ERROR no check registered for {prop}')
		return 2

	rep = core.Report(prop, args.tier, getattr(mod, 'LEVEL', 'other'))
	rep.explanation = getattr(mod, 'EXPLANATION', '')
	rep.assumptions = list(getattr(mod, 'ASSUMPTIONS', []))
	rep.trusted_base = list(getattr(mod, 'TRUSTED_BASE', []))
	mod.run(rep, args.tier)

	if args.replay:
		with open(args.replay) as f:
			want = json.load(f)
		hits = [o for o in rep.all_obligations() if o.rule == want['rule'] and o.key == want['key']]
		still = [o for o in hits if o.status == 'violated']
		if still:
			o = still[0]
			print(f'{o.file}:{o.line}: [{o.rule}] {o.key}: {o.message}')
			print(f'VIOLATION property={prop} replay={args.replay}')
			return 1
		print(f'replay: obligation [{want["rule"]}] {want["key"]} is {"discharged" if hits else "no longer present"} on the current tree')
		return 0
	return core.finalize(rep)


if __name__ == '__main__':
	sys.exit(core.main_wrapper(main))
