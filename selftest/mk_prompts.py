#!/venv/bin/python
"""Writes the PROMPT.md a sub-agent receives (only the text of one property / a list of files, its scratch worktree and the environment notes;
nothing from /verif). usage:
  mk_prompts.py seed <worktree> <property id> <pristine tag> [extra hint]
  mk_prompts.py refactor <worktree> <tag> <file> [<file> ...]"""
import json, os, sys
HERE = os.path.dirname(os.path.abspath(__file__)); VERIF = os.path.dirname(HERE)
harness = open(os.path.join(HERE, 'seed_harness.md')).read()


def known(pid: str) -> list[str]:
	out = []
	for sd in sorted(os.listdir(os.path.join(VERIF, 'seeded'))):
		f = os.path.join(VERIF, 'seeded', sd, 'meta.json')
		if os.path.exists(f):
			m = json.load(open(f))
			if m.get('property') == pid:
				out.append(m['change'])
	return out


def seed(wt: str, pid: str, tag: str, extra: str = '') -> str:
	p = next(json.loads(l) for l in open(os.path.join(VERIF, 'properties.jsonl')) if json.loads(l)['id'] == pid)
	kn = known(pid)
	kn_txt = ('IMPORTANT — other engineers already produced the following changes for this same property; yours must be DIFFERENT in mechanism and, if possible, in file/function:\n' + '\n'.join('  already known: ' + k for k in kn) + '\n') if kn else ''
	return f"""You are working alone in a scratch git worktree of the rog-works/tranp repository (a Python-to-C++ transpiler written in pure Python) at {wt}. Work ONLY inside {wt}; never read or touch /repo or /verif.

Here is a semantic property of tranp that should hold for every input / history:

id: {p['id']}
title: {p['title']}
statement: {p['statement']}
quantifier: {p['quantifier']['text']}
why the existing tests cannot settle it: {p['why_tests_cant']}
code it is anchored in: {json.dumps(p['anchors'].get('files'))}
mechanisms: {json.dumps(p['anchors'].get('mechanism'), ensure_ascii=False)}

YOUR TASK: make ONE realistic change to the source of tranp in {wt} (files under rogw/ or data/) that BREAKS this property — the kind of regression a maintainer could plausibly introduce: a refactor slip, an off-by-one, a dropped or weakened guard, a wrong table row, a reordered entry, a changed grammar rule or template, a cache/memo key that forgets an input, or two cooperating sites that each look fine alone. {extra}

{kn_txt}Also do NOT simply revert one of the recent commits whose message starts with "fix:" (see `git -C {wt} log --oneline | head -12`); those regressions are already known too. Look for a different clause of the property statement, or a different one of the listed mechanisms, than the known changes attack. A change disguised inside an otherwise behaviour-preserving tidy-up (renamed locals, an extracted helper, early returns) is welcome, as long as the total diff stays small.

Requirements:
1. every Python file still compiles and the change is small (typically 1-20 lines, possibly in two files);
2. the existing test suite still passes exactly as before (same 334 passing tests; see the environment notes for the 7 known unrelated failures). This is checked strictly afterwards: a change that makes even one of the 334 tests fail is discarded;
3. the breakage must need something specific to manifest — a particular unusual-but-valid input, a multi-step sequence of operations, a particular configuration, or two sites interacting — NOT something ordinary use or the existing tests expose at once. Prefer subtle semantic breakage (wrong output / wrong type / stale state / wrong exception class / silently dropped data) over crashes on every input;
4. write a demonstration `{wt}/_seed/demo.py`, run as `/venv/bin/python {wt}/_seed/demo.py <tree>` where <tree> is the path of a tranp source tree: it must print PASS and exit 0 when <tree> is an unmodified checkout, and print FAIL (with what differs) and exit 1 when <tree> is your modified worktree; it must finish within 5 minutes on either tree. To check the unmodified behaviour, create a pristine checkout yourself with `git -C {wt} worktree add --detach /tmp/pristine_{tag} HEAD` (remove it afterwards with `git -C {wt} worktree remove --force /tmp/pristine_{tag}`).
5. Deliverables in {wt}/_seed/ : `patch.diff` (output of `git -C {wt} diff -- . ':(exclude)_seed'`), `demo.py`, and `NOTES.md` (which clause of the property breaks, what exactly is needed to make it manifest, the commands you ran and their output, including the full pytest summary line with your change applied; also note, separately, anything that already looks wrong on the UNMODIFIED tree). Do not commit. Leave the change applied in the worktree.

Think about which code actually enforces the property (read the anchored files first), then pick a change that a reviewer could miss. Avoid changes that only rename things or only touch comments/tests. Do not modify tests.

{harness.replace('WT', wt)}

When done, reply with a 5-10 line summary: the changed file(s)/function(s), what breaks, what is needed to manifest, and the pytest summary line."""


def refactor(wt: str, tag: str, files: list[str]) -> str:
	return f"""You are working alone in a scratch git worktree of the rog-works/tranp repository (a Python-to-C++ transpiler in pure Python) at {wt}. Work ONLY inside {wt}; never read or touch /repo or /verif.

YOUR TASK: perform a BEHAVIOUR-PRESERVING refactoring / clean-up of the following code, the way a careful maintainer would in an ordinary tidy-up commit:
{chr(10).join('  - ' + f for f in files)}

Make a good number of realistic, semantically neutral edits (aim for roughly 80-200 changed lines in total, spread over all the listed files that exist), for example:
  * rename local variables, loop variables and private helper parameters (not public API names, not names referenced by other modules or by templates, not the parameter names of `on_*` event handlers, not property names of node classes);
  * extract a small private helper method/function from a longer one, or inline a trivial temporary, or introduce a temporary for a repeated sub-expression;
  * restructure control flow without changing semantics: early returns vs if/else, merge or split elif chains, `if not x: return` guards, swapping the order of independent statements, replacing a loop by an equivalent comprehension or vice versa, while-loops vs for-loops over ranges;
  * rewrite expressions equivalently: f-strings vs concatenation / format, `len(x) == 0` vs `not x` where the type makes that equivalent, `a and b` conditions re-nested, chained comparisons, list vs tuple for constant membership tests, `dict(...)` vs literal, `[*a, *b]` vs `a + b`, De Morgan;
  * add or adjust type annotations and comments; reflow long lines.
The observable behaviour of tranp must not change AT ALL: same outputs, same exceptions, same ordering of results, same on-disk formats, same key/cache strings. Do not fix bugs, do not change public function/class/method names or signatures used from other modules, do not change data files' meaning, do not touch tests.

Verification you must do: `cd {wt} && /venv/bin/python -m compileall -q rogw data` and the test suite (see notes below; the same 334 tests must pass). Where the code you touched is exercised by the in-memory transpile harness in the notes, also confirm that transpiling a few sample programs gives byte-identical output before and after your change (make a pristine checkout with `git -C {wt} worktree add --detach /tmp/pristine_{tag} HEAD`, remove it afterwards with `git -C {wt} worktree remove --force /tmp/pristine_{tag}`).

Deliverables in {wt}/_seed/: `patch.diff` (output of `git -C {wt} diff -- . ':(exclude)_seed'`) and `NOTES.md` (one line per kind of edit you made per file, plus the pytest summary line). Do not commit. Leave the change applied.

{harness.replace('WT', wt)}

When done, reply with a short summary (files touched, kinds of edits, number of changed lines, pytest summary line)."""


if __name__ == '__main__':
	kind, wt = sys.argv[1], sys.argv[2]
	os.makedirs(os.path.join(wt, '_seed'), exist_ok=True)
	text = seed(wt, sys.argv[3], sys.argv[4], ' '.join(sys.argv[5:])) if kind == 'seed' else refactor(wt, sys.argv[3], sys.argv[4:])
	open(os.path.join(wt, '_seed', 'PROMPT.md'), 'w').write(text)
	print('wrote', os.path.join(wt, '_seed', 'PROMPT.md'), len(text))
