#!/venv/bin/python
"""Self-test of the checkers (not a registered property check): every variant in variants.py breaks exactly one rule
instance on a scratch copy of /repo; the owning check must exit 1 and name that rule/instance, the unchanged copy must
pass. Scratch copies live under a mktemp directory outside /repo and /verif and are removed immediately.

usage: run.py [-j N] [-k substring] [--keep]
"""
from __future__ import annotations

import argparse
import concurrent.futures as cf
import os
import shutil
import subprocess
import sys
import tempfile

HERE = os.path.dirname(os.path.abspath(__file__))
VERIF = os.path.dirname(HERE)
sys.path.insert(0, HERE)
REPO = os.environ.get('VERIF_REPO', '/repo')
PY = '/venv/bin/python'


def make_copy(base: str, name: str) -> str:
	dst = os.path.join(base, name)
	os.makedirs(dst)
	for d in ('rogw', 'data', 'example'):
		shutil.copytree(os.path.join(REPO, d), os.path.join(dst, d), ignore=shutil.ignore_patterns('__pycache__', '.cache'))
	return dst


def run_check(prop: str, tree: str, evdir: str) -> tuple[int, str]:
	env = dict(os.environ, VERIF_REPO=tree, VERIF_EVIDENCE_DIR=evdir)
	p = subprocess.run([PY, os.path.join(VERIF, 'vcheck.py'), prop], capture_output=True, text=True, env=env, timeout=300)
	return p.returncode, p.stdout + p.stderr


def one(variant, base: str) -> tuple[str, bool, str]:
	vid, prop, rule, frag, edits = variant
	tree = make_copy(base, vid)
	evdir = os.path.join(base, vid + '_ev')
	try:
		for rel, old, new in edits:
			path = os.path.join(tree, rel)
			if old is None:
				os.unlink(path)
				continue
			with open(path, encoding='utf-8') as f:
				src = f.read()
			if src.count(old) != 1:
				return vid, False, f'EDIT-FAILED: `{old[:50]}` occurs {src.count(old)} times in {rel}'
			src = src.replace(old, new)
			if rel.endswith('.py'):
				try:
					compile(src, rel, 'exec')
				except SyntaxError as e:
					return vid, False, f'VARIANT-DOES-NOT-COMPILE: {e}'
			with open(path, 'w', encoding='utf-8') as f:
				f.write(src)
		rc, out = run_check(prop, tree, evdir)
		lines = [l for l in out.split('\n') if f'[{rule}' in l]
		hit = [l for l in lines if frag in l]
		if rc == 1 and hit:
			return vid, True, hit[0][:160]
		if rc == 1 and lines:
			return vid, False, f'fired but instance fragment `{frag}` not named: {lines[0][:200]}'
		viol = [l for l in out.split('\n') if l.startswith(('VIOLATION', 'ANALYSIS-ERROR')) or '[C' in l]
		return vid, False, f'rc={rc}; expected [{rule}] ~ `{frag}`; got: {" | ".join(viol[:3])[:300]}'
	finally:
		shutil.rmtree(tree, ignore_errors=True)
		shutil.rmtree(evdir, ignore_errors=True)


def main() -> int:
	ap = argparse.ArgumentParser()
	ap.add_argument('-j', type=int, default=16)
	ap.add_argument('-k', default='')
	args = ap.parse_args()
	from variants import V
	todo = [v for v in V if args.k in v[0] or args.k == v[1]]
	base = tempfile.mkdtemp(prefix='vselftest_')
	try:
		# the clean copy must pass every check used
		clean = make_copy(base, 'clean')
		props = sorted({v[1] for v in todo})
		bad = 0
		with cf.ThreadPoolExecutor(args.j) as ex:
			for prop, (rc, out) in zip(props, ex.map(lambda p: run_check(p, clean, os.path.join(base, 'clean_ev_' + p)), props)):
				if rc != 0:
					bad += 1
					print(f'CLEAN-FAILS {prop} rc={rc}')
				# on the unchanged tree every modelled idiom is present: nothing may be left unevaluated
				for l in out.split('\n'):
					if 'not evaluated:' in l:
						bad += 1
						print(f'CLEAN-SKIPS {prop}: {l.strip()[:200]}')
		shutil.rmtree(clean, ignore_errors=True)
		ok = 0
		with cf.ThreadPoolExecutor(args.j) as ex:
			for vid, good, msg in ex.map(lambda v: one(v, base), todo):
				print(('DETECTED ' if good else 'MISSED   ') + f'{vid:32s} {msg}')
				ok += good
		print(f'{ok}/{len(todo)} variants detected; clean copy failures: {bad}')
		return 0 if ok == len(todo) and not bad else 1
	finally:
		shutil.rmtree(base, ignore_errors=True)


if __name__ == '__main__':
	sys.exit(main())
