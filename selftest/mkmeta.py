#!/venv/bin/python
"""mkmeta.py <seed dir name> <property> <round> <change> <needs> [first]: write seeded/<id>/meta.json (detected_by is filled by seeded_report.py)"""
import json, os, sys
sd, prop, rnd, change, needs = sys.argv[1:6]
first = sys.argv[6] if len(sys.argv) > 6 else ''
d = os.path.join(os.path.dirname(os.path.dirname(os.path.abspath(__file__))), 'seeded', sd)
meta = {
	'property': prop, 'seed_id': sd, 'round': int(rnd), 'change': change, 'needs_to_manifest': needs,
	'source': 'independent sub-agent given only the property text, a scratch worktree, environment notes and one-line descriptions of the earlier changes to avoid',
	'confirmed_by_me': 'selftest/confirm_seed.sh: demo.py exits 0 on a pristine worktree of /repo HEAD and 1 on the seeded worktree; compileall ok; the 334 baseline tests still pass with the change applied',
	'first_version': first,
	'what_i_ran': 'selftest/try_patch.py seeded/%s/patch.diff (all registered checks against a scratch copy with the patch applied); selftest/seeded_report.py' % sd,
}
json.dump(meta, open(os.path.join(d, 'meta.json'), 'w'), indent=1, ensure_ascii=False)
