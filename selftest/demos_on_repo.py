#!/venv/bin/python
"""Every kept seed's demonstration must PASS (exit 0) on the current /repo: a `fix:` commit that makes one of them fail has broken the property it
demonstrates. usage: demos_on_repo.py [-j N] [substring]"""
import concurrent.futures as cf, os, subprocess, sys, time
HERE = os.path.dirname(os.path.abspath(__file__)); VERIF = os.path.dirname(HERE)
REPO = os.environ.get('VERIF_REPO', '/repo')

def run(sd: str):
	demo = os.path.join(VERIF, 'seeded', sd, 'demo.py')
	if not os.path.exists(demo):
		return sd, None, 0.0, ''
	t = time.time()
	try:
		p = subprocess.run(['/venv/bin/python', demo, REPO], cwd='/tmp', capture_output=True, text=True, timeout=900)
		return sd, p.returncode, time.time() - t, (p.stdout + p.stderr)[-400:]
	except subprocess.TimeoutExpired:
		return sd, 'timeout', time.time() - t, ''

def main():
	args = [a for a in sys.argv[1:] if not a.startswith('-j')]
	jobs = next((int(a[2:]) for a in sys.argv[1:] if a.startswith('-j') and a[2:]), 8)
	seeds = sorted(d for d in os.listdir(os.path.join(VERIF, 'seeded')) if not args or args[0] in d)
	bad = 0
	with cf.ThreadPoolExecutor(jobs) as ex:
		for sd, rc, dt, tail in ex.map(run, seeds):
			if rc not in (0, None):
				bad += 1
				print(f'FAIL {sd} rc={rc} ({dt:.0f}s)\n    ' + tail.replace('\n', '\n    '))
	print(f'{len(seeds)} demonstrations, {bad} failing on {REPO}')
	return 1 if bad else 0
sys.exit(main())
