#!/bin/bash
# confirm_seed.sh <Cxx> [suffix]: confirm a sub-agent's seeded change myself, then file it under /verif/seeded/<id>/
#  1. demo passes on a pristine worktree of /repo HEAD, 2. fails on the seeded worktree, 3. all files compile, 4. the baseline suite still passes on the seeded worktree
set -u
ID=$1; SUF=${2:-}
WT=${WT_DIR:-/tmp/seed_${ID}${SUF}}
PR=/tmp/confirm_pristine
[ -d $PR ] || git -C /repo worktree add -q --detach $PR HEAD
git -C $PR checkout -q --detach $(git -C /repo rev-parse HEAD) 2>/dev/null
git -C $PR checkout -q -- . ; git -C $PR clean -qfdx -e .cache >/dev/null 2>&1
echo "== pristine:"; (cd /tmp && timeout 600 /venv/bin/python $WT/_seed/demo.py $PR 2>&1 | tail -3); P=${PIPESTATUS[0]}
(cd /tmp && timeout 600 /venv/bin/python $WT/_seed/demo.py $PR >/dev/null 2>&1); P=$?
echo "== seeded:";  (cd /tmp && timeout 600 /venv/bin/python $WT/_seed/demo.py $WT 2>&1 | tail -4)
(cd /tmp && timeout 600 /venv/bin/python $WT/_seed/demo.py $WT >/dev/null 2>&1); S=$?
/venv/bin/python -m compileall -q $WT/rogw $WT/data >/dev/null 2>&1; C=$?
find $WT -name __pycache__ -prune -exec rm -rf {} + 2>/dev/null
OUT=$(mktemp -d)
(cd $WT && /venv/bin/python -m pytest -q -p no:cacheprovider --timeout=900 --continue-on-collection-errors --junitxml=$OUT/j.xml >/dev/null 2>&1)
T=$(/venv/bin/python - "$OUT/j.xml" <<'PY'
import json, sys, xml.etree.ElementTree as ET
base = set(json.load(open('/root/.vp/BASELINE.json'))['stable_pass'])
passed = set()
for tc in ET.parse(sys.argv[1]).getroot().iter('testcase'):
	if not any(c.tag in ('failure', 'error', 'skipped') for c in tc):
		passed.add(f"{tc.get('classname')}::{tc.get('name')}")
print(len(base - passed))
PY
)
rm -rf $OUT
git -C $WT diff -- . ':(exclude)_seed' > /tmp/_patch_$ID.diff
echo "RESULT id=$ID pristine_exit=$P seeded_exit=$S compile=$C baseline_missing=$T patch_lines=$(wc -l < /tmp/_patch_$ID.diff)"
if [ "$P" = 0 ] && [ "$S" != 0 ] && [ "$C" = 0 ] && [ "$T" = 0 ]; then
  D=/verif/seeded/${ID}${SUF}; mkdir -p $D
  cp /tmp/_patch_$ID.diff $D/patch.diff; cp $WT/_seed/demo.py $D/demo.py; cp $WT/_seed/NOTES.md $D/NOTES.md 2>/dev/null
  echo "CONFIRMED -> $D"
else
  echo "NOT CONFIRMED"
fi
rm -f /tmp/_patch_$ID.diff
