# positive fixture for C02/path-tests-nearest-ancestor: the lint must find exactly these two first-occurrence lookups
def outermost(via):
	elems = via._full_path.de_identify().elements
	return elems.index('class_def_raw') == len(elems) - 3


def direct(via):
	return via._full_path.de_identify().elements.index('function_def_raw')


def nearest(via):
	elems = list(reversed(via._full_path.de_identify().elements))
	return elems.index('class_def_raw')
