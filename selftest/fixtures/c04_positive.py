"""Positive fixture for C04/no-hash-order-dependence: every detector must fire here on every run (never imported)."""
import glob
import os


def names(xs: list[str]) -> list[str]:
	seen = {x for x in xs}
	return list(seen | set(xs))


def label(o: object) -> str:
	return f'{id(o)}-{hash(o)}'


def files(d: str) -> list[str]:
	return os.listdir(d) + glob.glob(d + '/*')
