#!/venv/bin/python
"""For every confirmed seeded change under /verif/seeded/<id>/: apply patch.diff to a scratch copy, run every registered check,
record which rules fire in meta.json (detected_by) and print a summary table. Checker development aid, not a registered check."""
import json, os, re, shutil, subprocess, sys, tempfile
import concurrent.futures as cf
HERE = os.path.dirname(os.path.abspath(__file__)); VERIF = os.path.dirname(HERE)
sys.path.insert(0, HERE)
from run import make_copy, run_check

def main():
	props = [c['property_id'] for c in json.load(open(os.path.join(VERIF, 'MANIFEST.json')))['checks']]
	seeds = sorted(d for d in os.listdir(os.path.join(VERIF, 'seeded')) if os.path.exists(os.path.join(VERIF, 'seeded', d, 'patch.diff')))
	only = sys.argv[1:]
	rows = []
	for sd in seeds:
		if only and sd not in only:
			continue
		d = os.path.join(VERIF, 'seeded', sd)
		base = tempfile.mkdtemp(prefix='vseed_')
		try:
			tree = make_copy(base, 'tree')
			p = subprocess.run(['patch', '-p1', '-s', '-d', tree, '-i', os.path.join(d, 'patch.diff')], capture_output=True, text=True)
			if p.returncode != 0:
				rows.append((sd, 'PATCH-FAILED', [])); continue
			fired = []
			with cf.ThreadPoolExecutor(16) as ex:
				for prop, (rc, out) in zip(props, ex.map(lambda q: run_check(q, tree, os.path.join(base, 'ev_' + q)), props)):
					if rc == 1:
						rules = sorted(set(re.findall(r'\[(C\d+/[^\]]+)\]', out)))
						fired.append({'check': prop, 'rules': rules})
					elif rc != 0:
						fired.append({'check': prop, 'rules': ['ANALYSIS-ERROR']})
			meta_path = os.path.join(d, 'meta.json')
			meta = json.load(open(meta_path)) if os.path.exists(meta_path) else {}
			meta['detected_by'] = fired
			json.dump(meta, open(meta_path, 'w'), indent=1, ensure_ascii=False)
			rows.append((sd, 'detected' if fired else 'MISSED', fired))
		finally:
			shutil.rmtree(base, ignore_errors=True)
	for sd, st, fired in rows:
		print(f'{sd:10s} {st:9s} ' + '; '.join(f"{f['check']}: {', '.join(f['rules'])}" for f in fired))
	return 0
sys.exit(main())
