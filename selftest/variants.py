"""Self-test variants: one instance of one rule broken per variant, by an exact text edit of a scratch copy of /repo.
Each variant still byte-compiles; the expected reporting rule (and a fragment of the instance key) is recorded.
(id, property, expected rule id, expected key fragment, [(relpath, old, new)])"""

V = []


def v(vid, prop, rule, frag, *edits):
	V.append((vid, prop, rule, frag, list(edits)))


PY2CPP = 'rogw/tranp/implements/cpp/transpiler/py2cpp.py'
GRAMMAR = 'data/grammar.lark'

# ---- C01 ----
v('c01-unwrap-not', 'C01', 'C01/precedence-compatible', 'not_test(not)>comparison', (PY2CPP, "		value = f'({value})' if isinstance(node.value, defs.BinaryOperator) else value\n", ''))
v('c01-unwrap-bitwise', 'C01', 'C01/precedence-compatible', 'comparison(==)>and_expr(&)', (PY2CPP, "			elements = [f'({element})' if isinstance(in_node, bitwise_types) else element for in_node, element in zip(node_of_elements, elements)]\n", '			pass\n'))
v('c01-unwrap-sign', 'C01', 'C01/no-token-pasting', 'factor(-)+factor(-)', (PY2CPP, "		value = f'({value})' if isinstance(node.value, defs.Factor) else value\n", ''))
v('c01-and-as-bitand', 'C01', 'C01/precedence-compatible', 'and_test', ('data/cpp/template/operation/binary_operator.j2', '{{ left }} && {{ right }}', '{{ left }} & {{ right }}'))
v('c01-ternary-open-cond', 'C01', 'C01/precedence-compatible', 'ternary_test', ('data/cpp/template/operation/binary_operator.j2', '{{ left }} || {{ right }}', '{{ left }} , {{ right }}'))
v('c01-missing-template', 'C01', 'C01/template-exists', 'on_while', (PY2CPP, "return self.render(node, f'flow/{node.classification}', vars={'condition': condition, 'statements': statements})", "return self.render(node, f'flows/{node.classification}', vars={'condition': condition, 'statements': statements})"))
v('c01-spec-renamed', 'C01', 'C01/template-exists', 'on_func_call', (PY2CPP, '		cast_char = 200\n', '		cast_chara = 200\n'), (PY2CPP, 'return FuncCallSpec.Tags.cast_char, \'\', None', 'return FuncCallSpec.Tags.cast_chara, \'\', None'), (PY2CPP, 'elif spec == FuncCallSpec.Tags.cast_char:', 'elif spec == FuncCallSpec.Tags.cast_chara:'))
v('c01-helper-unregistered', 'C01', 'C01/template-helpers-registered', 'reg_match', ('rogw/tranp/view/helper/helper.py', '			reg_match,\n', ''))
v('c01-i18n-key', 'C01', 'C01/i18n-keys-exist', "dict.contains", ('data/cpp/template/operation/binary_in.j2', "{%- if operator == 'in' and right_is_dict -%}\n{{ right }}.{{ i18n('classes', 'dict.in') }}", "{%- if operator == 'in' and right_is_dict -%}\n{{ right }}.{{ i18n('classes', 'dict.contains') }}"))
v('c01-handler-param', 'C01', 'C01/handler-props', 'on_while', (PY2CPP, 'def on_while(self, node: defs.While, condition: str, statements: list[str]) -> str:', 'def on_while(self, node: defs.While, cond: str, statements: list[str]) -> str:\n		condition = cond'))
v('c01-scope-prefix', 'C01', 'C01/scope-containment-anchored', '_merged', ('rogw/tranp/syntax/node/definition/statement_compound.py', '				if add_module == decl_module and add_elems[:len(decl_elems)] == decl_elems:', '				if add_var.scope.startswith(decl_var.scope):'))
v('c01-dunder-swap', 'C01', 'C01/dunder-operator-table', '__lt__', (PY2CPP, "		'__lt__': 'operator<',\n		'__gt__': 'operator>',", "		'__lt__': 'operator>',\n		'__gt__': 'operator<',"))
v('c01-include-missing', 'C01', 'C01/template-includes-exist', 'function', ('data/cpp/template/function/_block.j2', None, None))  # special: delete file

# ---- C02 ----
v('c02-swap-levels', 'C02', 'C02/ladder-isomorphic', '^', (GRAMMAR, '?or_expr: xor_expr (_or_bit_op xor_expr)*\n?xor_expr: and_expr (_xor_bit_op and_expr)*', '?or_expr: xor_expr (_xor_bit_op xor_expr)*\n?xor_expr: and_expr (_or_bit_op and_expr)*'))
v('c02-shift-into-sum', 'C02', 'C02/ladder-isomorphic', '<<', (GRAMMAR, '!_add_op: "+" | "-"\n!_shift_op: "<<" | ">>"', '!_add_op: "+" | "-" | "<<"\n!_shift_op: ">>"'))
v('c02-optional-before-index', 'C02', 'C02/selector', 'function_def_raw', (GRAMMAR, 'function_def_raw: "def" name ["[" template_params "]"] "(" [parameters] ")" "->" typed_expression ":" block', 'function_def_raw: "def" name ["[" template_params "]"] "(" [parameters] ")" [name] "->" typed_expression ":" block'))
v('c02-wrong-index', 'C02', 'C02/selector-index-exists', 'TernaryOperator', ('rogw/tranp/syntax/node/definition/operator.py', '		return self._at(2)', '		return self._at(3)'))
v('c02-wrong-path', 'C02', 'C02/selector-path-exists', 'Function.block', ('rogw/tranp/syntax/node/definition/statement_compound.py', "return self._by('function_def_raw.block').as_a(Block)", "return self._by('function_def.block').as_a(Block)"))
v('c02-dispatch-reorder', 'C02', 'C02/dispatch-order', 'CustomType', ('rogw/tranp/providers/syntax/resolver.py', "			defs.ListType: ['typed_getitem'],\n			defs.DictType: ['typed_getitem'],\n			defs.CallableType: ['typed_getitem'],\n			defs.CustomType: ['typed_getitem'],", "			defs.CustomType: ['typed_getitem'],\n			defs.ListType: ['typed_getitem'],\n			defs.DictType: ['typed_getitem'],\n			defs.CallableType: ['typed_getitem'],"))
v('c02-wrong-class', 'C02', 'C02/selector-class-satisfiable', 'If.else_clause', ('rogw/tranp/syntax/node/definition/statement_compound.py', 'return self._at(2).one_of(Else, Empty)', 'return self._at(2).one_of(ElseIf, Empty)'))
v('c02-no-empty', 'C02', 'C02/selector-class-satisfiable', 'placeholder', ('rogw/tranp/syntax/node/definition/statement_compound.py', 'return self._at(2).one_of(Else, Empty)', 'return self._at(2).as_a(Else)'))

# ---- C03 ----
v('c03-truediv-self', 'C03', 'C03/stub-operator-types', 'int.__truediv__', ('rogw/tranp/compatible/libralies/classes.py', '	def __truediv__(self: Self, other: Self | int | bool) -> float: ...', '	def __truediv__(self: Self, other: Self | int | bool) -> Self: ...'))
v('c03-bool-add', 'C03', 'C03/stub-operator-types', 'bool.__add__', ('rogw/tranp/compatible/libralies/classes.py', '	def __add__(self, other: bool) -> int: ...', '	def __add__(self, other: bool) -> bool: ...'))
v('c03-token-table', 'C03', 'C03/operator-dunder-table', 'token -', ('rogw/tranp/syntax/node/definition/accessible.py', "		'-': '__sub__',", "		'-': '__add__',"))
v('c03-literal-handler', 'C03', 'C03/literal-handler-types', 'on_float', ('rogw/tranp/semantics/reflections.py', '	def on_float(self, node: defs.Float) -> IReflection:\n		return self.reflections.from_standard(float).stack(node)', '	def on_float(self, node: defs.Float) -> IReflection:\n		return self.reflections.from_standard(int).stack(node)'))
v('c03-index-prefix', 'C03', 'C03/index-path-anchoring', '_normalize_props', ('rogw/tranp/semantics/reflection/helper/template.py', "				if keys[j].startswith(f'{key}.'):", '				if keys[j].startswith(key):'))
v('c03-str-find', 'C03', 'C03/stub-method-types', 'str.find', ('rogw/tranp/compatible/libralies/classes.py', '	def find(self, subject: str, begin: int = 0) -> int: ...', '	def find(self, subject: str, begin: int = 0) -> bool: ...'))

# ---- C04 ----
v('c04-db-unload-dropped', 'C04', 'C04/load-unload-pairing', 'db.unload', ('rogw/tranp/providers/module.py', '		self.entrypoints.unload(module_path.path)\n		self.db.unload(module_path.path)', '		self.entrypoints.unload(module_path.path)'))
v('c04-completed-kept', 'C04', 'C04/load-unload-pairing', 'SymbolDB', ('rogw/tranp/semantics/reflection/db.py', '		if module_path in self.__completed:\n			self.__completed.remove(module_path)\n', ''))
v('c04-set-intro', 'C04', 'C04/no-hash-order-dependence', 'set', (PY2CPP, "		return list({var.domain_name if not isinstance(var, defs.ThisRef) else self.view.render('reference/this_ref'): True for var in vars}.keys())", "		return list({var.domain_name if not isinstance(var, defs.ThisRef) else self.view.render('reference/this_ref') for var in vars})"))
v('c04-id-in-output', 'C04', 'C04/no-hash-order-dependence', 'idhash', ('rogw/tranp/syntax/node/node.py', "				return ModuleDSN.identify(ModuleDSN.full_joined(self.scope, self.classification), self.id)", "				return ModuleDSN.identify(ModuleDSN.full_joined(self.scope, self.classification), id(self))"))
v('c04-default-mutated', 'C04', 'C04/global-state-inventory', 'default', ('rogw/tranp/view/render.py', '		return self.__renderer.get_template(f\'{template}.j2\').render(vars)', '		vars[\'__template__\'] = template\n		return self.__renderer.get_template(f\'{template}.j2\').render(vars)'))
v('c04-entrypoint-kept', 'C04', 'C04/load-unload-pairing', 'Entrypoints', ('rogw/tranp/syntax/ast/entrypoints.py', '		if module_path in self.__entrypoints:\n			del self.__entrypoints[module_path]', '		pass'))

# ---- C05 ----
v('c05-restore-unguarded', 'C05', 'C05/disabled-no-io', '_can_restore', ('rogw/tranp/semantics/reflection/persistent.py', 'return self.setting.enabled and module.in_storage() and self.sources.exists(filepath)', 'return module.in_storage() and self.sources.exists(filepath)'))
v('c05-store-unguarded', 'C05', 'C05/disabled-no-io', '_can_store', ('rogw/tranp/semantics/reflection/persistent.py', 'return self.setting.enabled and module.in_storage() and not self.sources.exists(filepath)', 'return module.in_storage() and not self.sources.exists(filepath)'))
v('c05-always-proxy', 'C05', 'C05/disabled-no-io', 'CacheProvider.get', ('rogw/tranp/cache/cache.py', 'ctor = CachedProxy if self.__setting.enabled else CachedDummy', 'ctor = CachedProxy if self.__setting.basedir else CachedDummy'))
v('c05-identity-no-mtime', 'C05', 'C05/identity-coverage', 'source-stamp', ('rogw/tranp/implements/syntax/lark/parser.py', "			'mtime': str(self.__sources.mtime(source_path)),\n", ''))
v('c05-identity-no-start', 'C05', 'C05/identity-coverage', 'setting.start', ('rogw/tranp/implements/syntax/lark/parser.py', "			'start': self.__setting.start,\n", ''))

# ---- C06 ----
v('c06-swap-fields', 'C06', 'C06/header-field-wiring', 'field', ('rogw/tranp/data/meta/header.py', "return cls(raw['module'], raw['transpiler'], raw['version'])", "return cls(raw['transpiler'], raw['module'], raw['version'])"))
v('c06-version-not-hashed', 'C06', 'C06/header-field-wiring', 'serialised', ('rogw/tranp/data/meta/header.py', "json.dumps({'version': self.app_version, 'module': self.module_meta, 'transpiler': self.transpiler_meta}", "json.dumps({'module': self.module_meta, 'transpiler': self.transpiler_meta}"))
v('c06-skip-too-far', 'C06', 'C06/header-text-roundtrip', 'skip-inside-separator', ('rogw/tranp/data/meta/header.py', 'json_begin = header_begin + len(MetaHeader.Tag) + 1', 'json_begin = header_begin + len(MetaHeader.Tag) + 3'))
v('c06-other-path', 'C06', 'C06/read-path-is-write-path', 'same-path', ('rogw/tranp/bin/transpile.py', '		filepath = self.output_filepath(module_path)\n		if not self.sources.exists(filepath):', "		filepath = module_path_to_filepath(module_path.path, '.h')\n		if not self.sources.exists(filepath):"))
v('c06-header-second-line', 'C06', 'C06/header-text-roundtrip', 'entrypoint-first-line', ('data/cpp/template/block/entrypoint.j2', '// {{ meta_header }}\n#pragma once', '#pragma once\n// {{ meta_header }}'))

# ---- C07 ----
v('c07-unwrap-memory', 'C07', 'C07/parser-boundary', '__load_entry', ('rogw/tranp/implements/syntax/lark/parser.py', '			try:\n				return EntryOfLark(parser.parse(self.__source_provider(module_path)))\n			except Exception as e:\n				raise Errors.Syntax(source_path, e) from e', '			return EntryOfLark(parser.parse(self.__source_provider(module_path)))'))
v('c07-ladder-no-terminal', 'C07', 'C07/handler-ladder', 'terminal', ('rogw/tranp/semantics/procedure.py', '		except Exception as e:\n			raise Errors.Fatal(node, \'Unhandled error\', e) from e', '		except (KeyError, IndexError, ValueError) as e:\n			raise Errors.Fatal(node, \'Unhandled error\', e) from e'))
v('c07-index-belief', 'C07', 'C07/index-belief', 'ancestor', ('rogw/tranp/syntax/node/query.py', '			if tag not in elems:\n				raise Errors.NodeNotFound(via, tag)\n\n			index = elems.index(tag)', '			index = elems.index(tag)\n			if index == -1:\n				raise Errors.NodeNotFound(via, tag)'))
v('c07-raise-valueerror', 'C07', 'C07/raises-are-app-errors', 'KeyError', ('rogw/tranp/semantics/reflection/db.py', '		raise Errors.SymbolNotDefined(key)', '		raise KeyError(key)'))
v('c07-abstract-hole', 'C07', 'C07/no-abstract-hole', 'Float', ('rogw/tranp/syntax/node/definition/literal.py', '	def literal_identifier(self) -> str:\n		return float.__name__', '	def literal_id(self) -> str:\n		return float.__name__'))
v('c07-loop-catch', 'C07', 'C07/loop-catches', 'Interactive.run', ('rogw/tranp/bin/transpile.py', '				except Errors.Error as e:\n					print(ErrorRender(e))', '				except Errors.Syntax as e:\n					print(ErrorRender(e))'))
v('c07-errors-base', 'C07', 'C07/errors-hierarchy', 'Errors.Syntax', ('rogw/tranp/errors.py', 'class Syntax(Logic):', 'class Syntax(Exception):'))

# ---- C08 ----
v('c08-self-prefix', 'C08', 'C08/anchored-name-tests', 'is_decl_this_var', ('rogw/tranp/syntax/node/definition/primary.py', "is_property = DSN.left(tokens, 1) == 'self' and DSN.elem_counts(tokens) == 2", "is_property = tokens.startswith('self') and DSN.elem_counts(tokens) == 2"))
v('c08-relativefy-unanchored', 'C08', 'C08/anchored-name-tests', 'relativefy', ('rogw/tranp/dsn/dsn.py', "if starts != origin and not origin.startswith(f'{starts}{delimiter}'):", 'if starts != origin and not origin.startswith(starts):'))
v('c08-cls-substr', 'C08', 'C08/anchored-name-tests', 'ClassRef', ('rogw/tranp/syntax/node/definition/primary.py', "		return via.tokens == 'cls'", "		return 'cls' in via.tokens"))

# ---- C09 ----
v('c09-string-annotation', 'C09', 'C09/listness-agreement', 'elements', ('rogw/tranp/syntax/node/definition/operator.py', '	def elements(self) -> list[Node]:', "	def elements(self) -> 'list[Node]':"))
v('c09-single-as-list', 'C09', 'C09/listness-agreement', 'Return.return_value', ('rogw/tranp/syntax/node/definition/statement_simple.py', '	def return_value(self) -> Node | Empty:\n		return self._at(0)', '	def return_value(self) -> Node | Empty:\n		return self._children()'))
v('c09-resolver-param', 'C09', 'C09/handler-props:ProceduralResolver', 'on_for_in', ('rogw/tranp/semantics/reflections.py', 'def on_for_in(self, node: defs.ForIn, iterates: IReflection) -> IReflection:', 'def on_for_in(self, node: defs.ForIn, iterate: IReflection) -> IReflection:\n		iterates = iterate'))
v('c09-double-append', 'C09', 'C09/one-result-per-node', 'single-append', ('rogw/tranp/semantics/procedure.py', '		consumed = len(self.__stack)\n		self.__stack.append(result)', '		consumed = len(self.__stack)\n		self.__stack.append(result)\n		if handler_name == \'on_fallback\':\n			self.__stack.append(result)'))
v('c09-pop-order', 'C09', 'C09/one-result-per-node', 'pop-order', ('rogw/tranp/semantics/procedure.py', 'event[prop_key] = list(reversed([self.__stack_pop() for _ in range(counts)]))', 'event[prop_key] = [self.__stack_pop() for _ in range(counts)]'))
v('c09-duplicate-expandable', 'C09', 'C09/metadata-unambiguous', 'prop_keys', ('rogw/tranp/syntax/node/definition/operator.py', "@Meta.embed(Node, accept_tags('factor'))\nclass Factor(UnaryOperator): pass", "@Meta.embed(Node, accept_tags('factor'))\nclass Factor(UnaryOperator):\n	@property\n	@Meta.embed(Node, expandable)\n	def value(self) -> Node:\n		return self._at(1)"))
v('c09-filtered-list', 'C09', 'C09/no-fallback-with-props', 'Delete', ('rogw/tranp/syntax/node/definition/statement_simple.py', '		return [node.as_a(Reference) for node in self._children()]', "		return [node.as_a(Reference) for node in self._children('del_targets')]"))

# ---- C10 ----
v('c10-index-format', 'C10', 'C10/path-element-codec', 'writer-format', ('rogw/tranp/syntax/ast/path.py', "return cls(DSN.join(*[origin, f'{entry_tag}[{index}]']))", "return cls(DSN.join(*[origin, f'{entry_tag}({index})']))"))
v('c10-match-parent', 'C10', 'C10/match-feature-downward', 'ArgumentLabel', ('rogw/tranp/syntax/node/definition/primary.py', "		return via._full_path.parent_tag == 'argvalue'", "		return via.parent.tag == 'argvalue'"))
v('c10-cache-key', 'C10', 'C10/resolver-path-keyed', 'cache-key', ('rogw/tranp/syntax/node/resolver.py', '		if full_path in self.__insts:\n			return self.__insts[full_path]', '		if symbol in self.__insts:\n			return self.__insts[symbol]'))

# ---- C11 / C12 ----
v('c11-swap-sum-mul', 'C11', 'C11/ladder-isomorphic', '*', ('data/syntax/py_gram.lark', 'calc_sum[1] := (calc_mul op_add)* calc_mul\ncalc_mul[1] := (unary op_mul)* unary', 'calc_sum[1] := (calc_mul op_mul)* calc_mul\ncalc_mul[1] := (unary op_add)* unary'))
v('c11-early-return', 'C11', 'C11/full-consumption', 'guard', ('rogw/tranp/implements/syntax/tranp/syntax.py', '		if step.steps != length:', '		if step.steps > length:'))
v('c12-lark-edited', 'C12', 'C12/artifact-sync', 'raise', ('data/syntax/py_gram.lark', 'raise := "raise" expr', 'raise := "raise" [expr]'))
v('c12-rules-edited', 'C12', 'C12/artifact-sync', 'params', ('data/syntax/py_rules.py', "							('symbol', 'param'),\n							('string', '\",\"')", "							('symbol', 'param'),\n							('string', '\";\"')"))
v('c12-gram-rules-edited', 'C12', 'C12/artifact-sync', 'expr_opt', ('data/syntax/gram_rules.py', "					('string', '\"[\"'),\n					('symbol', 'expr'),", "					('string', '\"[\"'),\n					('symbol', 'terms'),"))

v('c07-f44-reverted', 'C07', 'C07/regexp-terminals-linear', 'string', ('data/syntax/py_gram.lark', "string := /\\'(?:[^\\'\\\\]|\\\\\\')*\\'|\"(?:[^\"\\\\]|\\\\\")*\"/", "string := /\\'([^\\'\\\\]*(\\\\\\')?)*\\'|\"([^\"\\\\]*(\\\\\")?)*\"/"))
# ---- C13 ----
v('c13-symbol-reordered', 'C13', 'C13/symbol-table-alignment', 'symbol', ('rogw/tranp/implements/syntax/tranp/token.py', "		self.symbol = '@#$.,:;(){}[]`=-+*/%&|^~!?<>'", "		self.symbol = '@#$.,:;(){}[]`=+-*/%&|^~!?<>'"))
v('c13-combined-reordered', 'C13', 'C13/symbol-table-alignment', 'combined', ('rogw/tranp/implements/syntax/tranp/token.py', "			'<<', '>>',\n", "			'>>', '<<',\n"))
v('c13-gram-deletes-minus', 'C13', 'C13/semantic-members', 'grammar', ('data/syntax/gram_tokenizer.py', "definition.symbol = ''.join(definition.symbol.split('/'))", "definition.symbol = ''.join(definition.symbol.split('`'))"))
v('c13-quote-order', 'C13', 'C13/domain-order', '"""', ('rogw/tranp/implements/syntax/tranp/token.py', """for quote in ['\"\"\"', "'", '"', "\\\\'", '\\\\"']]""", """for quote in ['"', '\"\"\"', "'", "\\\\'", '\\\\"']]"""))

v('c08-f17-reverted', 'C08', 'C08/template-name-substitution-anchored', 'list_sort', ('data/cpp/template/func_call/list_sort.j2', "reg_replace('\\\\b' ~ entry_name ~ '\\\\b', 'a', entry_value)", "entry_value | replace(entry_name, 'a')"))
v('c08-f18-reverted', 'C08', 'C08/template-prefix-tests-anchored', 'Iterator', ('data/cpp/template/function/_method_body.j2', "{%- elif return_type.startswith('Iterator<') %}", "{%- elif return_type.startswith('Iterator') %}"))
v('c04-f23-reverted', 'C04', 'C04/load-unload-pairing', 'rollback', ('rogw/tranp/module/modules.py', "				self.unload(module_path)\n				raise\n", "				raise\n"))
v('c19-f25-reverted', 'C19', 'C19/error-types-and-curry', 'assert-invoke', ('rogw/tranp/lang/di.py', "		allow_types = [type(arg) for arg, expect_type in zip(remain_args, expect_types) if isinstance(arg, expect_type)]\n		if len(expect_types) != len(remain_args) or len(expect_types) != len(allow_types):", "		allow_types = [type(arg) for index, arg in enumerate(remain_args) if isinstance(arg, expect_types[index])]\n		if len(expect_types) != len(allow_types):"))
v('c03-f26-reverted', 'C03', 'C03/template-positions-matched-by-index', 'candidate-accept', ('rogw/tranp/semantics/reflection/helper/template.py', "			if diff >= 0 and DSN.left(actual_elems, schema_counts) != schema_elems:\n				continue\n", ""))
v('c09-f27-reverted', 'C09', 'C09/one-result-per-node', 'exec-stack-popped-on-failure', ('rogw/tranp/semantics/procedure.py', "		try:\n			return self.__exec_impl(root)\n		finally:\n			# 実行に失敗した場合もスタックを破棄する。残したままにすると、呼び出し元(入れ子の実行元)が失敗した実行の結果を参照してしまう\n			self.__stacks.pop()\n", "		result = self.__exec_impl(root)\n		self.__stacks.pop()\n		return result\n"))
v('c11-f29-reverted', 'C11', 'C11/full-consumption', 'tokenizer-boundary', ('rogw/tranp/implements/syntax/tranp/syntax.py', "		try:\n			tokens = self.tokenizer.parse(source)\n		except Exception as e:", "		tokens = self.tokenizer.parse(source)\n		try:\n			pass\n		except Exception as e:"))
v('c17-f30-reverted', 'C17', 'C17/literal-decoding', 'cast-arity', ('rogw/tranp/implements/transpiler/evaluator.py', "		if len(arguments) != 1:\n			raise Errors.OperationNotAllowed(node, calls, arguments)\n\n", ""))
v('c13-f32-reverted', 'C13', 'C13/quote-escape-independent-of-prefix', 'scan-ends-on-parity', ('rogw/tranp/implements/syntax/tranp/tokenizer.py', "			escapes = 0\n			while index - 1 - escapes >= end and source[index - 1 - escapes] == '\\\\':\n				escapes += 1\n\n			end = index + len(pair['close'])\n			if escapes % 2 == 0:\n				break\n", "			prev = max(end, index - 1)\n			end = index + len(pair['close'])\n			if not (source[prev] == '\\\\'):\n				break\n"))
v('c07-f33-reverted', 'C07', 'C07/error-render-total', '__arg_to_str', ('rogw/tranp/view/error_render.py', "		try:\n			return f'\"{arg}\"' if isinstance(arg, str) else str(arg)\n		except Exception as e:\n			return f'<{arg.__class__.__name__}: unprintable ({e.__class__.__name__})>'\n", "		return f'\"{arg}\"' if isinstance(arg, str) else str(arg)\n"))
v('c08-f34-reverted', 'C08', 'C08/template-name-substitution-anchored', "replace('return ')", ('data/cpp/template/assign/move_assign_declare.j2', "reg_replace('^return ', '', break_last_block(value, '{}')[1].strip())[:-1]", "(break_last_block(value, '{}')[1].strip() | replace('return ', ''))[:-1]"))
v('c02-f35-reverted', 'C02', 'C02/decorator-tests-any-position', 'ClassMethod.match_feature', ('rogw/tranp/syntax/node/definition/statement_compound.py', "		return len([decorator for decorator in decorators if decorator.as_a(Decorator).path.tokens == 'classmethod']) > 0\n", "		return len(decorators) > 0 and decorators[0].as_a(Decorator).path.tokens == 'classmethod'\n"))
v('c01-f36-reverted', 'C01', 'C01/range-arguments-honoured', 'comp/comp_for_range', ('data/cpp/template/comp/comp_for_range.j2', "{%- set args = break_separator(break_last_block(iterates, '()')[1], ',') -%}\n{%- if args | length == 1 -%}\nauto {{ symbols[0] }} = 0; {{ symbols[0] }} < {{ args[0] }}; {{ symbols[0] }}++\n{%- else -%}\nauto {{ symbols[0] }} = {{ args[0] }}; {{ symbols[0] }} < {{ args[1] }}; {{ symbols[0] }} += {{ args[2] if args | length > 2 else 1 }}\n{%- endif -%}\n", "{%- set size = break_last_block(iterates, '()')[1] -%}\nauto {{ symbols[0] }} = 0; {{ symbols[0] }} < {{ size }}; {{ symbols[0] }}++\n"))
v('c11-f37-reverted', 'C11', 'C11/parser-keeps-no-parse-state', 'reset-per-parse', ('rogw/tranp/implements/syntax/tranp/syntax.py', "		# 最大到達位置は解析毎の状態。パーサーを再利用しても前回の解析結果を引き継がない\n		self.peek = 0\n", ""))
v('c04-f38-reverted', 'C04', 'C04/extends-on-fresh-reflections-only', 'on_list', ('rogw/tranp/semantics/reflections.py', "extends(self.reflections.from_standard(Union).stack(node).extends(*known_types))", "extends(self.reflections.from_standard(Union).extends(*known_types))"))
v('c17-f39-reverted', 'C17', 'C17/literal-decoding', 'concat:requoted', ('rogw/tranp/implements/transpiler/evaluator.py', "{self._requote(right[1:-1], right[0], quote)}", "{right[1:-1]}"))
v('c10-f40-reverted', 'C10', 'C10/path-prefix-tests-anchored', 'Nodes.expand', ('rogw/tranp/syntax/node/query.py', "path.startswith(f'{cached}.')", "path.startswith(cached)"))
v('c13-f45-reverted', 'C13', 'C13/joined-span-covers-all-parts', 'joined', ('rogw/tranp/implements/syntax/tranp/token.py', "		first = min(tokens, key=lambda token: (token.source_map.begin_line, token.source_map.begin_column))", "		first = min(others, key=lambda token: (token.source_map.begin_line, token.source_map.begin_column))"))
# ---- C14 / C15 ----
v('c14-key-renamed', 'C14', 'C14/record-keys-agree', 'Reflection', ('rogw/tranp/semantics/reflection/serializer.py', "				'origin': symbol.types.fullyname,", "				'org': symbol.types.fullyname,"))
v('c14-via-from-origin', 'C14', 'C14/field-wiring', 'Options.via', ('rogw/tranp/semantics/reflection/serializer.py', "via = db[data['via']] if data['origin'] != data['via'] else None", "via = db[data['origin']] if data['origin'] != data['via'] else None"))
v('c14-separator', 'C14', 'C14/attr-path-encoding', 'separator', ('rogw/tranp/lang/sequence.py', "			in_path = '.'.join(routes)\n			entries = {**entries, **expand(elem, in_path, iter_key)}\n	elif type(entry) is dict:", "			in_path = '/'.join(routes)\n			entries = {**entries, **expand(elem, in_path, iter_key)}\n	elif type(entry) is dict:"))
v('c14-f15-reverted', 'C14', 'C14/export-post-order', 'declaration-dependencies-first', ('rogw/tranp/semantics/reflection/db.py', "			if decl_symbol is not None and decl_symbol is not symbol and type_key not in visiting:\n				self._order_keys_recursive(for_module_path, decl_symbol, orders, (*visiting, type_key))\n", ""))
v('c15-source-map-order', 'C15', 'C15/field-symmetry', 'source_map-order', ('rogw/tranp/implements/syntax/lark/entry.py', "			token.end_line = entry_token['source_map'][2]\n			token.end_column = entry_token['source_map'][3]", "			token.end_line = entry_token['source_map'][3]\n			token.end_column = entry_token['source_map'][2]"))
v('c15-view-reads-endpos', 'C15', 'C15/view-coverage', 'end_pos', ('rogw/tranp/implements/syntax/lark/entry.py', "		return self.__entry.value if type(self.__entry) is lark.Token else ''", "		return self.__entry.value if type(self.__entry) is lark.Token and self.__entry.end_pos is not None else ''"))
v('c15-format-bin', 'C15', 'C15/store-wrappers', 'cache-format', ('rogw/tranp/implements/syntax/lark/parser.py', "decorator = self.__caches.get(basepath, identity=identity, format='json')", "decorator = self.__caches.get(basepath, identity=identity, format='bin')"))

# ---- C16 ----
v('c16-meta-columns-swapped', 'C16', 'C16/span-fields-from-one-object', 'span@', ('rogw/tranp/implements/syntax/lark/entry.py', "				self.__entry.meta.column,\n				self.__entry.meta.end_line,\n				self.__entry.meta.end_column,", "				self.__entry.meta.end_column,\n				self.__entry.meta.end_line,\n				self.__entry.meta.column,"))
v('c16-token-begin-from-end-line', 'C16', 'C16/span-fields-from-one-object', 'span@', ('rogw/tranp/implements/syntax/lark/entry.py', "				self.__entry.line,\n				self.__entry.column,", "				self.__entry.end_line,\n				self.__entry.column,"))
v('c16-end-column-unshifted', 'C16', 'C16/quotation-arithmetic', 'shift-uniform', ('rogw/tranp/view/error_render.py', "			node.source_map['end'][1] - 1,", "			node.source_map['end'][1],"))
v('c16-shift-zero', 'C16', 'C16/quotation-arithmetic', 'shift-minus-one', ('rogw/tranp/view/error_render.py', "			node.source_map['begin'][0] - 1,\n			node.source_map['begin'][1] - 1,\n			node.source_map['end'][0] - 1,\n			node.source_map['end'][1] - 1,", "			node.source_map['begin'][0],\n			node.source_map['begin'][1],\n			node.source_map['end'][0],\n			node.source_map['end'][1],"))
v('c16-range-condition-flipped', 'C16', 'C16/quotation-arithmetic', 'range-end', ('rogw/tranp/view/error_render.py', "begin_column + diff if begin_line == end_line else len(self.cause_line)", "begin_column + diff if begin_line != end_line else len(self.cause_line)"))
v('c16-tab-four-blanks', 'C16', 'C16/quotation-arithmetic', 'tab-keeps-columns', ('rogw/tranp/view/error_render.py', ".replace('\\t', ' ')", ".replace('\\t', '    ')"))
v('c16-no-minimum-caret', 'C16', 'C16/quotation-arithmetic', 'mark-width', ('rogw/tranp/view/error_render.py', "			explain = '^' * max(1, end - begin)\n			return f'{indent}{explain}'", "			explain = '^' * (end - begin)\n			return f'{indent}{explain}'"))
v('c16-engine-line-number', 'C16', 'C16/engine-quotation-arithmetic', 'line-number', ('rogw/tranp/implements/syntax/tranp/syntax.py', "line_no = self._cause_source_map.begin_line + 1", "line_no = self._cause_source_map.begin_line"))
v('c16-engine-quotes-end-line', 'C16', 'C16/engine-quotation-arithmetic', 'quoted-line-is-begin-line', ('rogw/tranp/implements/syntax/tranp/syntax.py', "return lines[self._cause_source_map.begin_line]", "return lines[self._cause_source_map.end_line]"))
v('c16-node-span-of-parent-path', 'C16', 'C16/node-span-is-entry-span', 'Nodes.source_map', ('rogw/tranp/syntax/node/query.py', "		return self.__entries.by(full_path).source_map", "		return self.__entries.by(EntryPath(full_path).shift(-1).origin).source_map"))
# ---- C17 ----
v('c17-wrong-op', 'C17', 'C17/branch-operator-agreement', '_bitwise:^', ('rogw/tranp/implements/transpiler/evaluator.py', "		elif op == '^':\n			return left ^ right", "		elif op == '^':\n			return left | right"))
v('c17-operands-swapped', 'C17', 'C17/branch-operator-agreement', '_calc:-', ('rogw/tranp/implements/transpiler/evaluator.py', "		elif op == '-':\n			return left - right", "		elif op == '-':\n			return right - left"))
v('c17-div-truncated', 'C17', 'C17/routing-partition', 'float-arm-test', ('rogw/tranp/implements/transpiler/evaluator.py', "if isinstance(left, float) or isinstance(right, float) or op == '/':", 'if isinstance(left, float) or isinstance(right, float):'))
v('c17-tilde-allowed', 'C17', 'C17/grammar-exhaustive', 'factor:~', ('rogw/tranp/implements/transpiler/evaluator.py', "	BitwiseOps: ClassVar = ['|', '^', '&', '<<', '>>']", "	BitwiseOps: ClassVar = ['|', '^', '&', '<<', '>>', '~']"))
v('c17-cast-swapped', 'C17', 'C17/literal-decoding', 'cast:int', ('rogw/tranp/implements/transpiler/evaluator.py', "		if org_calls == 'int':\n			if isinstance(arguments[0], str):\n				return int(arguments[0][1:-1])\n			else:\n				return int(arguments[0])", "		if org_calls == 'int':\n			if isinstance(arguments[0], str):\n				return int(arguments[0][1:-1])\n			else:\n				return round(float(arguments[0]))"))

# ---- C18 ----
v('c18-f43-reverted-skip', 'C18', 'C18/quoted-text-is-opaque', '_skip_other_block', ('rogw/tranp/view/helper/block.py', "			if text[index] in other_tokens and not cls._is_operator(text, index) and (not in_quote or text[index] == other_closes[-1]):", "			if text[index] in other_tokens and not cls._is_operator(text, index):"))
v('c18-f43-reverted-last-block', 'C18', 'C18/quoted-text-is-opaque', 'break_last_block', ('rogw/tranp/view/helper/block.py', "			if text[index] in '\"\\'':\n				# 文字列内の括弧はブロックとして数えない\n				index = cls._skip_other_block(text, '\"\"\\'\\'', index)\n				continue\n\n", ""))
v('c18-quotes-dropped-from-table', 'C18', 'C18/pair-table', '_all_pair', ('rogw/tranp/view/helper/block.py', "	_all_pair = ['[]', '()', '{}', '<>', '\"\"', \"''\"]", "	_all_pair = ['[]', '()', '{}', '<>']"))
v('c18-separator-skips-brackets-only', 'C18', 'C18/quoted-text-is-opaque', 'break_separator', ('rogw/tranp/view/helper/block.py', "		open_tokens = ''.join([pair[0] for pair in cls._all_pair])\n		other_tokens = ''.join(cls._all_pair)\n		blocks: list[str] = []", "		open_tokens = '[({<'\n		other_tokens = ''.join(cls._all_pair)\n		blocks: list[str] = []"))
v('c18-f46-reverted', 'C18', 'C18/angle-brackets-disambiguated', 'break_separator', ('rogw/tranp/view/helper/block.py', "			if text[index] in open_tokens and not cls._is_operator(text, index):", "			if text[index] in open_tokens:"))
# ---- C19 ----
v('c19-clone-alias', 'C19', 'C19/clone-owns-storage', '_clone', ('rogw/tranp/lang/di.py', '		di.__injectors = self.__injectors.copy()', '		di.__injectors = self.__injectors'))
v('c19-combine-left-wins', 'C19', 'C19/clone-owns-storage', 'right-wins', ('rogw/tranp/lang/di.py', '		di.__instances = {**di.__instances, **other.__instances}', '		di.__instances = {**other.__instances, **di.__instances}'))
v('c19-unbind-keeps-instance', 'C19', 'C19/bind-unbind-pairing', 'bind-vs-unbind', ('rogw/tranp/lang/di.py', '			if found_symbol in self.__instances:\n				del self.__instances[found_symbol]\n', ''))
v('c19-lazy-clone-shares', 'C19', 'C19/clone-owns-storage', 'LazyDI._clone', ('rogw/tranp/lang/di.py', '		di.__definitions = self.__definitions.copy()', '		di.__definitions = self.__definitions'))
v('c19-typeerror', 'C19', 'C19/error-types-and-curry', 'raise', ('rogw/tranp/lang/di.py', "			raise ValueError(f'Unresolve symbol. symbol: {symbol}')", "			raise KeyError(f'Unresolve symbol. symbol: {symbol}')"))
v('c19-curry-continue', 'C19', 'C19/error-types-and-curry', 'invoke-curry-prefix', ('rogw/tranp/lang/di.py', '			if not self.can_resolve(anno):\n				break', '			if not self.can_resolve(anno):\n				continue'))
