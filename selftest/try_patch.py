#!/venv/bin/python
"""Apply a patch to a scratch copy of /repo and run every registered check against it (checker development aid).
usage: try_patch.py <patch.diff> [Cxx ...]"""
import json, os, shutil, subprocess, sys, tempfile
HERE = os.path.dirname(os.path.abspath(__file__)); VERIF = os.path.dirname(HERE)
sys.path.insert(0, HERE)
from run import make_copy, run_check
import concurrent.futures as cf

def main():
	patch = os.path.abspath(sys.argv[1])
	props = sys.argv[2:] or [c['property_id'] for c in json.load(open(os.path.join(VERIF, 'MANIFEST.json')))['checks']]
	base = tempfile.mkdtemp(prefix='vtry_')
	try:
		tree = make_copy(base, 'tree')
		p = subprocess.run(['patch', '-p1', '-s', '-d', tree, '-i', patch], capture_output=True, text=True)
		if p.returncode != 0:
			print('PATCH FAILED', p.stdout, p.stderr); return 2
		fired = []
		with cf.ThreadPoolExecutor(16) as ex:
			for prop, (rc, out) in zip(props, ex.map(lambda q: run_check(q, tree, os.path.join(base, 'ev_' + q)), props)):
				lines = [l for l in out.split('\n') if ('[C' in l and ']' in l and ': ' in l and not l.startswith(' ')) or l.startswith('ANALYSIS-ERROR')]
				for l in out.split('\n'):
					if 'not evaluated' in l:
						print(f'   ({prop}) {l.strip()[:200]}')
				if rc != 0:
					fired.append(prop)
					print(f'== {prop} rc={rc}')
					for l in lines[:6]:
						print('   ', l[:330])
		print('FIRED:', fired or 'none')
		return 0
	finally:
		shutil.rmtree(base, ignore_errors=True)
sys.exit(main())
