#!/venv/bin/python
"""Benign variants: behaviour-preserving refactorings (selftest/benign/*.diff, produced by independent sub-agents and confirmed
byte-identical in behaviour by them). Every registered check must stay silent (exit 0) on each of them."""
import json, os, shutil, subprocess, sys, tempfile
import concurrent.futures as cf
HERE = os.path.dirname(os.path.abspath(__file__)); VERIF = os.path.dirname(HERE)
sys.path.insert(0, HERE)
from run import make_copy, run_check

def main():
	props = [c['property_id'] for c in json.load(open(os.path.join(VERIF, 'MANIFEST.json')))['checks']]
	only = sys.argv[1:]
	bad = 0
	for name in sorted(os.listdir(os.path.join(HERE, 'benign'))):
		names = [o for o in only if not o.startswith('C')]
		if not name.endswith('.diff') or (names and name[:-5] not in names):
			continue
		base = tempfile.mkdtemp(prefix='vbenign_')
		try:
			tree = make_copy(base, 'tree')
			p = subprocess.run(['patch', '-p1', '-s', '-d', tree, '-i', os.path.join(HERE, 'benign', name)], capture_output=True, text=True)
			if p.returncode != 0:
				print(name, 'PATCH FAILED', p.stdout[:200]); bad += 1; continue
			sel = [o for o in only if o.startswith('C')] or props
			with cf.ThreadPoolExecutor(16) as ex:
				for prop, (rc, out) in zip(sel, ex.map(lambda q: run_check(q, tree, os.path.join(base, 'ev_' + q)), sel)):
					if rc != 0:
						bad += 1
						lines = [l for l in out.split('\n') if ('[C' in l and ': ' in l and not l.startswith(' ')) or l.startswith('ANALYSIS-ERROR') or 'Error' in l[:40]]
						print(f'FALSE-ALARM {name} {prop} rc={rc}')
						for l in lines[:8]:
							print('     ', l[:300])
		finally:
			shutil.rmtree(base, ignore_errors=True)
	print('false alarms:', bad)
	return 1 if bad else 0
sys.exit(main())
