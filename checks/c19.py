"""C19 — the dependency container follows its reference model: structural clauses (clones own their storage,
bind/unbind store pairing, error types, curry prefix)."""
from __future__ import annotations

import ast

from vlib.core import AnalysisError, Report
from vlib.flow import raised_name
from vlib.match import FI, X, atoms, atoms_via, calls, deref, facts, has_call, inline_predicates, inlined_bodies2, nodes
from vlib.srcindex import SourceIndex, mangle, unparse, walk_no_nested
from vlib.stores import attr_of, effects_of, is_fresh, stores_of

EXPLANATION = (
	'Decides: (a) _clone/combine of DI and LazyDI assign every binding store of the new container from a fresh object (.copy(), {**a, **b}) — never an alias of self/other storage — mutate neither operand, '
	'and spread the right operand last so it wins; (b) the stores written on the bind/resolve path are exactly the stores deleted on the unbind path (following super() calls), and rebind is unbind-then-bind; '
	'(c) explicit raises of the public API are ValueError (TypeError only for combine), invoke curries the maximal resolvable prefix (break at the first unresolvable annotation) and passes *remain_args after it; '
	'(d) wiring: per-module containers are built by combine of the shared container with a fresh LazyDI. Observational equivalence with a reference model over operation sequences is not decided.'
)
ASSUMPTIONS = ['stores are the dict attributes initialised in __init__; the __invocations memo is exempt after verifying it is a pure function of the factory']
TRUSTED_BASE = ['CPython ast', 'vlib/stores.py']

DI_PY = 'rogw/tranp/lang/di.py'


def run(rep: Report, tier: str) -> None:
	idx = SourceIndex()
	m = idx.mod(DI_PY)
	rep.consulted(DI_PY)
	di, lazy = m.cls('DI'), m.cls('LazyDI')
	st = {'DI': stores_of(di), 'LazyDI': stores_of(lazy)}
	if set(st['DI']) != {'_DI__instances', '_DI__injectors', '_DI__invocations'} or set(st['LazyDI']) != {'_LazyDI__definitions'}:
		rep.error(f'C19: container stores changed: {st}; the store tables of this check must be re-confirmed')
	binding_stores = {'DI': ['_DI__instances', '_DI__injectors'], 'LazyDI': ['_LazyDI__definitions']}

	# ---- (a) clones own their storage ---------------------------------------------------------------------------
	ra = rep.rule('C19/clone-owns-storage', '_clone/combine assign every binding store of the new container from a fresh object, never alias or mutate self/other storage; the right operand is spread last', floor=10)
	for cls in (di, lazy):
		for mname in ('_clone', 'combine'):
			f = cls.method(mname)
			if f is None:
				if cls is lazy:
					ra.violate(f'LazyDI.{mname}', cls.where, f'LazyDI.{mname} vanished: the inherited version does not copy __definitions, so the clone shares (or loses) lazy registrations')
				else:
					raise AnalysisError(f'DI.{mname} vanished')
				continue
			ef = effects_of(f, cls, bases=())
			newvars = {n.targets[0].id for n in walk_no_nested(f.node) if isinstance(n, ast.Assign) and len(n.targets) == 1 and isinstance(n.targets[0], ast.Name)}
			for store in binding_stores[cls.name]:
				key = f'{cls.name}.{mname}:{store}'
				assigns = [(b, v, n) for b, a, v, n in ef.assigns if a == store and b in newvars]
				if not assigns and mname == 'combine':
					# merge in place on the fresh clone: `<new>.<store>.update(other.<store>)` where <new> = self._clone() / super().combine(other)
					# (freshness of the clone's stores is the _clone obligation; update() lets the right operand win)
					from_clone = {n.targets[0].id for n in walk_no_nested(f.node) if isinstance(n, ast.Assign) and len(n.targets) == 1 and isinstance(n.targets[0], ast.Name) and isinstance(n.value, ast.Call) and (unparse(n.value.func) in ('self._clone', 'super().combine', 'super()._clone'))}
					ups = [n for b, a, n in ef.adds if a == store and b in from_clone and isinstance(n, ast.Call) and n.func.attr == 'update' and len(n.args) == 1]
					if ups:
						for n in ups:
							src = attr_of(n.args[0], cls, ('other',))
							ra.check(src is not None and src[1] == store, key + ':right-wins', (DI_PY, n.lineno), f'combine must merge the right operand\'s {store} over the clone: `{unparse(n)}`', unparse(n))
						ra.ok(key, f.where, message='merged in place on the fresh clone')
						continue
				if not assigns:
					# DI.combine relies on _clone for copies and must still merge: for DI stores in combine an assignment is required; _clone must assign all
					ra.violate(key, f.where, f'{cls.name}.{mname} never assigns {store} on the new container: it keeps the empty/initial store (bindings lost) or shares the original', unparse(f.node).split('\n')[0])
					continue
				for b, v, n in assigns:
					fresh = is_fresh(v)
					ra.check(fresh, key, (DI_PY, n.lineno), f'{cls.name}.{mname} assigns {store} from `{unparse(v)}`, which aliases existing storage: a later bind/unbind on one container changes the other', unparse(n))
					if mname == 'combine' and isinstance(v, ast.BinOp) and isinstance(v.op, ast.BitOr):
						src = attr_of(v.right, cls, ('other',))
						ra.check(src is not None and src[1] == store, key + ':right-wins', (DI_PY, n.lineno), f'combine must put the right operand on the right of the dict union so its bindings win: `{unparse(v)}`', unparse(n))
					if mname == 'combine' and isinstance(v, ast.Dict):
						# a local that stands for one of the operand's stores (`redefined = other.__definitions`) is read as that store
						spreads = [unparse(deref(f.node, x) if isinstance(x, ast.Name) else x) for k, x in zip(v.keys, v.values) if k is None]
						ra.check(len(spreads) == 2 and spreads[1].startswith('other.'), key + ':right-wins', (DI_PY, n.lineno), f'combine must spread the right operand last so its bindings win; spreads are {spreads}', unparse(n))
			# a clone is a new container: it starts from the operands' *bindings* only. Any other store of the class (per-container records such as the
			# first-invocation memo, which also gates the one-time signature check) must not be carried over, or the clone behaves according to its operand's history
			other_stores = set(st[cls.name]) - set(binding_stores[cls.name])
			if cls is lazy:
				other_stores |= set(st['DI']) - set(binding_stores['DI'])
			for b, a, v, n in ef.assigns:
				if b in newvars and a in other_stores:
					ra.violate(f'{cls.name}.{mname}:carries {a}', (DI_PY, n.lineno), f'{cls.name}.{mname} copies the per-container store {a} into the new container: the clone inherits its operand\'s history (e.g. which factories already passed the first-call signature check), so a mismatched invoke on the combined container is no longer rejected with ValueError', unparse(n))
			ra.ok(f'{cls.name}.{mname}:bindings-only', f.where)
			# neither operand is mutated in place
			for b, a, n in ef.adds + ef.dels:
				if b in ('self', 'other'):
					ra.violate(f'{cls.name}.{mname}:mutates {b}.{a}', (DI_PY, n.lineno), f'{cls.name}.{mname} mutates {b}.{a} in place: the operand does not keep behaving as before', unparse(n))
			ra.ok(f'{cls.name}.{mname}:no-operand-mutation', f.where)
	# every other place that installs a whole store (factory methods such as LazyDI.instantiate): the installed object must be built for this container.
	# Keeping the caller's dict makes bind/unbind on the container write through to the caller and to every container built from the same dict
	for cls in (di, lazy):
		for name, defs in cls.methods.items():
			if name in ('_clone', 'combine'):
				continue
			f = defs[-1]
			for n in walk_no_nested(f.node):
				if not (isinstance(n, (ast.Assign, ast.AnnAssign)) and getattr(n, 'value', None) is not None):
					continue
				for t in (n.targets if isinstance(n, ast.Assign) else [n.target]):
					if isinstance(t, ast.Attribute) and mangle(cls.name, t.attr) in binding_stores[cls.name]:
						v = deref(f.node, n.value) if isinstance(n.value, ast.Name) else n.value
						fresh = is_fresh(v) or (isinstance(v, ast.Dict) and not v.keys)
						ra.check(fresh, f'{cls.name}.{name}:{t.attr}:installed-store-is-own', (DI_PY, n.lineno), f'{cls.name}.{name} installs `{unparse(n.value)}` as {t.attr} without copying: the container shares the dict with its caller (and with every other container built from it), so a later bind / unbind / rebind on one of them changes what the others resolve', unparse(n))
	# "the right operand's bindings AND instances win": an instance the left operand already created for a symbol must not survive when the right operand
	# binds that symbol (otherwise the outcome of combine depends on whether the left operand happened to resolve the symbol before)
	cf = di.method('combine')
	merged = [n for n in walk_no_nested(cf.node) if isinstance(n, ast.Assign) and isinstance(n.targets[0], ast.Attribute) and n.targets[0].attr.endswith('__instances')] if cf is not None else []
	merged += [n for n in walk_no_nested(cf.node) if isinstance(n, ast.Expr) and isinstance(n.value, ast.Call) and isinstance(n.value.func, ast.Attribute) and n.value.func.attr == 'update' and unparse(n.value.func.value).endswith('__instances')] if cf is not None else []
	if not merged:
		ra.skip('DI.combine:left-instances-of-rebound-symbols', (cf or di).where, 'DI.combine no longer merges the __instances stores')
	else:
		src_ = ' '.join(unparse(n) for n in walk_no_nested(cf.node) if isinstance(n, (ast.Assign, ast.Expr, ast.For, ast.If)))
		drops = any(isinstance(x, ast.Compare) and isinstance(x.ops[0], ast.NotIn) and unparse(x.comparators[0]).endswith('__injectors') for x in ast.walk(cf.node)) or any(isinstance(x, (ast.Delete,)) or (isinstance(x, ast.Call) and isinstance(x.func, ast.Attribute) and x.func.attr in ('pop', 'unbind')) for x in ast.walk(cf.node))
		ra.check(drops, 'DI.combine:left-instances-of-rebound-symbols', (DI_PY, merged[0].lineno), 'DI.combine merges the two __instances stores key by key: an instance the left operand already created for a symbol survives although the right operand binds that symbol (without an instance yet), so `left.combine(right).resolve(S)` answers with the LEFT instance if left resolved S before and with the right binding otherwise', unparse(merged[0]))
	# the memo is exempt only while it is a pure function of the factory
	inv = di.method('invoke')
	ix = FI(inv)
	fparam = inv.params()[1] if len(inv.params()) > 1 else 'factory'
	memo_sets = [n for n in nodes(ix, ast.Assign) if isinstance(n.targets[0], ast.Subscript) and unparse(n.targets[0].value) == 'self.__invocations']
	if not memo_sets:
		ra.skip('DI.__invocations-is-pure-memo', inv.where, 'invoke no longer fills self.__invocations')
	for n in memo_sets:
		k, v = n.targets[0].slice, n.value
		key_ok = isinstance(k, ast.Call) and unparse(k.func) == 'to_fullyname' and len(k.args) == 1 and unparse(k.args[0]) == fparam
		free = {x.id for x in ast.walk(v) if isinstance(x, ast.Name)}
		val_ok = has_call(v, '__pluck_annotations') and free <= {'self', fparam}
		ra.check(key_ok and val_ok, 'DI.__invocations-is-pure-memo', inv.where, f'__invocations must stay a memo of __pluck_annotations(<factory>) keyed by to_fullyname(<factory>) — a pure function of the factory — or be cloned/combined like the other stores: `{unparse(n)[:160]}`', unparse(n)[:160])

	# ---- (b) bind / unbind pairing ------------------------------------------------------------------------------------
	rb = rep.rule('C19/bind-unbind-pairing', 'stores written on the bind/resolve path == stores deleted on the unbind path (per class, following super()); rebind = unbind then bind when bound', floor=5)

	def path_effects(cls, entry: str, kind: str) -> set[str]:
		"""stores added to / deleted from, starting at cls.<entry>, following self.<m>() and super().<m>() calls"""
		out: set[str] = set()
		seen = set()
		work = [(cls, entry)]
		while work:
			c, name = work.pop()
			f = idx.lookup(c, name) if not name.startswith('__') or name.endswith('__') else c.method(name)
			if f is None or id(f) in seen:
				continue
			seen.add(id(f))
			owner = f.cls
			ef = effects_of(f, owner)
			for b, a, n in (ef.adds if kind == 'add' else ef.dels):
				out.add(a)
			for n in walk_no_nested(f.node):
				if isinstance(n, ast.Call) and isinstance(n.func, ast.Attribute):
					if isinstance(n.func.value, ast.Name) and n.func.value.id == 'self':
						nm = n.func.attr
						if nm.startswith('__') and not nm.endswith('__'):
							work.append((owner, nm))
						elif nm not in ('invoke', 'resolve', 'can_resolve') or kind == 'add' and nm in ('bind',):
							work.append((cls, nm))
					elif isinstance(n.func.value, ast.Call) and unparse(n.func.value.func) == 'super':
						mro = idx.mro(owner)
						if len(mro) > 1:
							work.append((mro[1], n.func.attr))
		return out

	for cls in (di, lazy):
		added = path_effects(cls, 'bind', 'add') | path_effects(cls, 'resolve', 'add')
		deleted = path_effects(cls, 'unbind', 'del')
		added -= {'_DI__invocations'}
		rb.check(added == deleted, f'{cls.name}:bind-vs-unbind', cls.where, f'{cls.name}: bind/resolve write {sorted(added)} but unbind deletes {sorted(deleted)}: a re-bound symbol would keep its old instance / registration')
	rebind = di.method('rebind')
	seq = [(n.lineno, n.func.attr) for n in walk_no_nested(rebind.node) if isinstance(n, ast.Call) and isinstance(n.func, ast.Attribute) and n.func.attr in ('bind', 'unbind')]
	rb.check([a for _, a in sorted(seq)] == ['unbind', 'bind'], 'rebind-order', rebind.where, f'rebind must unbind (when bound) and then bind: {sorted(seq)}')
	# ... and nothing but `is the symbol bound` decides whether the old binding (with its instance) is discarded: a shortcut on the injector
	# (`same factory -> keep`) keeps the instance of the previous generation, so a resolve after rebind hands out the old object
	inj_param = rebind.params()[2] if len(rebind.params()) > 2 else 'injector'
	for n in walk_no_nested(rebind.node):
		if isinstance(n, ast.Call) and isinstance(n.func, ast.Attribute) and n.func.attr in ('bind', 'unbind') and isinstance(n.func.value, ast.Name) and n.func.value.id == 'self':
			conds = [(unparse(a), p_) for a, p_ in atoms(rebind.node, n)]
			if n.func.attr == 'bind':
				rb.check(not conds, 'rebind-binds-unconditionally', (rebind.module.relpath, n.lineno), f'rebind registers the new injector only under {conds}', unparse(n))
			else:
				on_inj = [c_ for c_ in conds if inj_param in {x.id for x in ast.walk(ast.parse(c_[0], mode="eval")) if isinstance(x, ast.Name)}]
				rb.check(not on_inj, 'rebind-discards-when-bound', (rebind.module.relpath, n.lineno), f'whether rebind discards the old binding depends on the injector ({on_inj}), not only on the symbol being bound', unparse(n))
	early = [n for n in walk_no_nested(rebind.node) if isinstance(n, ast.Return)]
	rb.check(not early, 'rebind-has-no-shortcut', (rebind.module.relpath, early[0].lineno) if early else rebind.where, 'rebind returns early on some path: the symbol then keeps its previous binding generation — in particular the instance already created — although rebind promises a fresh registration (resolve after rebind(sym, same_factory) returns the old object; a LazyDI proxy registered under the same factory is never re-created)', unparse(early[0])[:80] if early else None)
	res = di.method('resolve')
	rx = X(res)
	creates = [n for n in nodes(rx, ast.Assign) if isinstance(n.targets[0], ast.Subscript) and unparse(n.targets[0].value) == 'self.__instances']
	if not creates:
		rb.skip('resolve-singleton', res.where, 'resolve no longer stores into self.__instances')
	for n in creates:
		k = unparse(n.targets[0].slice)
		rb.check((f'{k} in self.__instances', False) in facts(rx, n), 'resolve-singleton', res.where, f'resolve must create the instance only when absent (one instance per binding generation): `{unparse(n)}` runs under {facts(rx, n)}', unparse(n))
	lz_res = lazy.method('resolve')
	rb.check(lz_res is not None and has_call(X(lz_res), '__bind_proxy') and any(isinstance(c_.func, ast.Attribute) and c_.func.attr == 'resolve' and isinstance(c_.func.value, ast.Call) and unparse(c_.func.value.func) == 'super' for c_ in nodes(X(lz_res), ast.Call)), 'lazy-resolve-binds-proxy', lz_res.where if lz_res else lazy.where, 'LazyDI.resolve no longer binds the lazily registered definition before delegating')

	# ---- (b1) LazyDI keeps two layers: by-name definitions (own store) and the materialised bindings of DI --------------------
	# an operation on the definitions store is decided by a membership test of THAT store: testing the materialised layer instead (super().can_resolve)
	# treats a registration that has not been resolved yet as absent
	rl = rep.rule('C19/lazy-layer-tests', 'in LazyDI, removal of a by-name registration (unbind) is conditional only on membership in the definitions store; the proxy binding in resolve happens exactly when the symbol is defined by name and not yet materialised', floor=2)

	def layer(a: ast.AST) -> str:
		t = unparse(a)
		if isinstance(a, ast.Compare) and len(a.ops) == 1 and isinstance(a.ops[0], ast.In) and unparse(a.comparators[0]) == 'self.__definitions':
			return 'definitions'
		if 'super()' in t or any(f'self.{s_[4:]}' in t or s_ in t for s_ in ('_DI__injectors', '_DI__instances')):
			return 'materialised'
		return 'other'

	def known_at(f, body, chain, node):
		return [(a, pol, layer(a)) for a, pol in inline_predicates(f, atoms_via(body, chain, node), depth=3)]
	lz_unbind = lazy.method('unbind')
	if lz_unbind is None:
		rl.violate('unbind:removes-definition', lazy.where, 'LazyDI.unbind vanished: the inherited unbind leaves the by-name registration in place, so the symbol stays resolvable')
	else:
		sites = []
		for body, chain in inlined_bodies2(lz_unbind, 2, full=True):
			for n in nodes(body, (ast.Delete, ast.Call)):
				tg = n.targets[0] if isinstance(n, ast.Delete) else n.func.value if isinstance(n.func, ast.Attribute) and n.func.attr == 'pop' else None
				tg = tg.value if isinstance(tg, ast.Subscript) else tg
				if tg is not None and unparse(tg) == 'self.__definitions':
					sites.append((body, chain, n))
		if not sites:
			rl.skip('unbind:removes-definition', lz_unbind.where, 'no removal from self.__definitions is reachable from LazyDI.unbind')
		for body, chain, n in sites:
			kn = known_at(lz_unbind, body, chain, n)
			bad = [(unparse(a), pol) for a, pol, ly in kn if ly == 'materialised' or (ly == 'definitions' and not pol)]
			other = [(unparse(a), pol) for a, pol, ly in kn if ly == 'other']
			if bad:
				rl.violate('unbind:removes-definition', lz_unbind.where, f'LazyDI.unbind removes the by-name registration only under {bad}: a registration that was never resolved in this container has no materialised binding, so it survives unbind and the symbol is still resolvable afterwards', unparse(n))
			elif other:
				rl.skip('unbind:removes-definition', lz_unbind.where, f'removal of the registration depends on conditions this rule does not model: {other}')
			else:
				rl.ok('unbind:removes-definition', lz_unbind.where, message=f'`{unparse(n)}` under {[(unparse(a), pol) for a, pol, _ in kn]}')
	if lz_res is not None:
		for body, chain in inlined_bodies2(lz_res, 0, full=True):
			for n in calls(body, '__bind_proxy'):
				kn = known_at(lz_res, body, chain, n)
				has_def = any(ly == 'definitions' and pol for _, pol, ly in kn)
				has_mat = any(ly == 'materialised' and not pol and 'can_resolve' in unparse(a) for a, pol, ly in kn)
				wrong = [(unparse(a), pol) for a, pol, ly in kn if (ly == 'definitions' and not pol) or (ly == 'materialised' and pol)]
				other = [(unparse(a), pol) for a, pol, ly in kn if ly == 'other']
				if wrong or not has_def or not has_mat:
					rl.violate('resolve:proxy-when-defined-and-unbound', lz_res.where, f'LazyDI.resolve must materialise the by-name registration exactly when the symbol is in the definitions and not yet bound in DI (else the lookup raises KeyError instead of ValueError, or bind raises on every later resolve); it runs under {[(unparse(a), pol) for a, pol, _ in kn]}', unparse(n))
				elif other:
					rl.skip('resolve:proxy-when-defined-and-unbound', lz_res.where, f'conditions this rule does not model: {other}')
				else:
					rl.ok('resolve:proxy-when-defined-and-unbound', lz_res.where)

	# ---- (b2) store keys are normalised symbols ------------------------------------------------------------------------
	rk = rep.rule('C19/store-keys-normalised', 'every key used to index / test / delete the binding stores is the normalised symbol (result of _acceptable_symbol / __find_symbol for DI, __symbolize for LazyDI), never the raw argument', floor=10)
	norm_calls = {'DI': ('_acceptable_symbol', '__find_symbol'), 'LazyDI': ('__symbolize',)}
	for cls in (di, lazy):
		for name, defs in cls.methods.items():
			f = defs[-1]
			if name in ('__init__', '_clone', 'combine', 'instantiate'):
				continue
			normalised = set()
			for n in walk_no_nested(f.node):
				tgt = n.targets[0] if isinstance(n, ast.Assign) and len(n.targets) == 1 else n.target if isinstance(n, ast.AnnAssign) else None
				if isinstance(tgt, ast.Name) and isinstance(n.value, ast.Call) and isinstance(n.value.func, ast.Attribute) and n.value.func.attr in norm_calls[cls.name]:
					normalised.add(tgt.id)
			# private helpers of LazyDI receive the already symbolised path as `symbol_path`
			if cls is lazy and name.startswith('__') and 'symbol_path' in f.params():
				normalised.add('symbol_path')
			for n in walk_no_nested(f.node):
				key_expr, store = None, None
				if isinstance(n, ast.Subscript):
					a = n.value
					if isinstance(a, ast.Attribute) and isinstance(a.value, ast.Name) and a.value.id == 'self' and mangle(cls.name, a.attr) in binding_stores[cls.name]:
						key_expr, store = n.slice, a.attr
				elif isinstance(n, ast.Compare) and len(n.ops) == 1 and isinstance(n.ops[0], (ast.In, ast.NotIn)):
					a = n.comparators[0]
					if isinstance(a, ast.Attribute) and isinstance(a.value, ast.Name) and a.value.id == 'self' and mangle(cls.name, a.attr) in binding_stores[cls.name]:
						key_expr, store = n.left, a.attr
				elif isinstance(n, ast.Call) and isinstance(n.func, ast.Attribute) and n.func.attr in ('pop', 'get', 'setdefault') and n.args:
					a = n.func.value
					if isinstance(a, ast.Attribute) and isinstance(a.value, ast.Name) and a.value.id == 'self' and mangle(cls.name, a.attr) in binding_stores[cls.name]:
						key_expr, store = n.args[0], a.attr
				if key_expr is None:
					continue
				ok = (isinstance(key_expr, ast.Name) and key_expr.id in normalised) or (isinstance(key_expr, ast.Call) and isinstance(key_expr.func, ast.Attribute) and key_expr.func.attr in norm_calls[cls.name])
				rk.check(ok, f'{cls.name}.{name}:{store}[{unparse(key_expr)}]', (DI_PY, n.lineno), f'{cls.name}.{name} accesses {store} with key `{unparse(key_expr)}`, which is not the normalised symbol ({sorted(normalised)}): a generic alias such as Gen[A] then addresses a different entry than Gen, so unbind/rebind leaves the old instance behind', unparse(n)[:100])

	# the by-name keys (LazyDI's definition layer, DI's memo of factory annotations) are `to_fullyname(<symbol>)`: the name must identify the symbol within
	# its module. `__qualname__` does (it carries the enclosing classes / functions); `__name__` does not — `Cpp.Config` and `Py.Config`, or two static
	# factory methods `create` of different classes, get ONE key: the second factory is curried with the annotations of the first, unbind of one
	# removes the other
	lm = idx.mod('rogw/tranp/lang/module.py')
	tf = lm.func('to_fullyname')
	rep.consulted(lm.relpath)
	if tf is None:
		rk.skip('to_fullyname:qualified', (lm.relpath, 1), 'lang/module.py:to_fullyname vanished')
	else:
		tparam = tf.params()[0]
		used = {n.attr for n in ast.walk(tf.node) if isinstance(n, ast.Attribute) and isinstance(n.value, ast.Name) and n.value.id == tparam}
		if '__qualname__' in used:
			rk.ok('to_fullyname:qualified', tf.where)
		elif '__name__' in used:
			rk.violate('to_fullyname:qualified', tf.where, f'to_fullyname builds the key from `{tparam}.__name__`: nested classes and static / local factories that share a simple name within one module collide on the key (`Cpp.Config` / `Py.Config`, two `create` factories): invoke curries one factory with the annotations recorded for the other, LazyDI.can_resolve answers for the wrong symbol, unbind of one removes the other', unparse(tf.node)[-80:])
		else:
			rk.skip('to_fullyname:qualified', tf.where, f'to_fullyname reads {sorted(used)} of the symbol: not classified')
	# ---- (c) error types, curry prefix ----------------------------------------------------------------------------------
	rc = rep.rule('C19/error-types-and-curry', 'public API raises ValueError (TypeError only in combine); invoke curries the maximal resolvable prefix and passes *remain_args after it', floor=6)
	for cls in (di, lazy):
		for name, defs in cls.methods.items():
			f = defs[-1]
			for n in walk_no_nested(f.node):
				if isinstance(n, ast.Raise):
					rn = raised_name(n)
					want = 'TypeError' if name == 'combine' else 'ValueError'
					rc.check(rn == want, f'{cls.name}.{name}:raise {rn}', (DI_PY, n.lineno), f'{cls.name}.{name} raises {rn}; the container contract is {want}', unparse(n)[:120])
	vx = X(inv)
	appends = []
	# the currying loop may live in a private helper of the class that invoke calls and whose result it spreads (`curried = self.__curry_args(annos)`)
	curry_members = [(inv, vx, None)]
	for cl in nodes(vx, ast.Call):
		if isinstance(cl.func, ast.Attribute) and isinstance(cl.func.value, ast.Name) and cl.func.value.id == 'self' and cl.func.attr not in ('resolve', 'can_resolve', 'invoke'):
			g_ = di.method(cl.func.attr)
			if g_ is not None and g_ is not inv:
				curry_members.append((g_, X(g_), cl))
	helper_result: dict[str, str] = {}  # list built in a helper -> the local of invoke that receives it
	for g_, gx_, site in curry_members:
		for lp in nodes(gx_, ast.For):
			if not isinstance(lp.target, ast.Name):
				continue
			for cl in nodes(lp, ast.Call):
				if isinstance(cl.func, ast.Attribute) and cl.func.attr == 'append' and cl.args and isinstance(cl.args[0], ast.Call) and unparse(cl.args[0].func) == 'self.resolve' and unparse(cl.args[0].args[0]) == lp.target.id:
					if site is not None:
						built = unparse(cl.func.value)
						returned = [unparse(r_.value) for r_ in nodes(gx_, ast.Return) if r_.value is not None]
						recv = [unparse(a.targets[0]) for a in nodes(vx, ast.Assign) if a.value is site and len(a.targets) == 1]
						if returned != [built] or len(recv) != 1:
							continue
						helper_result[built] = recv[0]
					appends.append((lp, cl, gx_))
	# the same collection written as a comprehension: a filter (`if can_resolve`) keeps resolvable parameters *after* an unresolvable one, which is not a prefix
	comps = []
	for cp in nodes(FI(inv), (ast.ListComp, ast.GeneratorExp)):
		g0 = cp.generators[0]
		if isinstance(g0.target, ast.Name) and isinstance(cp.elt, ast.Call) and unparse(cp.elt.func) == 'self.resolve' and cp.elt.args and unparse(cp.elt.args[0]) == g0.target.id:
			comps.append(cp)
	for cp in comps:
		g0 = cp.generators[0]
		takewhile = isinstance(g0.iter, ast.Call) and unparse(g0.iter.func).endswith('takewhile') and 'can_resolve' in unparse(g0.iter) and not g0.ifs and len(cp.generators) == 1
		rc.check(takewhile, 'invoke-curry-prefix', inv.where, f'invoke must curry exactly the leading run of resolvable parameters; `{unparse(cp)[:140]}` filters instead of stopping at the first parameter that is not resolvable, so a resolvable parameter after an unresolvable one is curried too and the remaining arguments shift', unparse(cp)[:160])
	if not appends and not comps:
		rc.skip('invoke-curry-prefix', inv.where, 'invoke no longer collects self.resolve(<annotation>) over the parameter annotations in a loop or comprehension')
	curried = None
	for lp, cl, gx_ in appends:
		v = lp.target.id
		curried = unparse(cl.func.value)
		curried = helper_result.get(curried, curried) if gx_ is not vx else curried
		fs = facts(gx_, cl)
		stops = [n for n in nodes(lp, (ast.Break, ast.Return)) if (f'self.can_resolve({v})', False) in facts(gx_, n)]
		skips = [n for n in nodes(lp, ast.Continue) if (f'self.can_resolve({v})', False) in facts(gx_, n)]
		rc.check((f'self.can_resolve({v})', True) in fs and bool(stops) and not skips, 'invoke-curry-prefix', inv.where, f'invoke must stop currying at the first parameter whose annotation is not resolvable (break) and append resolved instances in order (append under {fs}; stops: {len(stops)}, skips: {len(skips)})', unparse(lp)[:200])
		it = deref(gx_, lp.iter)
		rc.check(not (isinstance(it, ast.Call) and unparse(it.func) in ('reversed', 'sorted', 'set')), 'invoke-curry-order', inv.where, f'the annotations must be walked in parameter order: iterates `{unparse(it)}`')
	ret = [n for n in nodes(vx, ast.Return) if n.value is not None]
	vararg = inv.node.args.vararg.arg if inv.node.args.vararg else None
	shape_ok = len(ret) == 1 and isinstance(ret[0].value, ast.Call) and unparse(ret[0].value.func) == fparam and not ret[0].value.keywords and [unparse(a) for a in ret[0].value.args] == [f'*{curried}', f'*{vararg}']
	if curried is None or vararg is None:
		rc.skip('invoke-argument-order', inv.where, 'invoke no longer has curried arguments and *remain_args')
	else:
		rc.check(shape_ok, 'invoke-argument-order', inv.where, f'invoke must call {fparam}(*{curried}, *{vararg}); returns {[unparse(r_.value) for r_ in ret]}')
	# mismatched invoke arguments raise ValueError: the validation itself must not fail with another exception first. A list indexed with the position of an
	# element of ANOTHER sequence (expect_types[index] while enumerating *remain_args) raises IndexError when that sequence is longer
	ai = di.method('__assert_invoke')
	if ai is None:
		rc.skip('assert-invoke:bounded-index', di.where, 'DI.__assert_invoke vanished')
	else:
		ax = X(ai)
		enum_idx: dict[str, str] = {}
		for g in nodes(ax, (ast.For, ast.comprehension)):
			it = g.iter
			if isinstance(it, ast.Call) and unparse(it.func) == 'enumerate' and it.args and isinstance(g.target, ast.Tuple) and isinstance(g.target.elts[0], ast.Name):
				enum_idx[g.target.elts[0].id] = unparse(it.args[0])
		bad = []
		for n in nodes(ax, ast.Subscript):
			if isinstance(n.slice, ast.Name) and n.slice.id in enum_idx and unparse(n.value) != enum_idx[n.slice.id] and isinstance(n.ctx, ast.Load):
				guarded = any(p_ and unparse(a) in (f'{n.slice.id} < len({unparse(n.value)})', f'len({unparse(n.value)}) > {n.slice.id}') for a, p_ in atoms(ax, n))
				if not guarded:
					bad.append(n)
		lens = [unparse(c_) for c_ in nodes(ax, ast.Compare) if 'len(' in unparse(c_)]
		vararg_ = ai.node.args.vararg.arg if ai.node.args.vararg else 'remain_args'
		rc.check(not bad, 'assert-invoke:bounded-index', ai.where, f'__assert_invoke reads `{unparse(bad[0]) if bad else ""}` with the position of an element of another sequence and no bound: more arguments than unresolved parameters raise IndexError instead of the documented ValueError', unparse(bad[0]) if bad else '')
		# the number of remaining arguments must be compared with the number of EXPECTED parameters (the list cut from the annotations), directly or through
		# a chain of length comparisons; a list built by zip(arguments, expected) is as long as the shorter of the two and proves nothing about the longer
		expected_names = {t.id for st in nodes(ax, ast.Assign) for t in st.targets if isinstance(t, ast.Name) and any(isinstance(x, ast.Name) and x.id in ai.params() and x.id not in (vararg_, 'self') for x in ast.walk(st.value)) and 'zip' not in unparse(st.value)}
		grew = True
		while grew:
			grew = False
			for st in nodes(ax, ast.Assign):
				for t in st.targets:
					if isinstance(t, ast.Name) and t.id not in expected_names and 'zip' not in unparse(st.value) and isinstance(st.value, (ast.ListComp, ast.Call, ast.Name, ast.Subscript)) and {x.id for x in ast.walk(st.value) if isinstance(x, ast.Name)} & expected_names and vararg_ not in {x.id for x in ast.walk(st.value) if isinstance(x, ast.Name)}:
						expected_names.add(t.id)
						grew = True
		edges: list[tuple[str, str]] = []
		for c_ in nodes(ax, ast.Compare):
			if len(c_.ops) == 1 and isinstance(c_.ops[0], (ast.Eq, ast.NotEq)):
				l_, r_ = c_.left, c_.comparators[0]
				if all(isinstance(x, ast.Call) and unparse(x.func) == 'len' and x.args for x in (l_, r_)):
					edges.append((unparse(l_.args[0]), unparse(r_.args[0])))
		reach = {vararg_}
		changed = True
		while changed:
			changed = False
			for a_, b_ in edges:
				if a_ in reach and b_ not in reach:
					reach.add(b_); changed = True
				elif b_ in reach and a_ not in reach:
					reach.add(a_); changed = True
		zipped = {t.id for st in nodes(ax, ast.Assign) for t in st.targets if isinstance(t, ast.Name) and 'zip(' in unparse(st.value)}
		through_zip_only = not (reach & expected_names) or all(n_ in zipped or n_ == vararg_ for n_ in reach - expected_names if n_ != vararg_) and not any((a_ in expected_names and b_ == vararg_) or (b_ in expected_names and a_ == vararg_) or (a_ in expected_names and b_ not in zipped) or (b_ in expected_names and a_ not in zipped) for a_, b_ in edges)
		if expected_names and edges:
			direct = any({a_, b_} == {vararg_, e_} for a_, b_ in edges for e_ in expected_names)
			via_full = any((a_ in expected_names and b_ in reach and b_ not in zipped) or (b_ in expected_names and a_ in reach and a_ not in zipped) for a_, b_ in edges)
			rc.check(direct or via_full, 'assert-invoke:count-vs-expected', ai.where, f'__assert_invoke compares lengths {edges} but never the number of remaining arguments (len({vararg_})) with the number of expected parameters ({sorted(expected_names)}) except through a zip()-built list, which is as long as the SHORTER of the two: a call with too few arguments passes the check and fails later with TypeError (or silently uses a default) instead of ValueError')
		rc.check(any(f'len({vararg_})' in l for l in lens), 'assert-invoke:compares-argument-count', ai.where, f'__assert_invoke never compares the number of remaining arguments (len({vararg_})) with the number of unresolved parameters (length tests: {lens}): surplus arguments are not reported as ValueError')

	# ---- (c2) combine: the right operand's BINDINGS win, not only its instances --------------------------------------------------
	# The container keeps two layers per symbol (factory, created instance) — LazyDI a third (by-name definition). Merging each layer on its own lets a
	# layer the right operand has not filled yet lose against the left operand's: left resolved A (instance), right rebinds A (no instance yet) ->
	# the merged container still hands out the left instance. So the left instances must be filtered by the right operand's factories, and the left
	# materialised bindings by the right operand's definitions.
	rw = rep.rule('C19/combine-right-bindings-win', 'DI.combine drops the left operand\'s instance of every symbol the right operand has a factory for; LazyDI.combine drops the left operand\'s materialised binding of every symbol the right operand defines by name', floor=2)

	def membership_tests(f, store: str) -> list[ast.Compare]:
		return [n for n in ast.walk(f.node) if isinstance(n, ast.Compare) and len(n.ops) == 1 and isinstance(n.ops[0], (ast.In, ast.NotIn)) and unparse(deref(f.node, n.comparators[0]) if isinstance(n.comparators[0], ast.Name) else n.comparators[0]) == f'other.{store}']

	dc = di.method('combine')
	tests = membership_tests(dc, '__injectors')
	inst_writes = [n for n in ast.walk(dc.node) if isinstance(n, ast.Assign) and any(unparse(t).endswith('.__instances') for t in n.targets)]
	def drops(n: ast.AST, store: str) -> bool:
		return any((isinstance(x, ast.Delete) and store in unparse(x)) or (isinstance(x, ast.Call) and isinstance(x.func, ast.Attribute) and x.func.attr in ('pop', 'unbind') and (store in unparse(x.func.value) or x.func.attr == 'unbind')) for x in ast.walk(n))

	def loops_over(f, store: str) -> list[ast.For]:
		return [n for n in ast.walk(f.node) if isinstance(n, ast.For) and unparse(n.iter) in (f'other.{store}', f'other.{store}.keys()', f'list(other.{store})', f'list(other.{store}.keys())', f'other.{store}.items()')]

	# a local that feeds the write (`kept = {... if symbol not in other.__injectors}` ... `x.__instances = kept | other.__instances`) is part of it
	fed = {n_.id for w in inst_writes for n_ in ast.walk(w.value) if isinstance(n_, ast.Name)}
	inst_writes = inst_writes + [a for a in ast.walk(dc.node) if isinstance(a, (ast.Assign, ast.AnnAssign)) and a.value is not None and any(isinstance(t, ast.Name) and t.id in fed for t in (a.targets if isinstance(a, ast.Assign) else [a.target]))]
	filtered = any(any(t_ is c_ for c_ in ast.walk(w)) for w in inst_writes for t_ in tests) \
		or any(isinstance(n, (ast.If, ast.For)) and any(t_ is c_ for c_ in ast.walk(n)) and drops(n, '__instances') for n in ast.walk(dc.node) for t_ in tests) \
		or any(drops(n, '__instances') for n in loops_over(dc, '__injectors'))
	rw.check(filtered, 'DI.combine:instances-filtered-by-right-factories', dc.where, 'DI.combine merges __instances and __injectors independently: for a symbol the LEFT operand has already resolved and the RIGHT operand binds to another factory (not resolved yet) the merged container has the right factory but the left instance, and resolve() returns the instance — the right operand\'s binding does not win (l.bind(A, A); l.resolve(A); r.bind(A, B); l.combine(r).resolve(A) is an A)')
	lc = lazy.method('combine')
	if lc is None:
		rw.skip('LazyDI.combine', lazy.where, 'LazyDI.combine vanished (reported by C19/clone-owns-storage)')
	else:
		tests = membership_tests(lc, '__definitions')
		removes = [n for n in ast.walk(lc.node) if isinstance(n, (ast.If, ast.For, ast.ListComp, ast.DictComp)) and any(t_ is c_ for t_ in tests for c_ in ast.walk(n)) and drops(n, '__in')] + [n for n in loops_over(lc, '__definitions') if drops(n, '__in')]
		# ... but NOT where the right operand has materialised the symbol itself: DI.combine has just copied the right operand's factory and instance
		# for it, and removing those makes the combined container re-create the symbol from the (possibly stale) by-name definition — another
		# instance than the right operand's, or another factory when the right operand re-bound the symbol directly
		if removes:
			from vlib.match import path_conditions as _pc
			guarded_ = False
			for rm_ in removes:
				calls_rm = [x for x in ast.walk(rm_) if (isinstance(x, ast.Call) and isinstance(x.func, ast.Attribute) and x.func.attr in ('unbind', 'pop')) or isinstance(x, ast.Delete)]
				for x in calls_rm:
					def _expanded(e_: ast.AST) -> str:
						# locals stand for their values (`other_symbols = other._binded_symbols()`, `redefined_by_name = ... in other.__definitions`)
						out_ = unparse(e_)
						for nm_ in [y for y in ast.walk(e_) if isinstance(y, ast.Name)]:
							d_ = deref(lc.node, nm_)
							if d_ is not nm_:
								out_ += ' ' + unparse(d_)
						return out_
					conds_ = [_expanded(c_) for c_, _p in _pc(lc.node, x)] + [_expanded(i_) for g_ in getattr(rm_, 'generators', []) for i_ in g_.ifs]
					if any('other.' in c_.replace('other.__definitions', '') or '_binded_symbols' in c_ for c_ in conds_):
						guarded_ = True
			rw.check(guarded_, 'LazyDI.combine:right-materialised-kept', lc.where, 'LazyDI.combine removes the materialised binding of every symbol the right operand defines by name, also where the right operand has MATERIALISED the symbol itself: DI.combine has just copied the right operand\'s factory and instance for it, and removing them makes the combined container build a new instance from the by-name definition — `combined.resolve(S) is right.resolve(S)` is False, and a direct re-binding of S in the right operand is lost')
		rw.check(bool(removes), 'LazyDI.combine:materialised-filtered-by-right-definitions', lc.where, 'LazyDI.combine merges the by-name definitions but keeps every binding the left operand has already materialised: resolve() consults the by-name layer only when the materialised layer has no entry, so a symbol the right operand defines by name still resolves to the left operand\'s factory and instance')

	# ---- (d) wiring ------------------------------------------------------------------------------------------------------------
	rd = rep.rule('C19/per-module-container', 'the per-module DI is the shared container combined with a fresh LazyDI built from the module dependency definitions', floor=1)
	ep = idx.mod('rogw/tranp/providers/syntax/entrypoints.py')
	rep.consulted(ep.relpath)
	combines = [n for n in ast.walk(ep.tree) if isinstance(n, ast.Call) and isinstance(n.func, ast.Attribute) and n.func.attr == 'combine']
	lazies = [n for n in ast.walk(ep.tree) if isinstance(n, ast.Call) and unparse(n.func) == 'LazyDI.instantiate']
	rd.check(bool(combines) and bool(lazies), 'entrypoints-combine', (ep.relpath, 1), 'providers/syntax/entrypoints.py no longer builds the per-module container with shared.combine(LazyDI.instantiate(...))')
