"""C13 — tokenizer agrees with Python and ignores layout: table clauses only (symbol/enum offsets, bracket sets,
combined-symbol lengths, domain dispatch order), for the default and the grammar tokenizer definitions."""
from __future__ import annotations

import ast
import token as pytoken

import os

from vlib.core import REPO, AnalysisError, Report
from vlib.guards import always_exits
from vlib.match import FI, X, atoms, conjuncts, expand_use, has_call, nodes, path_conditions
from vlib.srcindex import SourceIndex, attr_chain, const_str, unparse, walk_no_nested

EXPLANATION = (
	'Lexer.parse_symbol computes TokenTypes((Symbol.value << 4) + index_in(definition.symbol)) and TokenTypes(BeginCombine.value + index_in(combined_symbols)). Decided, by reading token.py / tokenizer.py / gram_tokenizer.py with ast: '
	'every index of both tables maps to a defined enum member whose name denotes the character(s) at that offset (frozen name<->spelling table), the two ranges do not overlap and both fall in the Symbol domain under Token.domain\'s arithmetic; '
	'the members Tokenizer.handle_symbol treats as openers/closers are exactly ({[ / )}]; the member compared in the unary-minus rule sits at the offset of "-"; every combined symbol has a length parse_symbol tries (longest first) and consists of symbol characters; '
	'domain dispatch order: no comment/quote opener starts with a character an earlier character-set domain consumes, and no earlier opener of the same list is a proper prefix of a later one. '
	'The grammar tokenizer (which deletes "/" from symbol, shifting later offsets) is re-checked under the obligations that still matter there. '
	'Equality with CPython\'s tokenize output, source-map arithmetic, the post-filter state machine, indent/dedent balance and layout metamorphisms are not decided.'
)
ASSUMPTIONS = ['enum member names denote characters as in the frozen table (At=@, Sharp=#, ...)', 'the grammar engine matches terminals by token.string, verified by reading SyntaxParser._compare_token']
TRUSTED_BASE = ['CPython ast', 'frozen member-name <-> spelling table (49 rows)', 'token.EXACT_TOKEN_TYPES (informational)']

TOKEN_PY = 'rogw/tranp/implements/syntax/tranp/token.py'
TOKENIZER_PY = 'rogw/tranp/implements/syntax/tranp/tokenizer.py'
SYNTAX_PY = 'rogw/tranp/implements/syntax/tranp/syntax.py'
GRAM_TOKENIZER = 'data/syntax/gram_tokenizer.py'

SPELLING = {
	'At': '@', 'Sharp': '#', 'Dollar': '$', 'Dot': '.', 'Comma': ',', 'Colon': ':', 'SemiColon': ';', 'ParenL': '(', 'ParenR': ')', 'BraceL': '{', 'BraceR': '}', 'BracketL': '[', 'BracketR': ']',
	'BackQuote': '`', 'Equal': '=', 'Minus': '-', 'Plus': '+', 'Aster': '*', 'Slash': '/', 'Percent': '%', 'And': '&', 'Or': '|', 'Hat': '^', 'Tilde': '~', 'Exclamation': '!', 'Question': '?', 'Less': '<', 'Greater': '>',
	'MinusEqual': '-=', 'PlusEqual': '+=', 'AsterEqual': '*=', 'SlashEqual': '/=', 'PercentEqual': '%=', 'AndEqual': '&=', 'OrEqual': '|=', 'HatEqual': '^=', 'TildeEqual': '~=', 'DoubleEqual': '==', 'NotEqual': '!=',
	'LessEqual': '<=', 'GreaterEqual': '>=', 'DoubleAnd': '&&', 'DoubleOr': '||', 'ShiftL': '<<', 'ShiftR': '>>', 'Arrow': '->', 'DoubleAster': '**', 'WalrusEqual': ':=', 'Ellipsis': '...',
}


class Defn:
	"""statically evaluated TokenDefinition"""
	def __init__(self) -> None:
		self.fields: dict[str, object] = {}


def _eval(e: ast.AST, env: dict, defn: Defn):
	if isinstance(e, ast.Constant):
		return e.value
	if isinstance(e, ast.Name):
		if e.id in env:
			return env[e.id]
		raise ValueError(f'unknown name {e.id}')
	if isinstance(e, (ast.List, ast.Tuple)):
		return [_eval(x, env, defn) for x in e.elts]
	if isinstance(e, ast.JoinedStr):
		return ''.join(str(_eval(v.value, env, defn)) if isinstance(v, ast.FormattedValue) else v.value for v in e.values)
	if isinstance(e, ast.Attribute):
		ch = attr_chain(e)
		if ch and ch.split('.')[0] in ('self', 'definition') and len(ch.split('.')) == 2:
			return defn.fields[ch.split('.')[1]]
		if ch and ch.startswith(('TokenDomains.', 'TokenTypes.')):
			return ch
		raise ValueError(f'unsupported attribute {ch}')
	if isinstance(e, ast.ListComp):
		out = []
		def rec(i, env2):
			if i == len(e.generators):
				out.append(_eval(e.elt, env2, defn))
				return
			g = e.generators[i]
			for v in _eval(g.iter, env2, defn):
				if not isinstance(g.target, ast.Name):
					raise ValueError('unsupported comprehension target')
				e3 = dict(env2)
				e3[g.target.id] = v
				if all(_eval(c, e3, defn) for c in g.ifs):
					rec(i + 1, e3)
		rec(0, env)
		return out
	if isinstance(e, ast.Call):
		fn = attr_chain(e.func)
		if fn and fn.endswith('build_quote_pair') and len(e.args) == 2:
			return {'open': _eval(e.args[0], env, defn), 'close': _eval(e.args[1], env, defn)}
		if isinstance(e.func, ast.Attribute) and e.func.attr == 'join' and len(e.args) == 1:
			return _eval(e.func.value, env, defn).join(_eval(e.args[0], env, defn))
		if isinstance(e.func, ast.Attribute) and e.func.attr == 'split' and len(e.args) == 1:
			return _eval(e.func.value, env, defn).split(_eval(e.args[0], env, defn))
		if isinstance(e.func, ast.Attribute) and e.func.attr == 'replace' and len(e.args) == 2:
			return _eval(e.func.value, env, defn).replace(_eval(e.args[0], env, defn), _eval(e.args[1], env, defn))
		raise ValueError(f'unsupported call {unparse(e)[:60]}')
	if isinstance(e, ast.BinOp) and isinstance(e.op, ast.Add):
		return _eval(e.left, env, defn) + _eval(e.right, env, defn)
	raise ValueError(f'unsupported expression {type(e).__name__}')


def default_definition(idx: SourceIndex) -> Defn:
	m = idx.mod(TOKEN_PY)
	init = m.func('TokenDefinition.__init__')
	d = Defn()
	class_consts = {k: const_str(v) for k, v in m.cls('TokenDefinition').class_attrs.items()}
	env: dict = {}
	for n in init.node.body:
		tgt = n.targets[0] if isinstance(n, ast.Assign) and len(n.targets) == 1 else n.target if isinstance(n, ast.AnnAssign) and n.value is not None else None
		if isinstance(tgt, ast.Name):
			# a local of the table constructor: constant-folded like the fields
			try:
				env[tgt.id] = _eval(n.value, env, d)
			except (ValueError, KeyError):
				pass
			continue
		if isinstance(tgt, ast.Attribute) and isinstance(tgt.value, ast.Name) and tgt.value.id == 'self':
			name = tgt.attr
			try:
				d.fields[name] = _eval(n.value, env, d)
			except (ValueError, KeyError) as e:
				if name in ('symbol', 'combined_symbols', 'analyze_order', 'quote', 'comment', 'white_space', 'number', 'identifier'):
					raise AnalysisError(f'TokenDefinition.{name} is not statically evaluable: {e}')
	return d


def grammar_definition(idx: SourceIndex, base: Defn) -> Defn:
	m = idx.mod(GRAM_TOKENIZER)
	f = m.func('gram_tokenizer')
	d = Defn()
	d.fields = dict(base.fields)
	env: dict = {}
	for n in f.node.body:
		tgt = n.targets[0] if isinstance(n, ast.Assign) and len(n.targets) == 1 else n.target if isinstance(n, ast.AnnAssign) and n.value is not None else None
		if isinstance(tgt, ast.Name):
			try:
				env[tgt.id] = _eval(n.value, env, d)
			except (ValueError, KeyError):
				pass
			continue
		if isinstance(tgt, ast.Attribute) and isinstance(tgt.value, ast.Name) and tgt.value.id == 'definition':
			try:
				d.fields[tgt.attr] = _eval(n.value, env, d)
			except (ValueError, KeyError) as e:
				raise AnalysisError(f'gram_tokenizer: definition.{tgt.attr} is not statically evaluable: {e}')
	return d


def rule_bracket_layout(rep: Report, tz) -> None:
	"""layout inside brackets is insignificant: while context.enclosure > 0 the white-space handler must neither emit tokens nor touch the
	indentation state (Context.nest, the indent unit fixed by Context.to_nest)"""
	r = rep.rule('C13/bracket-layout-insignificant', 'in Tokenizer.handle_white_space every write of the indentation state (context.nest, Context.to_nest which fixes the indent unit) and every emitted token is dominated by the `context.enclosure > 0 -> return nothing` guard', floor=4)
	f = tz.func('Tokenizer.handle_white_space')
	ctx = tz.cls('Tokenizer.Context')
	mutating = set()
	for name, defs in ctx.methods.items():
		if name == '__init__':
			continue
		for n in ast.walk(defs[-1].node):
			if isinstance(n, (ast.Assign, ast.AugAssign)):
				for t in (n.targets if isinstance(n, ast.Assign) else [n.target]):
					if isinstance(t, ast.Attribute) and isinstance(t.value, ast.Name) and t.value.id == 'self':
						mutating.add(name)
	if 'to_nest' not in mutating:
		r.note(f'Context methods that write state: {sorted(mutating)}')

	fx = X(f)
	cparam = f.params()[1] if len(f.params()) > 1 else 'context'

	def outside_brackets(node: ast.AST) -> bool:
		"""`<context>.enclosure > 0` is known to be false at node"""
		for a, p_ in atoms(fx, node):
			if isinstance(a, ast.Compare) and len(a.ops) == 1 and unparse(a.left) == f'{cparam}.enclosure' and unparse(a.comparators[0]) == '0':
				if (isinstance(a.ops[0], ast.Gt) and not p_) or (isinstance(a.ops[0], (ast.Eq, ast.LtE)) and p_):
					return True
		return False

	found = []
	for n in ast.walk(fx):
		hit = False
		if isinstance(n, (ast.Assign, ast.AugAssign)):
			for t in (n.targets if isinstance(n, ast.Assign) else [n.target]):
				if isinstance(t, ast.Attribute) and isinstance(t.value, ast.Name) and t.value.id == cparam:
					hit = True
		if isinstance(n, ast.Call) and isinstance(n.func, ast.Attribute) and isinstance(n.func.value, ast.Name) and n.func.value.id == cparam and n.func.attr in mutating:
			hit = True
		if isinstance(n, ast.Return) and isinstance(n.value, ast.Tuple) and len(n.value.elts) == 2 and not (isinstance(n.value.elts[1], ast.List) and not n.value.elts[1].elts):
			hit = True  # emits tokens
		if hit:
			found.append((n, outside_brackets(n)))
	if len(found) < 4:
		raise AnalysisError(f'C13: only {len(found)} indentation-state effects found in handle_white_space')
	for e, ok in found:
		key = f'handle_white_space:{unparse(e)[:70]}'
		r.check(ok, key, (TOKENIZER_PY, e.lineno), f'`{unparse(e)[:90]}` can execute while context.enclosure > 0: a line break inside brackets would then change the indentation state or emit layout tokens (layout inside brackets must be insignificant)', unparse(e)[:100])


def rule_indent_state(rep: Report, tz, tk) -> None:
	"""after a line break outside brackets the nesting state equals the indentation level of the NEW line: the width handed to Context.to_nest is the
	number of characters after the LAST line break of the token text, `nest` is set to the level to_nest returns (not stepped by a constant), and the
	number of DEDENT tokens is the difference of the two levels."""
	r = rep.rule('C13/indent-state-follows-last-line', 'handle_white_space measures the indent as the text after the last "\\n" of the line-break token, assigns context.nest the level Context.to_nest returns, and emits (old level - new level) DEDENTs', floor=4)
	f = tz.func('Tokenizer.handle_white_space')
	fx = FI(f)
	cparam = f.params()[1] if len(f.params()) > 1 else 'context'
	tok_cls = tk.cls('Token')

	def through_property(e: ast.AST, depth: int = 0) -> ast.AST:
		"""`token.<prop>` where <prop> is a property of Token stands for the property's (single) return expression"""
		if depth < 3 and isinstance(e, ast.Attribute) and tok_cls.method(e.attr) is not None and e.attr not in ('string', 'type'):
			g = tok_cls.method(e.attr)
			rets = [n.value for n in nodes(FI(g), ast.Return) if n.value is not None]
			if len(rets) == 1:
				return through_property(rets[0], depth + 1)
		return e

	nests = [c_ for c_ in nodes(fx, ast.Call) if unparse(c_.func) == f'{cparam}.to_nest' and len(c_.args) == 1]
	if not nests:
		r.skip('indent-width', f.where, 'handle_white_space no longer calls Context.to_nest(<indent width>)')
	for c_ in nests:
		w = through_property(c_.args[0])
		src = unparse(w)
		last_line_forms = (".split('\\n')[-1])", ".rsplit('\\n', 1)[-1])", ".rpartition('\\n')[2])", ".rpartition('\\n')[-1])")
		if isinstance(w, ast.Call) and unparse(w.func) == 'len' and src.endswith(last_line_forms):
			r.ok('indent-width', (TOKENIZER_PY, c_.lineno))
		elif 'splitlines' in src or '.split()' in src or 'strip(' in src or "split('\\n')[0]" in src or "find('\\n')" in src.replace('rfind', ''):
			r.violate('indent-width', (TOKENIZER_PY, c_.lineno), f'the indent width is computed as `{src}`, which is not the length of the text after the last line break of the token: splitlines() drops a trailing empty line (a token ending in "\\n" then reports the previous line\'s trailing blanks, so trailing spaces or a blank line before a dedent change INDENT/DEDENT), strip()/split() discard the very blanks that are counted', src)
		else:
			r.skip('indent-width', (TOKENIZER_PY, c_.lineno), f'indent width expression `{src}` is not one of the recognised last-line forms')
	# writes of the nesting state after a line break (the EOF branch resets to 0)
	level = {unparse(c_) for c_ in nests}
	for n in nodes(fx, (ast.Assign, ast.AugAssign)):
		tgt = n.targets[0] if isinstance(n, ast.Assign) else n.target
		if unparse(tgt) != f'{cparam}.nest':
			continue
		if isinstance(n, ast.AugAssign):
			r.violate(f'nest-write:{unparse(n)}', (TOKENIZER_PY, n.lineno), f'`{unparse(n)}` steps the nesting level by a constant, but one line break can close several blocks at once (dedent by two or more levels): the level must be assigned the value Context.to_nest returns for the new line, or later lines are attached to the wrong block', unparse(n))
			continue
		v = unparse(n.value)
		r.check(v in level or v == '0', f'nest-write:{unparse(n)[:60]}', (TOKENIZER_PY, n.lineno), f'context.nest is assigned `{v}`; after a line break it must equal the level of the new line ({sorted(level)}), or 0 at EOF', unparse(n))
	# DEDENT multiplicity: [token.to_dedent()] * K
	for n in nodes(fx, ast.BinOp):
		if isinstance(n.op, ast.Mult) and has_call(n.left, 'to_dedent'):
			k = unparse(n.right)
			ok = k == f'{cparam}.nest' or any(k in (f'{cparam}.nest - {lv}', f'({cparam}.nest - {lv})') for lv in level)
			r.check(ok, f'dedent-count:{k[:50]}', (TOKENIZER_PY, n.lineno), f'DEDENT tokens are emitted `{k}` times; closing blocks needs (current level - level of the new line) of them (all open levels at EOF)', unparse(n))
	# INDENT multiplicity: one INDENT opens one level, so a line break that raises the level by k must emit k of them (or the level model must make k == 1)
	for n in nodes(fx, ast.Return):
		if n.value is None or not has_call(n.value, 'to_indent'):
			continue
		multiplied = any(isinstance(x, ast.BinOp) and isinstance(x.op, ast.Mult) and has_call(x.left, 'to_indent') for x in ast.walk(n.value))
		stack_model = any(isinstance(x, ast.Call) and isinstance(x.func, ast.Attribute) and x.func.attr in ('append', 'push') and 'indent' in unparse(x).lower() for x in ast.walk(fx))
		r.check(multiplied or stack_model, 'indent-count', (TOKENIZER_PY, n.lineno), 'a line break that raises the level emits exactly ONE INDENT while the level is assigned Context.to_nest(width) = width / first indent unit, which can jump by more than one (2 columns, then 6): the matching dedent emits (old - new) DEDENTs, so `if a:\\n  b\\n  if c:\\n      d\\n  e\\nf` gets 2 INDENT but 3 DEDENT (CPython: 2 and 2); levels need the indentation stack CPython uses, or one INDENT per level', unparse(n)[:100])
	dedent_lists = [n for n in nodes(fx, ast.BinOp) if isinstance(n.op, ast.Mult) and has_call(n.left, 'to_dedent')]
	if not dedent_lists:
		singles = [n for n in nodes(fx, ast.Return) if n.value is not None and has_call(n.value, 'to_dedent')]
		for n in singles:
			r.violate('dedent-count:1', (TOKENIZER_PY, n.lineno), 'a fixed number of DEDENT tokens is emitted per line break; a dedent by several levels needs one DEDENT per closed level', unparse(n)[:120])
		if not singles:
			r.skip('dedent-count', f.where, 'no DEDENT emission found in handle_white_space')


def rule_quote_escape(rep: Report, tz) -> None:
	"""CPython ends a string literal at the first closing quote that is preceded by an EVEN number of backslashes — for every prefix, raw strings
	included (r"\\"" is one token, '\\\\' ends at its second quote). The scan of Lexer.parse_quote must therefore (1) test the same constant backslash for
	every quote pair and (2) decide on the parity of the whole backslash run: a fixed look-back of one or two characters cannot tell an escaped quote
	(`\\\\\\'`) from a quote after an escaped backslash (`\\\\'`)."""
	from vlib.fold import enclosing_loop
	r = rep.rule('C13/quote-escape-independent-of-prefix', 'Lexer.parse_quote decides whether a closing quote is escaped by comparing the preceding characters with the constant backslash, for every quote pair (raw strings too), and ends the scan on the parity of the backslash run', floor=2)
	from vlib.norm import helper_closure
	entry = tz.func('Lexer.parse_quote')

	def _scans(g) -> bool:
		return any(isinstance(c_.func, ast.Attribute) and c_.func.attr in ('find', 'index') for lp in nodes(X(g), ast.While) for c_ in nodes(lp, ast.Call))
	# the scan may live in a helper of the same class (`end, closed = self.seek_close(source, pair, begin)`): it is judged where it is written
	f = next((g for g in helper_closure(entry) if _scans(g)), entry)
	fx = FI(f)
	src = next((unparse(c_.func.value) for lp in nodes(X(f), ast.While) for c_ in nodes(lp, ast.Call) if isinstance(c_.func, ast.Attribute) and c_.func.attr in ('find', 'index')), f.params()[1])
	cmps = [c_ for c_ in nodes(fx, ast.Compare) if len(c_.ops) == 1 and isinstance(c_.ops[0], (ast.Eq, ast.NotEq)) and isinstance(c_.left, ast.Subscript) and unparse(c_.left.value) == src]
	strips = [c_ for c_ in nodes(fx, ast.Call) if isinstance(c_.func, ast.Attribute) and c_.func.attr in ('rstrip', 'endswith') and c_.args and src in {n.id for n in ast.walk(c_.func.value) if isinstance(n, ast.Name)}]
	if not cmps and not strips:
		r.skip('escape-test', f.where, 'parse_quote no longer compares source[<prev>] with an escape character')
	for c_ in cmps + strips:
		rhs = c_.comparators[0] if isinstance(c_, ast.Compare) else c_.args[0]
		r.check(isinstance(rhs, ast.Constant) and rhs.value == '\\', f'escape-test:{unparse(c_)[:50]}', (TOKENIZER_PY, c_.lineno), f'parse_quote tests the character before a closing quote against `{unparse(rhs)[:80]}`: the escape character must be the backslash for every quote pair; making it depend on the opener (raw strings) ends r"\\"" at the escaped quote, and the rest of the line is lexed as a new string', unparse(c_))
	# (2) the decision that ends the scan
	x = X(f)
	scans = [lp for lp in nodes(x, ast.While) if any(isinstance(c_.func, ast.Attribute) and c_.func.attr in ('find', 'index') for c_ in nodes(lp, ast.Call))]
	if len(scans) != 1:
		r.skip('scan-ends-on-parity', f.where, 'parse_quote no longer scans for the closing quote in one while loop around source.find')
		return
	scan = scans[0]
	ends = [b for b in nodes(scan, (ast.Break, ast.Return)) if enclosing_loop(x, b) is scan or isinstance(b, ast.Return)]
	decided = False
	for b in ends:
		known = [(a, p_) for a, p_ in atoms(x, b) if not (isinstance(a, ast.Compare) and isinstance(a.comparators[0], ast.UnaryOp) and unparse(a.comparators[0]) == '-1')]
		known = [(a, p_) for a, p_ in known if unparse(a) != unparse(scan.test)]
		if not known:
			continue  # the `not found` exit
		parity = any(isinstance(n, ast.BinOp) and ((isinstance(n.op, ast.Mod) and unparse(n.right) == '2') or (isinstance(n.op, ast.BitAnd) and unparse(n.right) == '1')) for a, _ in known for n in ast.walk(a))
		window = all(all(isinstance(n, (ast.Compare, ast.BoolOp, ast.UnaryOp, ast.Subscript, ast.Name, ast.Constant, ast.BinOp, ast.operator, ast.boolop, ast.unaryop, ast.cmpop, ast.expr_context, ast.Call, ast.Attribute)) for n in ast.walk(a)) and any(isinstance(n, ast.Subscript) and unparse(n.value) == src for n in ast.walk(a)) for a, _ in known)
		decided = True
		if parity:
			r.ok('scan-ends-on-parity', (TOKENIZER_PY, b.lineno))
		elif window:
			r.violate('scan-ends-on-parity', (TOKENIZER_PY, b.lineno), f'parse_quote ends the scan under {[(unparse(a), p_) for a, p_ in known]}: a fixed look-back before the closing quote; whether the quote is escaped depends on the parity of the whole backslash run (`\'\\\\\'` ends at its second quote, `\'\\\\\\\'\'` does not), so one of the two is lexed wrongly and the following tokens are swallowed into the string', unparse(b))
		else:
			r.skip('scan-ends-on-parity', (TOKENIZER_PY, b.lineno), f'the scan ends under conditions this rule does not model: {[(unparse(a), p_) for a, p_ in known]}')
	if not decided:
		r.skip('scan-ends-on-parity', f.where, 'no conditional end of the scan found')
	_resume_rule(r, x, scan, f)


def _loop_paths(stmts: list[ast.stmt], state: dict[str, ast.AST], conds: list[tuple[ast.AST, bool]]):
	"""(exit kind, last assignment per name, path conditions) for every path through a loop body; nested loops are opaque (names they assign are forgotten)"""
	if not stmts:
		yield 'fall', state, conds
		return
	st, rest = stmts[0], stmts[1:]
	if isinstance(st, (ast.Break, ast.Return, ast.Raise)):
		yield 'exit', state, conds
	elif isinstance(st, ast.Continue):
		yield 'fall', state, conds
	elif isinstance(st, ast.If):
		for arm, pol in ((st.body, True), (st.orelse, False)):
			for kind, st2, c2 in _loop_paths(arm, dict(state), conds + [(st.test, pol)]):
				if kind == 'fall' and not (arm and isinstance(arm[-1], ast.Continue)):
					yield from _loop_paths(rest, st2, c2)
				else:
					yield kind, st2, c2
	elif isinstance(st, (ast.While, ast.For)):
		st2 = {k: v for k, v in state.items() if k not in {n.id for n in ast.walk(st) if isinstance(n, ast.Name) and isinstance(n.ctx, ast.Store)}}
		yield from _loop_paths(rest, st2, conds)
	else:
		st2 = dict(state)
		if isinstance(st, (ast.Assign, ast.AnnAssign)) and st.value is not None:
			for t in (st.targets if isinstance(st, ast.Assign) else [st.target]):
				if isinstance(t, ast.Name):
					st2[t.id] = st.value
		elif isinstance(st, ast.AugAssign) and isinstance(st.target, ast.Name):
			st2[st.target.id] = ast.BinOp(left=st2.get(st.target.id, ast.Name(id=st.target.id, ctx=ast.Load())), op=st.op, right=st.value)
		yield from _loop_paths(rest, st2, conds)


def _resume_rule(r, x: ast.AST, scan: ast.While, f) -> None:
	"""a candidate closer that turns out to be escaped hides exactly ONE character (the one after the backslash): the search must resume one character
	after the start of the candidate. Resuming after the whole closer skips, for a three-character closer, two quote characters that may start the real
	closer: triple-quote x backslash quote triple-quote (an escaped quote, then the closing triple) is lexed as a string ending at the escaped candidate plus
	a stray quote. Decided on the paths through the scan loop that reach its back edge: the value of the search start there, as a linear form over the found index."""
	q3 = '"' * 3
	from vlib.linear import linear
	finds = [(n, c_) for n in nodes(scan, (ast.Assign, ast.AnnAssign)) for c_ in [n.value] if isinstance(c_, ast.Call) and isinstance(c_.func, ast.Attribute) and c_.func.attr in ('find', 'index') and len(c_.args) >= 2 and isinstance(c_.args[1], ast.Name)]
	if len(finds) != 1 or not isinstance((finds[0][0].targets[0] if isinstance(finds[0][0], ast.Assign) else finds[0][0].target), ast.Name):
		r.skip('scan-resumes-one-past-candidate', f.where, 'the scan loop does not keep the search start in one local passed to find()')
		return
	asg, call = finds[0]
	idx_name = (asg.targets[0] if isinstance(asg, ast.Assign) else asg.target).id
	start = call.args[1].id
	closer = unparse(call.args[0])
	verdicts = []
	for kind, state, conds in _loop_paths(list(scan.body), {}, []):
		if kind != 'fall' or start not in state:
			continue
		terms, const = linear(state[start])
		if terms.get(idx_name) != 1:
			verdicts.append(('skip', f'search start `{unparse(state[start])[:50]}` is not the found index plus an offset'))
			continue
		other = {k: v for k, v in terms.items() if k != idx_name}
		if not other and const == 1:
			verdicts.append(('ok', ''))
		elif other == {f'len({closer})': 1} and const == 0:
			verdicts.append(('bad', unparse(state[start])))
		else:
			verdicts.append(('skip', f'search start `{unparse(state[start])[:50]}` after an escaped candidate'))
	if any(v == 'bad' for v, _ in verdicts):
		w = next(w for v, w in verdicts if v == 'bad')
		r.violate('scan-resumes-one-past-candidate', (TOKENIZER_PY, scan.lineno), f'after a candidate closer that is escaped the scan resumes at `{w}`, i.e. after the WHOLE closer: with a three-character closer two quote characters are skipped that may begin the real closer — `a = {q3}x\\"{q3}` is lexed as the string `{q3}x\\{q3}` followed by a stray quote (CPython: one string token); an escape hides one character, the scan must resume at index + 1', unparse(scan.test))
	elif verdicts and all(v == 'ok' for v, _ in verdicts):
		r.ok('scan-resumes-one-past-candidate', (TOKENIZER_PY, scan.lineno))
	else:
		r.skip('scan-resumes-one-past-candidate', (TOKENIZER_PY, scan.lineno), '; '.join(w for v, w in verdicts if v == 'skip')[:160] or 'no path through the scan loop reaches its back edge with a new search start')


def rule_comment_end(rep: Report, tz) -> None:
	"""A comment ends at the FIRST occurrence of its closer (the line break): CPython knows no escapes inside comments, `# C:\\temp\\` is a complete
	comment and the next line is code. The scan of Lexer.parse_comment (helpers included) must therefore not look at backslashes; sharing the
	escape-aware scan of string literals makes a comment ending in a backslash swallow the next line with its NEWLINE / INDENT / DEDENT."""
	from vlib.norm import helper_closure
	r = rep.rule('C13/comment-ends-at-first-closer', 'Lexer.parse_comment finds the end of a comment without testing for a backslash (no escape can hide the line break that ends a comment)', floor=1)
	f = tz.func('Lexer.parse_comment')
	if f is None:
		r.skip('parse_comment', (TOKENIZER_PY, 1), 'Lexer.parse_comment vanished')
		return
	n_tests = 0
	for g in helper_closure(f):
		gx = X(g)
		params = set(g.params()) - {'self', 'cls'}
		for c_ in nodes(gx, (ast.Compare, ast.Call)):
			esc = isinstance(c_, ast.Compare) and any(isinstance(x, ast.Constant) and x.value == '\\' for x in [c_.left, *c_.comparators])
			esc = esc or (isinstance(c_, ast.Call) and isinstance(c_.func, ast.Attribute) and c_.func.attr in ('rstrip', 'endswith', 'count') and any(isinstance(a, ast.Constant) and a.value == '\\' for a in c_.args))
			if not esc:
				continue
			n_tests += 1
			# an escape test that a parameter of the helper switches off (`if escapes: ...`) may be off for comments: not judged
			gate = [a for a, _ in atoms(gx, c_) if g is not f and {n.id for n in ast.walk(a) if isinstance(n, ast.Name)} <= params and not any(isinstance(n, ast.Constant) and n.value == '\\' for n in ast.walk(a))]
			gate = [a for a in gate if not any(isinstance(n, (ast.Subscript, ast.Call)) for n in ast.walk(a))]
			if gate:
				r.skip(f'{g.qualname}:escape-test', (TOKENIZER_PY, c_.lineno), f'backslash test under the helper parameter condition {[unparse(a) for a in gate]}')
			else:
				r.violate(f'{g.qualname}:escape-test', (TOKENIZER_PY, c_.lineno), f'the comment scan reaches `{unparse(c_)[:60]}` in {g.qualname}: a closer preceded by a backslash is skipped, so a comment whose last character is a backslash (`# C:\\temp\\`) runs on through the next physical line; that line and its NEWLINE / INDENT / DEDENT vanish from the token sequence, while CPython ends every comment at the line break', unparse(c_))
	if n_tests == 0:
		r.ok('no-escape-test', f.where, message='parse_comment and its helpers compare nothing with a backslash')


def rule_source_map(rep: Report, tk) -> None:
	"""a column is the offset minus the start of *its own* line, i.e. one past the LAST line break before that offset. Begin and end columns are sibling
	computations and must use the same primitive (backward search bounded by the offset itself)"""
	r = rep.rule('C13/column-from-last-linebreak', 'Token.SourceMap.make computes begin and end column as offset - (position after the last line break before that offset): a backward search (rfind) whose upper bound is the offset', floor=2)
	f = tk.func('Token.SourceMap.make')
	fx = FI(f)
	ps_ = f.params()
	if len(ps_) < 4:
		raise AnalysisError('Token.SourceMap.make no longer takes (source, begin, end)')
	ctor = [n.value for n in nodes(fx, ast.Return) if isinstance(n.value, ast.Call) and unparse(n.value.func) in ('cls', 'Token.SourceMap', 'SourceMap') and len(n.value.args) == 4]
	if not ctor:
		r.skip('begin_column', f.where, 'make no longer returns cls(begin_line, begin_column, end_line, end_column)')
		r.skip('end_column', f.where, 'make no longer returns cls(begin_line, begin_column, end_line, end_column)')
		return
	for col, offset, v in (('begin_column', ps_[2], ctor[0].args[1]), ('end_column', ps_[3], ctor[0].args[3])):
		if not (isinstance(v, ast.BinOp) and isinstance(v.op, ast.Sub) and unparse(v.left) == offset):
			r.skip(col, f.where, f'{col} is no longer `{offset} - <line start>`')
			continue
		ss = [x for x in ast.walk(v.right) if isinstance(x, ast.Call) and isinstance(x.func, ast.Attribute) and x.func.attr in ('rfind', 'find', 'index', 'rindex')]
		if not ss:
			r.skip(col, f.where, f'the line start of `{offset}` is no longer found with a search for the line break (another way of locating the line — a table of line starts, a counter — is not modelled)')
			continue
		own = [c for c in ss if len(c.args) == 3 and unparse(c.args[2]) == offset]
		ok = bool(own) and all(c.func.attr in ('rfind', 'rindex') and const_str(c.args[0]) == '\n' for c in own)
		fwd = sorted({unparse(c) for c in ss if c.func.attr in ('find', 'index')})
		r.check(ok and not (col == 'end_column' and fwd), col, (TOKEN_PY, f.node.lineno), f'{col} is derived from {sorted({unparse(c) for c in ss})}: the line start of offset `{offset}` must be found by a backward search for the last line break before `{offset}` (rfind(\'\\n\', lo, {offset})); a forward search finds the first line break inside a multi-line token, so the end column of a triple-quoted string or a blank-line break is measured from the wrong line', unparse(v.right)[:120])


def rule_joined_span(rep: Report, tk) -> None:
	"""A joined token's text starts with the receiver's text (`self.string + ...`): its span must start where the receiver starts. The collections the
	merged span is computed over must therefore contain the receiver, and begin / end must be taken as (line, column) PAIRS: the minimum of the lines and the
	minimum of the columns taken separately is the position of no token at all."""
	r = rep.rule('C13/joined-span-covers-all-parts', 'Token.joined computes the merged span over a collection that contains the receiver, comparing (line, column) pairs', floor=1)
	f = tk.func('Token.joined')
	if f is None:
		r.skip('joined', (TOKEN_PY, 1), 'Token.joined vanished')
		return
	fx = FI(f)
	vararg = f.node.args.vararg.arg if f.node.args.vararg else None
	folds = [c_ for c_ in nodes(fx, ast.Call) if isinstance(c_.func, ast.Name) and c_.func.id in ('min', 'max') and c_.args]
	if not folds:
		r.skip('joined', f.where, 'Token.joined no longer folds the parts with min / max')
		return
	for c_ in folds:
		coll = c_.args[0]
		gens = [g.iter for g in ast.walk(coll) if isinstance(g, ast.comprehension)] or [coll]
		has_self = any(any(isinstance(x, ast.Name) and x.id == 'self' for x in ast.walk(g)) for g in gens)
		only_others = vararg is not None and all(unparse(g) == vararg for g in gens)
		key = f'joined:{c_.func.id}:{unparse(coll)[:40]}'
		if only_others and not has_self:
			r.violate(key, (TOKEN_PY, c_.lineno), f'`{unparse(c_)[:90]}` ranges over `{vararg}` only: the receiver, whose text comes first in the joined token, is left out, so the merged span starts at the second part (an error at a line break merged around a comment is reported on a later line)', unparse(c_)[:120])
			continue
		keyed = next((kw.value for kw in c_.keywords if kw.arg == 'key'), None)
		elt = coll.elt if isinstance(coll, (ast.ListComp, ast.GeneratorExp)) else None
		pairwise = (isinstance(keyed, ast.Lambda) and isinstance(keyed.body, ast.Tuple) and len(keyed.body.elts) == 2) or (isinstance(elt, ast.Tuple) and len(elt.elts) == 2)
		r.check(has_self and pairwise, key, (TOKEN_PY, c_.lineno), f'`{unparse(c_)[:90]}`: the merged span must be taken over the receiver and the other parts, comparing (line, column) pairs (a separate minimum of lines and of columns is the position of no part)', unparse(c_)[:120])


def run(rep: Report, tier: str) -> None:
	idx = SourceIndex()
	tk, tz = idx.mod(TOKEN_PY), idx.mod(TOKENIZER_PY)
	rep.consulted(TOKEN_PY, TOKENIZER_PY, GRAM_TOKENIZER, SYNTAX_PY)
	types = {}
	for k, v in tk.cls('TokenTypes').class_attrs.items():
		if isinstance(v, ast.Constant) and isinstance(v.value, int):
			types[k] = v.value
	domains = {k: v.value for k, v in tk.cls('TokenDomains').class_attrs.items() if isinstance(v, ast.Constant) and isinstance(v.value, int)}
	if len(types) < 60 or 'Symbol' not in domains:
		raise AnalysisError('TokenTypes / TokenDomains enums not readable')
	by_value: dict[int, list[str]] = {}
	for k, v in types.items():
		by_value.setdefault(v, []).append(k)

	# the arithmetic we mirror
	ps = tz.func('Lexer.parse_symbol')
	src = unparse(ps.node)
	ra = rep.rule('C13/offset-arithmetic', 'parse_symbol derives the token type from table offsets exactly as modelled (Symbol.value << 4 + index, BeginCombine.value + index, lengths 3 then 2); Token.domain folds >> 4 with min(d, Max)', floor=4)
	tcalls = [c_ for c_ in walk_no_nested(ps.node) if isinstance(c_, ast.Call) and unparse(c_.func) == 'TokenTypes' and len(c_.args) == 1]
	singles, combos = [], []
	for c_ in tcalls:
		e_ = expand_use(ps.node, c_.args[0])
		terms = sorted(unparse(t) for t in _add_terms(e_))
		(combos if 'BeginCombine' in unparse(e_) else singles).append((c_, terms))
	if not singles:
		ra.skip('single-symbol', ps.where, 'parse_symbol no longer builds TokenTypes(<offset expression>) for single symbols')
	for c_, terms in singles:
		ok = len(terms) == 2 and 'TokenDomains.Symbol.value << 4' in terms and any(t.startswith('self._definition.symbol.index(') for t in terms)
		ra.check(ok, 'single-symbol', (TOKENIZER_PY, c_.lineno), f'single symbols must be typed TokenTypes((Symbol.value << 4) + symbol.index(ch)) — the table model of this check assumes it: terms {terms}', unparse(c_))
	if not combos:
		ra.skip('combined-symbol', ps.where, 'parse_symbol no longer builds TokenTypes(BeginCombine.value + ...)')
	for c_, terms in combos:
		ok = len(terms) == 2 and 'TokenTypes.BeginCombine.value' in terms and any(t.startswith('index_of(self._definition.combined_symbols,') for t in terms)
		ra.check(ok, 'combined-symbol', (TOKENIZER_PY, c_.lineno), f'combined symbols must be typed TokenTypes(BeginCombine.value + index in combined_symbols): terms {terms}', unparse(c_))
	lens = _lengths_tried(ps)
	if lens is None:
		ra.skip('lengths-tried', ps.where, 'the candidate lengths of combined symbols are not a foldable loop any more')
	else:
		ra.check(lens == [3, 2], 'lengths-tried', ps.where, f'parse_symbol must try combined symbols of length 3 then 2 (longest match first); it tries {lens}')
	dm = tk.func('Token.domain')
	dsrc = unparse(FI(dm))
	mins = [c_ for c_ in nodes(FI(dm), ast.Call) if unparse(c_.func) == 'min' and len(c_.args) == 2]
	if not mins:
		ra.skip('domain-fold', dm.where, 'Token.domain no longer folds with min(...)')
	for c_ in mins:
		ra.check({unparse(a) for a in c_.args} == {'self.type.value >> 4 & 15', 'TokenDomains.Max.value'}, 'domain-fold', dm.where, f'Token.domain must compute min(type >> 4 & 0xf, Max): `{unparse(c_)}`', unparse(c_))

	base = default_definition(idx)
	gram = grammar_definition(idx, base)
	sym_base = domains['Symbol'] << 4
	begin_combine = types.get('BeginCombine')
	if begin_combine is None:
		raise AnalysisError('TokenTypes.BeginCombine vanished')

	rt = rep.rule('C13/symbol-table-alignment', 'every offset of `symbol` / `combined_symbols` maps to a defined TokenTypes member whose name denotes the character(s) at that offset; ranges disjoint and inside the Symbol domain', floor=49)
	for label, d, strict in (('default', base, True), ('grammar', gram, False)):
		symbol = d.fields['symbol']
		combined = d.fields['combined_symbols']
		for i, ch in enumerate(symbol):
			v = sym_base + i
			names = [n for n in by_value.get(v, []) if n != 'BeginCombine']
			key = f'{label}:symbol[{i}]={ch!r}'
			if not names:
				rt.violate(key, (TOKEN_PY, 1), f'{label} definition: `{ch}` at offset {i} maps to value {v:#x}, which is not a TokenTypes member: lexing it raises ValueError')
				continue
			if strict:
				rt.check(SPELLING.get(names[0]) == ch, key, (TOKEN_PY, 1), f'`{ch}` at offset {i} is typed TokenTypes.{names[0]} (denotes {SPELLING.get(names[0])!r}): every consumer comparing token types sees the wrong symbol')
			else:
				rt.ok(key, (GRAM_TOKENIZER, 1))
			if v >= begin_combine:
				rt.violate(key + ':overlap', (TOKEN_PY, 1), f'single-symbol offset {i} reaches the combined range ({v:#x} >= BeginCombine {begin_combine:#x})')
		for i, cs in enumerate(combined):
			v = begin_combine + i
			names = [n for n in by_value.get(v, []) if n != 'BeginCombine']
			key = f'{label}:combined[{i}]={cs!r}'
			if not names:
				rt.violate(key, (TOKEN_PY, 1), f'{label} definition: combined symbol `{cs}` at offset {i} maps to value {v:#x}, not a TokenTypes member')
				continue
			rt.check(SPELLING.get(names[0]) == cs, key, (TOKEN_PY, 1), f'combined symbol `{cs}` at offset {i} is typed TokenTypes.{names[0]} (denotes {SPELLING.get(names[0])!r})')
			d_fold = min((v >> 4) & 0xf, domains.get('Max', 5))
			rt.check(d_fold == domains['Symbol'] and (v >> 4) & 0xf != 0xf, key + ':domain', (TOKEN_PY, 1), f'combined symbol `{cs}` ({v:#x}) does not fold into the Symbol domain')
			rt.check(len(cs) in (2, 3) and all(c in base.fields['symbol'] for c in cs), key + ':shape', (TOKEN_PY, 1), f'combined symbol `{cs}` has a length parse_symbol never tries or contains a non-symbol character (it could never be produced)')
			if label == 'grammar':
				rt.check(all(c in symbol for c in cs) or '/' in cs, key + ':gram-chars', (GRAM_TOKENIZER, 1), f'grammar definition: combined symbol `{cs}` starts with a character that is no longer a symbol')
		# a longer combined symbol must be tried before a shorter one that is its prefix: lengths are tried 3 then 2, so only same-length duplicates matter
		rt.check(len(set(combined)) == len(combined) and len(set(symbol)) == len(symbol), f'{label}:no-duplicates', (TOKEN_PY, 1), 'duplicate entry in symbol / combined_symbols: index() returns the first offset, the second member is unreachable')

	# semantic uses of members in the tokenizer
	ru = rep.rule('C13/semantic-members', 'members the tokenizer compares by type sit at the offsets of the characters they stand for (brackets, unary minus), in the default and the grammar definition', floor=8)
	hs = tz.func('Tokenizer.handle_symbol')
	used = sorted({attr_chain(n).split('.')[1] for f in (hs, ps) for n in ast.walk(f.node) if isinstance(n, ast.Attribute) and (attr_chain(n) or '').startswith('TokenTypes.') and attr_chain(n).count('.') == 1} - {'BeginCombine'})
	lists = [n for n in ast.walk(hs.node) if isinstance(n, (ast.List, ast.Tuple, ast.Set)) and n.elts and all((attr_chain(x) or '').startswith('TokenTypes.') for x in n.elts)]
	sets = [sorted(attr_chain(x).split('.')[1] for x in l.elts) for l in lists]
	ru.check(sorted(sets) == sorted([['BraceL', 'BracketL', 'ParenL'], ['BraceR', 'BracketR', 'ParenR']]), 'bracket-sets', hs.where, f'handle_symbol opener/closer sets are {sets}')
	for label, d in (('default', base), ('grammar', gram)):
		symbol = d.fields['symbol']
		for member in used:
			if member not in types or member not in SPELLING:
				continue
			off = types[member] - sym_base
			ch = symbol[off] if 0 <= off < len(symbol) else None
			if len(SPELLING[member]) == 1:
				ru.check(ch == SPELLING[member], f'{label}:{member}', (TOKEN_PY if label == 'default' else GRAM_TOKENIZER, 1), f'{label} definition: TokenTypes.{member} is compared by type in the tokenizer but offset {off} of `symbol` holds {ch!r}, not {SPELLING[member]!r}')
	ct = idx.mod(SYNTAX_PY).func('SyntaxParser._compare_token')
	reads = {n.attr for n in ast.walk(ct.node) if isinstance(n, ast.Attribute) and isinstance(n.value, ast.Name) and n.value.id == 'token'}
	ru.check(reads <= {'string'}, 'parser-matches-by-string', ct.where, f'SyntaxParser._compare_token reads token.{sorted(reads)}; the grammar tokenizer shifts symbol offsets after "/", which is harmless only while terminals are matched by string')

	rule_bracket_layout(rep, tz)
	rule_quote_escape(rep, tz)
	rule_comment_end(rep, tz)
	rule_indent_state(rep, tz, tk)
	rule_indent_unit(rep, tz)
	rule_lookahead_bounded(rep, tz)
	rule_post_filter_passes(rep, tz)
	rule_token_text_is_its_span(rep, tz, default_definition(idx))
	rule_context_fresh(rep, tz)
	rule_lexer_state(rep, idx)
	rule_unary_minus(rep, idx)
	rule_source_map(rep, tk)
	rule_joined_span(rep, tk)

	# domain order
	ro = rep.rule('C13/domain-order', 'no comment/quote opener starts with a character consumed by an earlier character-set domain; inside one opener list no earlier opener is a proper prefix of a later one', floor=10)
	az = tz.func('Lexer.analyze_domain')
	azx = X(az)
	loops = [lp for lp in nodes(azx, ast.For) if unparse(lp.iter).endswith('analyze_order') and isinstance(lp.target, ast.Name)]
	if not loops:
		ro.skip('first-match-dispatch', az.where, 'analyze_domain no longer loops over analyze_order')
	for lp in loops:
		rets = [n for n in nodes(lp, ast.Return) if n.value is not None and unparse(n.value) == lp.target.id]
		ro.check(bool(rets) and all(any(p_ and isinstance(a, ast.Call) for a, p_ in atoms(azx, n)) for n in rets), 'first-match-dispatch', az.where, 'analyze_domain must return the first domain of analyze_order (in order) whose analyzer accepts')
	charset_of = {'TokenDomains.WhiteSpace': 'white_space', 'TokenDomains.Symbol': 'symbol', 'TokenDomains.Number': 'number', 'TokenDomains.Identifier': 'identifier'}
	openers_of = {'TokenDomains.Comment': 'comment', 'TokenDomains.Quote': 'quote'}
	for label, d in (('default', base), ('grammar', gram)):
		order = d.fields['analyze_order']
		where = (TOKEN_PY if label == 'default' else GRAM_TOKENIZER, 1)
		ro.check(set(order) == set(charset_of) | set(openers_of) and len(order) == 6, f'{label}:order-complete', where, f'analyze_order is {order}')
		for bi, B in enumerate(order):
			if B not in openers_of:
				continue
			ops = [p['open'] for p in d.fields[openers_of[B]]]
			for o in ops:
				key = f'{label}:{B.split(".")[1]}:{o!r}'
				blockers = []
				for A in order[:bi]:
					if A in charset_of and o[:1] in d.fields[charset_of[A]]:
						blockers.append(f'{A.split(".")[1]} consumes {o[:1]!r}')
					if A in openers_of:
						for ao in [p['open'] for p in d.fields[openers_of[A]]]:
							if o.startswith(ao) and (ao != o):
								blockers.append(f'{A.split(".")[1]} opener {ao!r} is a prefix')
							if ao == o:
								blockers.append(f'{A.split(".")[1]} has the same opener')
				ro.check(not blockers, key, where, f'{label} definition: opener {o!r} of {B.split(".")[1]} can never start a token: {blockers}')
			for i, o1 in enumerate(ops):
				for o2 in ops[i + 1:]:
					if o2.startswith(o1) and o1 != o2:
						ro.violate(f'{label}:{B.split(".")[1]}:{o1!r}<{o2!r}', where, f'{label} definition: opener {o1!r} precedes {o2!r} in the list and is its prefix: parse_* takes the first match, so {o2!r} is never selected')
	ro.note("'.' is a symbol and a number character with Symbol first: `.5` lexes as Dot, Digit (CPython: one float); outside what the source defines as supported, reported only")
	extra = sorted(t for t in pytoken.EXACT_TOKEN_TYPES if len(t) > 1 and t not in base.fields['combined_symbols'])
	only = sorted(t for t in base.fields['combined_symbols'] if t not in pytoken.EXACT_TOKEN_TYPES)
	ro.note(f'CPython operators lexed as more than one token: {extra}; tranp-only combined symbols: {only} (informational; the supported lexical subset is not defined in the source)')


def _add_terms(e: ast.AST) -> list[ast.AST]:
	if isinstance(e, ast.BinOp) and isinstance(e.op, ast.Add):
		return _add_terms(e.left) + _add_terms(e.right)
	return [e]


def _fold_int(e: ast.AST, env: dict[str, int]) -> int:
	if isinstance(e, ast.Constant) and isinstance(e.value, int):
		return e.value
	if isinstance(e, ast.Name) and e.id in env:
		return env[e.id]
	if isinstance(e, ast.BinOp) and isinstance(e.op, (ast.Add, ast.Sub, ast.Mult)):
		a, b = _fold_int(e.left, env), _fold_int(e.right, env)
		return a + b if isinstance(e.op, ast.Add) else a - b if isinstance(e.op, ast.Sub) else a * b
	raise ValueError(unparse(e))


def _lengths_tried(ps) -> list[int] | None:
	"""constant-fold the loop of parse_symbol that picks the candidate slice source[begin:end]: end - begin per iteration"""
	params = ps.params()
	begin = params[2] if len(params) > 2 else 'begin'
	for lp in walk_no_nested(ps.node):
		if not (isinstance(lp, ast.For) and isinstance(lp.target, ast.Name)):
			continue
		try:
			if isinstance(lp.iter, ast.Call) and unparse(lp.iter.func) == 'range':
				values = list(range(*[_fold_int(a, {}) for a in lp.iter.args]))
			else:
				values = list(ast.literal_eval(lp.iter))
		except (ValueError, SyntaxError, TypeError):
			continue
		ends = [n for n in ast.walk(lp) if isinstance(n, ast.Assign) and isinstance(n.targets[0], ast.Name) and n.targets[0].id == 'end']
		slices = [n for n in ast.walk(lp) if isinstance(n, ast.Subscript) and isinstance(n.slice, ast.Slice) and n.slice.lower is not None and n.slice.upper is not None and unparse(n.slice.lower) == begin]
		if not slices:
			continue
		upper = slices[0].slice.upper
		expr = ends[0].value if isinstance(upper, ast.Name) and ends and upper.id == 'end' else upper
		try:
			return [_fold_int(expr, {lp.target.id: v, begin: 0}) for v in values]
		except ValueError:
			return None
	return None


def rule_context_fresh(rep: Report, tz) -> None:
	"""tokens(w(s)) == tokens(s) and balanced INDENT/DEDENT for EVERY source: the layout state (indent unit, nest level, bracket depth) lives in a
	Tokenizer.Context that must be created anew for each source. A context that outlives one parse (a parameter default built when the def runs, an
	instance or class attribute) carries the indent unit / an open bracket of the previous source into the next one."""
	from vlib.match import may_reach
	r = rep.rule('C13/layout-state-fresh-per-source', 'every Context handed to the white-space / symbol handlers by the Tokenizer is constructed inside the call that processes one source (no parameter default, no attribute of self / the class)', floor=1)
	tcls = tz.cls('Tokenizer')
	if tcls is None:
		raise AnalysisError('Tokenizer vanished')
	takers = {name for name, defs in tcls.methods.items() for a in defs[-1].node.args.args if a.annotation is not None and unparse(a.annotation).strip("'").endswith('Context')}
	n_sites = 0
	for name, defs in tcls.methods.items():
		f = defs[-1]
		for c_ in walk_no_nested(f.node):
			if not isinstance(c_, ast.Call):
				continue
			direct = isinstance(c_.func, ast.Attribute) and c_.func.attr in takers and isinstance(c_.func.value, ast.Name) and c_.func.value.id == 'self'
			# dispatch through the handler table: `handler = self._handlers[domain]; handler(context, tokens, index)`
			def _from_table(v: ast.AST | None) -> bool:
				# `self._handlers[domain]` or `self._handlers.get(domain)`
				if isinstance(v, ast.Subscript):
					return unparse(v.value).startswith('self.')
				return isinstance(v, ast.Call) and isinstance(v.func, ast.Attribute) and v.func.attr == 'get' and unparse(v.func.value).startswith('self.')
			via_table = isinstance(c_.func, ast.Name) and any(_from_table(getattr(d_, 'value', None)) for d_ in (may_reach(f.node, c_.func) or []))
			if not direct and not via_table:
				continue
			first_ctx = [t for t in sorted(takers) if len(tcls.method(t).node.args.args) > 1 and tcls.method(t).node.args.args[1].annotation is not None and unparse(tcls.method(t).node.args.args[1].annotation).strip("'").endswith('Context')]
			if not direct and not first_ctx:
				continue
			g = tcls.method(c_.func.attr) if direct else tcls.method(first_ctx[0])
			if via_table:
				c_ = ast.copy_location(ast.Call(func=ast.Attribute(value=ast.Name(id='self', ctx=ast.Load()), attr='<handler table>', ctx=ast.Load()), args=c_.args, keywords=c_.keywords), c_)
			params = [a.arg for a in g.node.args.args][1:]
			for p_, a in zip(params, c_.args):
				ann = next((x.annotation for x in g.node.args.args if x.arg == p_), None)
				if ann is None or not unparse(ann).strip("'").endswith('Context'):
					continue
				n_sites += 1
				key = f'{name}->{c_.func.attr}:{unparse(a)}'
				where = (TOKENIZER_PY, c_.lineno)
				if isinstance(a, ast.Attribute):
					r.violate(key, where, f'Tokenizer.{name} hands `{unparse(a)}` to {c_.func.attr}: layout state stored on the instance / class survives the source it was built for (indent unit, open brackets of the previous source)', unparse(c_)[:100])
					continue
				if isinstance(a, ast.Call):
					r.ok(key, where)
					continue
				if not isinstance(a, ast.Name):
					r.skip(key, where, f'context argument `{unparse(a)}` not classified')
					continue
				defs_ = may_reach(f.node, a)
				if defs_ is None:
					# a parameter of the calling method: fresh only if it has no default built at definition time and the method is itself handed a fresh one
					args_ = f.node.args
					pos = args_.posonlyargs + args_.args
					dflt = dict(zip([x.arg for x in pos][len(pos) - len(args_.defaults):], args_.defaults))
					if a.id in dflt and isinstance(dflt[a.id], ast.Call):
						r.violate(key, where, f'Tokenizer.{name} hands its parameter `{a.id}` (default `{unparse(dflt[a.id])}`, built ONCE when the def statement runs) to {c_.func.attr}: every parse that omits the argument shares one Context, so after a tab-indented source a 4-space source yields 1 INDENT and 4 DEDENTs per level, and an unclosed bracket suppresses every later line break', unparse(c_)[:100])
					else:
						r.ok(key, where, message='context supplied by the caller')
					continue
				fresh = all(isinstance(getattr(d_, 'value', None), ast.Call) and unparse(d_.value.func).split('.')[-1] in ('Context', 'make') for d_ in defs_)
				r.check(fresh, key, where, f'Tokenizer.{name} hands `{a.id}` to {c_.func.attr}, bound by {[unparse(d_)[:60] for d_ in defs_]}: not a Context constructed inside this call', unparse(c_)[:100])
	if n_sites == 0:
		r.skip('context-sites', tcls.where, 'no Tokenizer method passes a Context to a handler')


def rule_lexer_state(rep: Report, idx) -> None:
	"""tokens(s) is a function of s: one Tokenizer / Lexer serves every module of a run, so anything it remembers between sources (a memo of quote pairs
	keyed by the first two characters, a cached indent unit) answers for the next source. The inventory of remembered state is C04's; the entries of the
	lexer classes are obligations here as well (as they are for C11)."""
	from checks import c04
	r = rep.rule('C13/lexer-keeps-no-state', 'Lexer, Tokenizer and the token definitions hold no container / memo besides their constant dispatch tables (shared with C04/instance-state-inventory)', floor=1)
	scratch = Report('C04', rep.tier)
	c04.rule_g(scratch, idx)
	n_ = 0
	for rule in scratch.rules:
		for o in rule.obligations:
			if not o.key.startswith(('Lexer.', 'Tokenizer.', 'PyTokenizer.', 'TokenDefinition.', 'Context.')):
				continue
			n_ += 1
			if o.status == 'violated':
				r.violate(o.key, (o.file, o.line), o.message, o.fragment)
			else:
				r.ok(o.key, (o.file, o.line))
	# module- and class-level state of the tokenizer files (C04/global-state-inventory): a table of line starts keyed by id(source), a memo in a class body
	scratch2 = Report('C04', rep.tier)
	c04.rule_c(scratch2, idx)
	for rule in scratch2.rules:
		for o in rule.obligations:
			if not any(p_ in o.key or p_ == o.file for p_ in (TOKEN_PY, TOKENIZER_PY)):
				continue
			n_ += 1
			if o.status == 'violated':
				r.violate(o.key, (o.file, o.line), o.message + ' — the spans / tokens of one source are then computed from what an earlier source left behind', o.fragment)
			else:
				r.ok(o.key, (o.file, o.line))
	if n_ == 0:
		r.ok('no-container-attributes', None, message='the lexer classes hold no container attribute')


# ---- unary minus: the characters after `-` that make it a sign cover every operand start ---------------------------------------------------

def _regex_first(pat: str) -> set[str] | None:
	"""ASCII characters a match of the regular expression can start with (None: not computed)"""
	import re._parser as sre  # type: ignore
	import re._constants as K  # type: ignore
	ascii_ = [chr(i) for i in range(32, 127)]

	def cls_chars(items) -> set[str]:
		out: set[str] = set()
		neg = False
		for k, v in items:
			if k is K.NEGATE:
				neg = True
			elif k is K.LITERAL:
				out.add(chr(v))
			elif k is K.RANGE:
				out |= {chr(i) for i in range(v[0], v[1] + 1)}
			elif k is K.CATEGORY:
				import re as _re
				probe = {K.CATEGORY_WORD: r'\w', K.CATEGORY_DIGIT: r'\d', K.CATEGORY_SPACE: r'\s', K.CATEGORY_NOT_WORD: r'\W', K.CATEGORY_NOT_DIGIT: r'\D', K.CATEGORY_NOT_SPACE: r'\S'}.get(v)
				if probe is None:
					raise ValueError('category')
				out |= {c for c in ascii_ if _re.fullmatch(probe, c)}
		return set(ascii_) - out if neg else out & set(ascii_) | {c for c in out if c in ascii_}

	def first(seq) -> tuple[set[str], bool]:
		"""(first characters, nullable)"""
		out: set[str] = set()
		for k, v in seq:
			if k is K.LITERAL:
				return out | {chr(v)}, False
			if k is K.NOT_LITERAL:
				return out | (set(ascii_) - {chr(v)}), False
			if k is K.ANY:
				return out | set(ascii_), False
			if k is K.IN:
				return out | cls_chars(v), False
			if k is K.BRANCH:
				nullable = False
				for br in v[1]:
					f, n = first(br)
					out |= f
					nullable = nullable or n
				if not nullable:
					return out, False
				continue
			if k is K.SUBPATTERN:
				f, n = first(v[3])
				out |= f
				if not n:
					return out, False
				continue
			if k in (K.MAX_REPEAT, K.MIN_REPEAT):
				f, n = first(v[2])
				out |= f
				if v[0] >= 1 and not n:
					return out, False
				continue
			if k is K.AT:
				continue
			raise ValueError(str(k))
		return out, True
	try:
		f, _ = first(list(sre.parse(pat)))
		return f
	except Exception:
		return None


def rule_unary_minus(rep: Report, idx: SourceIndex, rule_id: str = 'C13/unary-minus-covers-every-operand-start') -> None:
	"""The engine cannot tell a sign from a subtraction by its left context; the lexer decides by the character to the RIGHT of `-` and emits the
	unary-minus token or the binary one. Whatever test it uses must say "sign" for every character an operand of `unary := (op_unary)? primary` can
	start with — FIRST(primary), computed from data/syntax/py_gram.lark (string terminals by their first character, regexp terminals by the first-set
	of the parsed regular expression, left recursion by fixpoint). A test that lists operand starts and forgets one (`[`, `{`) turns the derivable
	sentences `-[1, 2][0]`, `x = -{}` into syntax errors, while `-a`, `-1`, `-(…)` keep working."""
	from vlib import metagram
	from vlib.norm import helper_closure
	r = rep.rule(rule_id, 'the condition under which Lexer.parse_symbol emits the unary-minus token accepts every character in FIRST(primary) of py_gram.lark (`not white space` does; an enumeration of operand starts must contain letters, digits, quotes, `(`, `[`, `{`)', floor=1)
	try:
		rules = metagram.rules_of(metagram.read_grammar(open(os.path.join(REPO, 'data/syntax/py_gram.lark'), encoding='utf-8').read(), 'data/syntax/py_gram.lark'))
	except Exception as e:
		r.skip('first-set', ('data/syntax/py_gram.lark', 1), f'py_gram.lark not readable: {e}')
		return
	unary = next((k for k, v in rules.items() if any(x == ('symbol', 'op_unary') for x in _walk_tuple(v))), None)
	if unary is None:
		r.skip('first-set', ('data/syntax/py_gram.lark', 1), 'no rule of py_gram.lark uses op_unary')
		return
	body = rules[unary][1][2]
	terms = body[1] if body[0] == 'terms' else [body]
	operand = next((t[1] for t in terms if t[0] == 'symbol' and t[1] != 'op_unary'), None)
	memo: dict[str, set[str]] = {}

	def first_of(e, stack: tuple[str, ...]) -> tuple[set[str], bool]:
		kind = e[0]
		if kind == 'string':
			txt = e[1][1:-1]
			return ({txt[0]} if txt and not txt.startswith('\\') else set()), (txt == '')
		if kind == 'regexp':
			f = _regex_first(e[1][1:-1])
			if f is None:
				raise ValueError(f'regexp {e[1]}')
			return f, False
		if kind == 'symbol':
			name = e[1]
			if name in stack:
				return set(), False  # left recursion: contributes nothing new on this path
			if name not in rules:
				raise ValueError(f'undefined symbol {name}')
			return first_of(rules[name][1][2], stack + (name,))
		if kind == 'terms_or':
			out, nullable = set(), False
			for a in e[1]:
				f, n = first_of(a, stack)
				out |= f
				nullable = nullable or n
			return out, nullable
		if kind == 'terms':
			out: set[str] = set()
			for a in e[1]:
				f, n = first_of(a, stack)
				out |= f
				if not n:
					return out, False
			return out, True
		if kind == 'expr_opt':
			f, _ = first_of(e[1][0], stack)
			return f, True
		if kind == 'expr_rep':
			f, n = first_of(e[1][0], stack)
			rep_ = next((x[1] for x in e[1][1:] if x[0] == 'repeat'), '')
			return f, n or rep_ in ('*', '?')
		raise ValueError(f'unknown node {kind}')
	try:
		need, _ = first_of(('symbol', operand), ())
	except ValueError as e:
		r.skip('first-set', ('data/syntax/py_gram.lark', 1), f'FIRST({operand}) not computed: {e}')
		return
	need = {c for c in need if 32 < ord(c) < 127}
	if not ({'(', '[', '{', 'a', '0', '"'} <= need):
		r.skip('first-set', ('data/syntax/py_gram.lark', 1), f'FIRST({operand}) = {"".join(sorted(need))[:60]} looks incomplete: not used')
		return
	tz = idx.mod(TOKENIZER_PY)
	ps = tz.func('Lexer.parse_symbol')
	d = default_definition(idx)
	sets = {'analyze_white_spece': set(d.fields['white_space']), 'analyze_identifier': set(d.fields['identifier']), 'analyze_number': set(d.fields['number']), 'analyze_symbol': set(d.fields['symbol']),
		'analyze_quote': {p_['open'][0] for p_ in d.fields['quote']}, 'analyze_comment': {p_['open'][0] for p_ in d.fields['comment']}}
	everything = {chr(i) for i in range(33, 127)}

	def accepted(e: ast.AST, g) -> set[str] | None:
		"""characters for which the boolean expression e (over source[<pos>]) is true; None: not evaluated"""
		if isinstance(e, ast.UnaryOp) and isinstance(e.op, ast.Not):
			a = accepted(e.operand, g)
			return None if a is None else everything - a
		if isinstance(e, ast.BoolOp):
			parts = [accepted(v, g) for v in e.values]
			if isinstance(e.op, ast.Or):
				known = [p_ for p_ in parts if p_ is not None]
				return set().union(*known) if len(known) == len(parts) else None
			# and: bounds checks (`begin < len(source)`) do not restrict the character
			known = [p_ for v, p_ in zip(e.values, parts) if not _is_bounds(v)]
			if any(p_ is None for p_ in known):
				return None
			out = set(everything)
			for p_ in known:
				out &= p_
			return out
		if isinstance(e, ast.Call) and isinstance(e.func, ast.Attribute) and isinstance(e.func.value, ast.Name) and e.func.value.id == 'self':
			if e.func.attr in sets:
				return set(sets[e.func.attr]) & everything
			h = g.cls.method(e.func.attr) if g.cls is not None else None
			if h is not None:
				rets = [n.value for n in ast.walk(h.node) if isinstance(n, ast.Return) and n.value is not None]
				vals = [accepted(v, h) for v in rets if not (isinstance(v, ast.Constant) and v.value is False)]
				return set().union(*vals) if vals and all(v is not None for v in vals) else None
			return None
		if isinstance(e, ast.Compare) and len(e.ops) == 1 and isinstance(e.left, ast.Subscript):
			rhs = e.comparators[0]
			if isinstance(rhs, ast.Constant) and isinstance(rhs.value, str):
				if isinstance(e.ops[0], ast.Eq):
					return {rhs.value}
				if isinstance(e.ops[0], ast.In):
					return set(rhs.value)
				if isinstance(e.ops[0], ast.NotEq):
					return everything - {rhs.value}
				if isinstance(e.ops[0], ast.NotIn):
					return everything - set(rhs.value)
			if isinstance(rhs, (ast.Tuple, ast.List)) and all(isinstance(x, ast.Constant) and isinstance(x.value, str) for x in rhs.elts) and isinstance(e.ops[0], (ast.In, ast.NotIn)):
				cs = {x.value for x in rhs.elts}
				return cs if isinstance(e.ops[0], ast.In) else everything - cs
		return None

	def _is_bounds(v: ast.AST) -> bool:
		return isinstance(v, ast.Compare) and any(isinstance(x, ast.Call) and isinstance(x.func, ast.Name) and x.func.id == 'len' for x in ast.walk(v))
	sites = [c_ for c_ in nodes(ps.node, ast.Call) if unparse(c_.func).endswith('op_unary_minus')]
	if not sites:
		r.skip('unary-decision', ps.where, 'parse_symbol no longer emits Token.op_unary_minus')
		return
	for c_ in sites:
		conds = [(a, p_) for a, p_ in atoms(ps.node, c_) if 'TokenTypes.Minus' not in unparse(a) and not _is_bounds(a)]
		got: set[str] | None = set(everything)
		for a, p_ in conds:
			s_ = accepted(a if p_ else ast.UnaryOp(op=ast.Not(), operand=a), ps)
			if s_ is None:
				got = None
				break
			got &= s_
		if got is None:
			r.skip('unary-decision', (TOKENIZER_PY, c_.lineno), f'the condition of the unary-minus token is not one this check evaluates: {[unparse(a)[:50] for a, _ in conds]}')
			continue
		missing = sorted(need - got)
		r.check(not missing, 'unary-decision', (TOKENIZER_PY, c_.lineno), f'`-` becomes the unary-minus token only when the next character is one of a set that lacks {missing[:8]}, although an operand of `{unary}` can start with them (FIRST({operand}) from py_gram.lark): `-[1, 2][0]`, `x = -{{}}` are derivable and CPython parses UnaryOp(USub, …), but the lexer hands the parser a binary minus without left operand -> Errors.Syntax', unparse(c_)[:80])


def _walk_tuple(t):
	yield t
	if isinstance(t, (tuple, list)):
		for x in t:
			if isinstance(x, (tuple, list)):
				yield from _walk_tuple(x)


def rule_indent_unit(rep: Report, tz) -> None:
	"""Context.to_nest learns the indent unit from the first width it sees. Every top-level statement follows a line break of width 0, so the unit must be
	learnt only from a NON-ZERO width: each write of the unit is dominated by `width != 0` (an early return for 0 before it, or an enclosing test).
	Otherwise the first top-level line fixes the unit (to 0: division by zero; clamped to 1: every column is a level, a 4-column block gets 1 INDENT and
	4 DEDENTs)."""
	r = rep.rule('C13/indent-unit-learnt-from-an-indented-line', 'in Tokenizer.Context.to_nest every write of the indent unit is dominated by the test that the measured width is not zero', floor=1)
	f = tz.func('Tokenizer.Context.to_nest')
	if f is None:
		r.skip('to_nest', (TOKENIZER_PY, 1), 'Tokenizer.Context.to_nest vanished')
		return
	params = f.params()
	if len(params) != 2:
		r.skip('to_nest', f.where, 'to_nest no longer takes exactly the measured width')
		return
	w = params[1]
	zero = {f'{w} == 0', f'0 == {w}', f'{w} <= 0', f'{w} < 1', f'not {w}'}
	nonzero = {f'{w} > 0', f'0 < {w}', f'{w} != 0', f'0 != {w}', f'{w} >= 1', w}
	# the unit: the self attribute the returned level divides by
	divs = [n for n in ast.walk(f.node) if isinstance(n, ast.BinOp) and isinstance(n.op, (ast.Div, ast.FloorDiv)) and unparse(n.left) == w and isinstance(n.right, ast.Attribute)]
	units = {unparse(n.right) for n in divs}
	if len(units) != 1:
		r.skip('to_nest', f.where, f'the level is not computed as {w} / <one attribute of the context>')
		return
	unit = units.pop()

	def conj(t: ast.AST) -> list[str]:
		return [unparse(v) for v in (t.values if isinstance(t, ast.BoolOp) and isinstance(t.op, ast.And) else [t])]

	def disj(t: ast.AST) -> list[str]:
		return [unparse(v) for v in (t.values if isinstance(t, ast.BoolOp) and isinstance(t.op, ast.Or) else [t])]

	def visit(body: list[ast.stmt], guarded: bool) -> None:
		for s_ in body:
			if isinstance(s_, ast.If):
				leaves = bool(s_.body) and isinstance(s_.body[-1], (ast.Return, ast.Raise))
				visit(s_.body, guarded or bool(set(conj(s_.test)) & nonzero))
				visit(s_.orelse, guarded or all(d in zero for d in disj(s_.test)))
				if leaves and not s_.orelse and all(d in zero or d in disj(s_.test) for d in disj(s_.test)) and set(disj(s_.test)) & zero:
					guarded = True  # `if width == 0 [or ...]: return` — afterwards the width is non-zero
			elif isinstance(s_, (ast.Assign, ast.AnnAssign, ast.AugAssign)):
				tgts = s_.targets if isinstance(s_, ast.Assign) else [s_.target]
				if any(unparse(t) == unit for t in tgts):
					r.check(guarded, f'unit-write:{unparse(s_)[:50]}', (TOKENIZER_PY, s_.lineno), f'`{unparse(s_)[:80]}` can execute with {w} == 0: the first line break followed by a top-level statement (width 0) then fixes the indent unit — 0 divides by zero, a clamp to 1 makes every column a level, so a block indented by 4 columns (or one tab after a 0-width line) opens 1 INDENT and closes 4 DEDENTs and the module no longer parses or nests differently', unparse(s_)[:100])
			elif isinstance(s_, (ast.For, ast.While, ast.With, ast.Try)):
				for fld in ('body', 'orelse', 'finalbody'):
					visit(getattr(s_, fld, []) or [], guarded)
				for h in getattr(s_, 'handlers', []) or []:
					visit(h.body, guarded)

	visit(f.node.body, False)


def rule_lookahead_bounded(rep: Report, tz) -> None:
	"""The lexer is handed a position that exists (begin < len(source)); every character it reads AHEAD of that position — `source[begin + k]`, the loop
	cursor of a scan, the position handed to an analyze_* helper (each reads source[<its position>]) — has to be preceded by the test that the
	position is still inside the source, or a source that ends right there (a file without a final newline ending in `-`) raises IndexError instead of
	producing tokens. Decided on the linear form of the index and of the comparisons known at the read (enclosing while / if tests, earlier operands
	of the same `and`, earlier exits)."""
	from vlib.linear import linear
	r = rep.rule('C13/lookahead-reads-are-bounded', 'in Lexer every read of source[e] (or analyze_*(source, e)) with e ahead of the position parameter is dominated by a comparison that implies e < len(source)', floor=2)
	lx = tz.cls('Lexer')
	if lx is None:
		r.skip('Lexer', (TOKENIZER_PY, 1), 'class Lexer vanished')
		return
	n_base = 0
	for defs_ in lx.methods.values():
		for f in defs_:
			params = f.params()
			if 'source' not in params:
				continue
			pos = params[params.index('source') + 1] if params.index('source') + 1 < len(params) else None

			def single(name: str) -> ast.AST | None:
				stores = [s for s in ast.walk(f.node) if isinstance(s, ast.Name) and s.id == name and isinstance(s.ctx, ast.Store)]
				defs2 = [a for a in ast.walk(f.node) if isinstance(a, ast.Assign) and len(a.targets) == 1 and isinstance(a.targets[0], ast.Name) and a.targets[0].id == name]
				augs = [a for a in ast.walk(f.node) if isinstance(a, ast.AugAssign) and isinstance(a.target, ast.Name) and a.target.id == name]
				return defs2[0].value if len(stores) == 1 and len(defs2) == 1 and not augs else None

			def lin(e: ast.AST, depth: int = 0):
				terms, const = linear(e)
				out: dict[str, int] = {}
				for a, k in terms.items():
					v = single(a) if a.isidentifier() and depth < 3 else None
					if v is not None:
						t2, c2 = lin(v, depth + 1)
						for a2, k2 in t2.items():
							out[a2] = out.get(a2, 0) + k * k2
						const += k * c2
					else:
						out[a] = out.get(a, 0) + k
				return {a: k for a, k in out.items() if k}, const

			sites: list[tuple[ast.AST, ast.AST]] = []
			for n in walk_no_nested(f.node):
				if isinstance(n, ast.Subscript) and isinstance(n.ctx, ast.Load) and unparse(n.value) == 'source' and not isinstance(n.slice, ast.Slice):
					sites.append((n, n.slice))
				elif isinstance(n, ast.Call) and isinstance(n.func, ast.Attribute) and n.func.attr.startswith('analyze_') and len(n.args) == 2 and unparse(n.args[0]) == 'source':
					sites.append((n, n.args[1]))
			for node, e in sites:
				terms, const = lin(e)
				if terms == {pos: 1} and const == 0:
					n_base += 1
					continue  # the position itself: the caller's obligation (Lexer.parse loops `while index < len(source)`)
				if not (len(terms) == 1 and list(terms.values()) == [1] and next(iter(terms)).isidentifier() and const >= 0):
					continue  # not a forward read from a cursor (`source[index - 1 - escapes]` looks BEHIND a position that was found in the source)
				# target: e - len(source) + 1 <= 0
				tgt = dict(terms)
				tgt['len(source)'] = tgt.get('len(source)', 0) - 1
				tgt = {a: k for a, k in tgt.items() if k}
				tconst = const + 1
				implied = False
				for cnd, pol in path_conditions(f.node, node):
					for a_, p_ in conjuncts(cnd, pol):
						if not (isinstance(a_, ast.Compare) and len(a_.ops) == 1):
							continue
						op = type(a_.ops[0])
						lt_, lc_ = lin(a_.left)
						rt_, rc_ = lin(a_.comparators[0])
						d = {k: lt_.get(k, 0) - rt_.get(k, 0) for k in set(lt_) | set(rt_)}
						d = {k: v for k, v in d.items() if v}
						dc = lc_ - rc_
						# normalise to G <= 0
						if not p_:
							op = {ast.Lt: ast.GtE, ast.LtE: ast.Gt, ast.Gt: ast.LtE, ast.GtE: ast.Lt}.get(op)
						if op is ast.Lt:
							g, gc = d, dc + 1
						elif op is ast.LtE:
							g, gc = d, dc
						elif op is ast.Gt:
							g, gc = {k: -v for k, v in d.items()}, -dc + 1
						elif op is ast.GtE:
							g, gc = {k: -v for k, v in d.items()}, -dc
						else:
							continue
						if g == tgt and tconst <= gc:
							implied = True
				key = f'{f.name}:{unparse(node)[:50]}'
				r.check(implied, key, (TOKENIZER_PY, node.lineno), f'`{unparse(node)[:70]}` reads the source at `{unparse(e)}` (= {terms} + {const}), ahead of the position the lexer was handed, and nothing known at that point implies it is < len(source): a source that ends there — `a -` or a lone `-` without a final newline for the sign test of parse_symbol — raises IndexError out of Tokenizer.parse instead of yielding the tokens CPython yields', unparse(node)[:100])
	rep.extra_coverage['lexer_reads_at_the_given_position'] = n_base


def rule_post_filter_passes(rep: Report, tz) -> None:
	"""Lexer.post_filter removes comments and the line breaks at the two ends of the token list. The end filter (`BEGIN|END`) is POSITIONAL: whether a
	line break is the first / last token is only known once the earlier filters have removed what stood before / after it. Hence each filter must sweep
	the whole list produced by the filters before it (the loop over the filter table encloses the sweep). A single sweep that asks every filter per
	token judges a line break before the comment behind it is gone: `a = 1\\n# tail\\n` keeps a NEWLINE at the very end (the two line breaks around the
	comment are merged into a token that lies BEHIND the cursor), which CPython's tokenizer does not emit and the parser rejects. A single sweep is
	accepted only when the merge steps the cursor back so that the merged token is judged again."""
	r = rep.rule('C13/post-filters-run-as-successive-passes', 'in Lexer.post_filter the loop over the filter table encloses the sweep that deletes tokens (or a single sweep re-judges a merged token by stepping the cursor back)', floor=1)
	f = tz.func('Lexer.post_filter')
	if f is None:
		r.skip('post_filter', (TOKENIZER_PY, 1), 'Lexer.post_filter vanished')
		return
	from vlib.flow import parent_map
	pm_ = parent_map(f.node)
	deletes = [n for n in walk_no_nested(f.node) if isinstance(n, ast.Delete) and any(isinstance(t, ast.Subscript) for t in n.targets)]
	if not deletes:
		r.skip('post_filter', f.where, 'post_filter no longer deletes tokens from a list in place')
		return

	def over_filters(n: ast.AST) -> bool:
		it = n.iter if isinstance(n, (ast.For, ast.comprehension)) else None
		return it is not None and 'post_filters' in unparse(it)

	enclosed = []
	for d in deletes:
		cur = d
		inside = False
		while id(cur) in pm_:
			cur = pm_[id(cur)]
			if isinstance(cur, ast.For) and over_filters(cur):
				inside = True
		enclosed.append(inside)
	if all(enclosed):
		r.ok('passes', f.where, message='every deletion happens inside the loop over the filter table')
		return
	# single sweep: accepted only if the merge branch steps the cursor back
	merges = [n for n in ast.walk(f.node) if isinstance(n, ast.Assign) and isinstance(n.targets[0], ast.Subscript) and any(isinstance(c_, ast.Call) and isinstance(c_.func, ast.Attribute) and c_.func.attr == 'joined' for c_ in ast.walk(n.value))]
	steps_back = False
	for mg in merges:
		par = pm_.get(id(mg))
		body = getattr(par, 'body', []) if par is not None else []
		branch = body if mg in body else (getattr(par, 'orelse', []) if par is not None else [])
		steps_back = steps_back or any(isinstance(s_, ast.AugAssign) and isinstance(s_.op, ast.Sub) and isinstance(s_.value, ast.Constant) and s_.value.value == 1 for s_ in branch)
	where = (TOKENIZER_PY, deletes[0].lineno)
	r.check(bool(merges) and steps_back, 'passes', where, 'post_filter sweeps the token list ONCE and asks every filter per token: the positional end filter (`BEGIN|END`) judges a line break while the comment behind it is still in the list, and when that comment is removed later the two line breaks around it are merged into a token BEHIND the cursor, which is never judged again — `a = 1\\n# tail\\n` ends in an extra NEWLINE (CPython: none; the parser rejects the module)', unparse(deletes[0])[:80])


def rule_token_text_is_its_span(rep: Report, tz, DEFN) -> None:
	"""`concatenating the raw lexer tokens reproduces the source and each token's recorded span addresses exactly its text`: a raw token is built as
	Token(type, <text>, SourceMap.make(source, b, e)) and the lexer resumes at the returned position. The text must be source[b:e] — the very slice
	the span names — and the position handed back must be e. A text that is trimmed, case-folded or otherwise derived from the slice (`.rstrip()` to
	drop the CR of CRLF) leaves characters of the source in no token, and the span is wider than the text it claims to address."""
	r = rep.rule('C13/raw-token-text-is-the-slice-of-its-span', 'every Token(type, text, SourceMap.make(source, b, e)) built by the Lexer has text == source[b:e] (after expanding locals), and the function returns e as the next position', floor=5)
	lx = tz.cls('Lexer')
	if lx is None:
		r.skip('Lexer', (TOKENIZER_PY, 1), 'class Lexer vanished')
		return
	for defs_ in lx.methods.values():
		for f in defs_:
			for c_ in walk_no_nested(f.node):
				if not (isinstance(c_, ast.Call) and unparse(c_.func) == 'Token' and len(c_.args) == 3):
					continue
				sm = c_.args[2]
				if not (isinstance(sm, ast.Call) and unparse(sm.func).endswith('SourceMap.make') and len(sm.args) == 3):
					continue
				src_p, b_, e_ = unparse(sm.args[0]), unparse(sm.args[1]), unparse(sm.args[2])
				text = c_.args[1]
				# every value the text can have: a local assigned on several paths, or a conditional expression
				alts: list[ast.AST] = []

				def unreachable(a: ast.AST, name: str) -> bool:
					"""an assignment guarded by `<name>.count(K)` / `K in <name>` where the slice was scanned character by character against one charset of
					the token definition (`source[end] not in self._definition.<S>: break`) and K contains a character outside S"""
					from vlib.match import path_conditions as _pc
					scans = [unparse(x.comparators[0]).split('.')[-1] for x in walk_no_nested(f.node) if isinstance(x, ast.Compare) and len(x.ops) == 1 and isinstance(x.ops[0], ast.NotIn) and unparse(x.left).startswith(f'{src_p}[') and '_definition.' in unparse(x.comparators[0])]
					scans += [unparse(a_).split('.')[-1] for x in walk_no_nested(f.node) if isinstance(x, ast.Call) and isinstance(x.func, ast.Attribute) and isinstance(x.func.value, ast.Name) and x.func.value.id in ('self', 'cls') and any(unparse(y) == src_p for y in x.args) for a_ in x.args if unparse(a_).startswith('self._definition.')]
					if len(set(scans)) != 1 or scans[0] not in DEFN.fields or not isinstance(DEFN.fields[scans[0]], str):
						return False
					charset = DEFN.fields[scans[0]]
					for c2, pol in _pc(f.node, a):
						if not pol:
							continue
						needle = None
						if isinstance(c2, ast.Call) and isinstance(c2.func, ast.Attribute) and c2.func.attr == 'count' and unparse(c2.func.value) == name and c2.args:
							needle = const_str(c2.args[0])
						elif isinstance(c2, ast.Compare) and len(c2.ops) == 1 and isinstance(c2.ops[0], ast.In) and unparse(c2.comparators[0]) == name:
							needle = const_str(c2.left)
						if isinstance(needle, str) and any(ch not in charset for ch in needle):
							return True
					return False

				def collect(x: ast.AST, depth: int = 0) -> None:
					if isinstance(x, ast.IfExp):
						collect(x.body, depth)
						collect(x.orelse, depth)
					elif isinstance(x, ast.Name) and depth < 3:
						defs2 = [a.value for a in walk_no_nested(f.node) if isinstance(a, (ast.Assign, ast.AnnAssign)) and a.value is not None and any(isinstance(t, ast.Name) and t.id == x.id for t in (a.targets if isinstance(a, ast.Assign) else [a.target])) and not unreachable(a, x.id)]
						if defs2:
							for d_ in defs2:
								collect(d_, depth + 1)
						else:
							alts.append(x)
					else:
						alts.append(x)
				collect(text)
				key = f'{f.name}:{unparse(c_.args[0])[:30]}'
				want = f'{src_p}[{b_}:{e_}]'
				# operations that are the identity on the scanned slice: the slice holds only characters of ONE charset of the token definition (the scan
				# loop `source[end] not in self._definition.<S>: break`), so removing / splitting at a needle with a character outside S changes nothing
				scans_ = [unparse(x.comparators[0]).split('.')[-1] for x in walk_no_nested(f.node) if isinstance(x, ast.Compare) and len(x.ops) == 1 and isinstance(x.ops[0], ast.NotIn) and unparse(x.left).startswith(f'{src_p}[') and '_definition.' in unparse(x.comparators[0])]
				# ... or the scan is delegated: `end = self._scan_while(source, begin, self._definition.white_space)`
				scans_ += [unparse(a_).split('.')[-1] for x in walk_no_nested(f.node) if isinstance(x, ast.Call) and isinstance(x.func, ast.Attribute) and isinstance(x.func.value, ast.Name) and x.func.value.id in ('self', 'cls') and any(unparse(y) == src_p for y in x.args) for a_ in x.args if unparse(a_).startswith('self._definition.')]
				charset_ = DEFN.fields.get(scans_[0]) if len(set(scans_)) == 1 and isinstance(DEFN.fields.get(scans_[0]), str) else None

				def simplify(x: ast.AST, depth: int = 0) -> ast.AST:
					if charset_ is None or depth > 4:
						return x
					if isinstance(x, ast.Name):
						ds = [a.value for a in walk_no_nested(f.node) if isinstance(a, (ast.Assign, ast.AnnAssign)) and a.value is not None and any(isinstance(t, ast.Name) and t.id == x.id for t in (a.targets if isinstance(a, ast.Assign) else [a.target]))]
						ds = [simplify(d_, depth + 1) for d_ in ds]
						if ds and all(unparse(d_) == unparse(ds[0]) for d_ in ds):
							return ds[0]
						return x
					if isinstance(x, ast.Call) and isinstance(x.func, ast.Attribute) and x.func.attr == 'replace' and len(x.args) == 2 and isinstance(const_str(x.args[0]), str) and any(ch not in charset_ for ch in const_str(x.args[0])):
						return simplify(x.func.value, depth + 1)
					if isinstance(x, ast.Call) and isinstance(x.func, ast.Attribute) and x.func.attr == 'join' and const_str(x.func.value) == '' and len(x.args) == 1 and isinstance(x.args[0], ast.Call) and isinstance(x.args[0].func, ast.Attribute) and x.args[0].func.attr == 'split' and x.args[0].args and isinstance(const_str(x.args[0].args[0]), str) and any(ch not in charset_ for ch in const_str(x.args[0].args[0])):
						return simplify(x.args[0].func.value, depth + 1)
					return x
				alts = [simplify(a) for a in alts]
				bad = [a for a in alts if unparse(a) != want and not (isinstance(a, ast.Subscript) and unparse(a.value) == src_p and not isinstance(a.slice, ast.Slice) and unparse(a.slice) == b_)]
				r.check(not bad, key, (TOKENIZER_PY, c_.lineno), f'the token built in {f.name} records the span [{b_}, {e_}) but its text can be `{unparse(bad[0])[:60] if bad else ""}`, not `{want}`: the characters the text leaves out (trailing blanks or the CR behind a comment) are consumed — the lexer resumes behind them — yet appear in no token, so joining the raw tokens no longer reproduces the source and the span of the token is wider than its text', unparse(c_)[:120])
