"""C02 — node tree groups programs exactly as CPython parses them: structural clauses
(a ladder ~ CPython precedence, b child selectors fit the grammar's shapes, c ordered dispatch has no shadowed class, d dropped children (report))."""
from __future__ import annotations

import ast

from vlib.core import AnalysisError, Report
from vlib.grammar import EMPTY, GrammarModel, Slot, ladder
from vlib.nodemodel import NodeModel
from vlib.match import X, atoms, deref, nodes
from vlib.precedence import python_precedence
from vlib.srcindex import ClassInfo, FuncInfo, SourceIndex, attr_chain, const_str, unparse, walk_no_nested

EXPLANATION = (
	'(a) the operator ladder of data/grammar.lark (levels, tokens, recursion shape read from the EBNF) is order-isomorphic to CPython\'s own precedence table (ast._Precedence / _Unparser) for every operator token both accept; '
	'unary operators are prefix-recursive, the ternary recurses in its else branch, binary levels are flat left-to-right chains. '
	'(b) every child selector in a node class (_at(i), _children(p)[i], _elements[i], _by(p), _exists(p), _children(p)) is evaluated against the tree shapes lark builds for each tag the class is mapped to: '
	'each path element is a possible child tag, each constant index exists in every production (unless length/exists-guarded), each class assertion (.as_a/.one_of) is satisfiable by a class the dispatch table can produce for that slot and lists Empty when the slot can be a placeholder. '
	'(c) in the ordered tag -> class dispatch an unconditional class is the last candidate of each tag, every mapped tag is producible by the grammar, no class is listed twice for a tag. '
	'(d) report only: children silently dropped by constant indexing into a repeated slot. Tree equality with ast.parse over all programs is not decided.'
)
ASSUMPTIONS = ['tree shapes come from lark\'s compiled rule list (GrammarModel); the LALR automaton and the indenter are not modelled', 'chained comparisons are kept flat by design and are outside every rule']
TRUSTED_BASE = ['CPython ast._Precedence/_Unparser tables (cross-checked with a frozen copy)', 'lark grammar compiler as reader of data/grammar.lark', 'vlib/nodemodel.py']

ACCESSORS = {'_at', '_by', '_exists', '_children'}


def run(rep: Report, tier: str) -> None:
	idx = SourceIndex()
	nm = NodeModel(idx)
	gm = GrammarModel()
	rep.consulted(gm.relpath, *nm.files())
	rule_a(rep, gm)
	rule_b(rep, idx, nm, gm)
	rule_c(rep, idx, nm, gm)
	rule_d(rep, idx, nm, gm)
	rule_e(rep, idx, nm, gm)
	rule_f(rep, idx, nm, gm)
	rule_g(rep, idx, nm)
	rule_h(rep, idx, nm)
	rule_this_var_depth(rep, idx)
	rule_number_kinds(rep, idx, nm, gm)
	rule_position_tests(rep, idx, nm)


def py_key(tok: str, kind: str) -> str:
	if kind == 'prefix' and tok in '+-~':
		return 'u' + tok
	if kind == 'binary' and tok in '+-':
		return 'b' + tok
	return tok


def rule_a(rep: Report, gm: GrammarModel, rule_prefix: str = 'C02', levels=None, where=None) -> None:
	r = rep.rule(f'{rule_prefix}/ladder-isomorphic', 'for every two operator tokens accepted by the grammar and by CPython: grammar level order == CPython precedence order (equal levels <=> equal precedence)', floor=300)
	rs = rep.rule(f'{rule_prefix}/ladder-shape', 'binary levels are flat chains `Y (op Y)*`, unary levels recurse on themselves, the ternary recurses in its else branch', floor=10)
	levels = levels if levels is not None else ladder(gm)
	where = where or (gm.relpath, 1)
	prec = python_precedence()
	if len(levels) < 8:
		raise AnalysisError(f'{rule_prefix}-a: only {len(levels)} ladder levels found')
	# every construct CPython's expression ladder has between lambda and atoms must be found: a level the reader no longer recognises would drop out of
	# the comparison silently
	for kind in ('ternary', 'prefix', 'binary'):
		rs.check(any(lv.kind == kind for lv in levels), f'has-{kind}-level', where, f'no {kind} level recognised in the expression ladder (the conditional expression / unary / binary rules changed shape): its grouping is no longer compared with CPython')
	toks = []
	for lv in levels:
		for t in lv.tokens:
			k = 'if-else' if lv.kind == 'ternary' else py_key(t, lv.kind)
			if k not in prec:
				r.note(f'token `{t}` at level {lv.tag} is not a CPython operator (outside the common language)')
				continue
			toks.append((k, lv.depth, lv.tag))
	missing = sorted(k for k in prec if k not in {t for t, _, _ in toks} and k not in ('lambda',))
	r.note(f'CPython operators the grammar does not define (outside the supported grammar): {missing}')
	for i, (a, da, ta) in enumerate(toks):
		for b, db, tb in toks[i + 1:]:
			key = f'{a}@{ta} vs {b}@{tb}'
			ok = (da < db) == (prec[a] < prec[b]) and (da == db) == (prec[a] == prec[b])
			r.check(ok, key, where, f'grammar puts `{a}` at level {da} ({ta}) and `{b}` at level {db} ({tb}) but CPython precedence is {prec[a]} vs {prec[b]}: an expression mixing them groups differently from ast.parse')
	for lv in levels:
		if lv.kind == 'binary':
			rs.check(lv.operand != lv.rule, f'{lv.tag}:flat', where, f'binary level {lv.rule} takes ITSELF as the right operand of its operators ({lv.tokens[:4]}...): a chain is no longer one flat node but nests to the right — `a < b < c` becomes Comparison(a, <, Comparison(b, <, c)) where CPython builds one Compare with two operators (and `a - b - c` would group as a - (b - c))')
		elif lv.kind == 'prefix':
			rs.check(lv.operand == lv.rule, f'{lv.tag}:prefix-recursive', where, f'unary level {lv.rule} does not recurse on itself: `- -a` / `not not a` would not parse as nested unary operators')
		elif lv.kind == 'ternary':
			rs.check(lv.tokens == ['if-else'], f'{lv.tag}:else-recursive', where, f'the conditional expression of {lv.rule} is not `Y "if" Y "else" {lv.rule}` ({lv.tokens[0]}): `a if b else c if d else e` groups as `(a if b else c) if d else e` (CPython: `a if b else (c if d else e)`), or an operand is parsed on the wrong level')
	order = [lv.depth for lv in levels]
	rs.check(order == sorted(order), 'levels-ordered', where, f'ladder depths are not monotone: {order}')


# ---- (b) child selectors --------------------------------------------------------------------------------------------------

class Shapes:
	def __init__(self, idx: SourceIndex, nm: NodeModel, gm: GrammarModel) -> None:
		self.idx, self.nm, self.gm = idx, nm, gm
		self.prods = gm.productions()
		self.t2c = nm.tag_to_classes()
		self.empty_cls = nm.by_name.get('Empty')

	def classes_for(self, tags) -> list[ClassInfo]:
		out = []
		for t in tags:
			if t == EMPTY:
				if self.empty_cls:
					out.append(self.empty_cls)
			else:
				out.extend(self.t2c.get(t, [self.nm.fallback]))
		return out

	def child_tags(self, tags: set[str]) -> set[str]:
		out = set()
		for t in tags:
			out |= self.gm.child_tags(t)
		return out

	def slots_at(self, tags: set[str], i: int) -> tuple[list[Slot], list[str]]:
		"""slots a constant index can denote over all productions of the tags; problems = productions where the index does not exist"""
		slots, problems = [], []
		for t in sorted(tags):
			for p in self.prods.get(t, []):
				if i >= 0:
					pre = self.gm.fixed_prefix(p)
					if i < pre:
						slots.append(p[i])
					elif i == pre and pre < len(p) and p[pre].mult == 'many':
						slots.append(Slot(p[pre].tags, 'one'))
					elif i < len(p) or self.gm.has_many(p):
						# behind a repeated slot: position shifts with the repetition count
						slots.extend(p[pre:])
						if i >= len(p) and not self.gm.has_many(p):
							problems.append(f'{t}: {p}')
					else:
						problems.append(f'{t}: {p}')
				else:
					k = -i
					suf = 0
					for s in reversed(p):
						if s.mult == 'many':
							break
						suf += 1
					if k <= suf:
						slots.append(p[len(p) - k])
					elif self.gm.has_many(p):
						slots.extend(p)
					else:
						problems.append(f'{t}: {p}')
		return slots, problems


def rule_b(rep: Report, idx: SourceIndex, nm: NodeModel, gm: GrammarModel) -> None:
	r1 = rep.rule('C02/selector-path-exists', 'every element of a relative path used in _by/_exists/_children is a possible child tag of its parent tag, for every tag the class is mapped to', floor=60)
	r3 = rep.rule('C02/selector-index-exists', 'every constant child index exists in every production of the tag (unless the access is length/exists-guarded)', floor=30)
	r4 = rep.rule('C02/selector-class-satisfiable', 'every class assertion on a selected child can be met by a class the dispatch table produces for that slot; Empty is listed when the slot can be a placeholder', floor=40)
	r2 = rep.rule('C02/selector-presence', 'elements addressed by plain tag that some production omits or repeats (NodeNotFound for that form)', floor=1, armed=False)
	sh = Shapes(idx, nm, gm)
	sh.probe_results = {}
	for c in nm.mapped_classes():
		tags = set(nm.tags_of(c)) or ({'<fallback>'} if c is nm.fallback else set())
		if not tags or c is nm.fallback:
			continue
		names = set()
		for k in idx.mro(c):
			names.update(k.methods)
		for name in sorted(names):
			f = idx.lookup(c, name)
			if f is None or f.cls is None or not nm.is_node_class(f.cls) or f.cls is nm.node_cls:
				continue
			_check_function(sh, c, tags, f, r1, r2, r3, r4)
	# an _exists probe (and accesses guarded by it) may legitimately be impossible for some of the classes sharing the function; it must be possible for at least one
	for (fid, path), (possible, where, text) in sh.probe_results.items():
		if possible:
			r1.ok(f'probe:{text}', where)
		else:
			r1.ok(f'probe:{text}', where, message='existence probe that is false for every class resolving to it (a base-class default): harmless')
			r1.note(f'`{text}`: _exists probe never matches for the classes that resolve to it (base-class default, returns the empty answer)')


def _guarded(f: FuncInfo | None) -> bool:
	if f is None:
		return False
	src = unparse(f.node)
	return 'len(' in src or '_exists(' in src


def _check_function(sh: Shapes, c: ClassInfo, tags: set[str], f: FuncInfo, r1, r2, r3, r4) -> None:
	where_of = lambda n: (f.module.relpath, n.lineno)
	root_names = {'self', 'via'} if f.name == 'match_feature' else {'self'}
	mf = sh.nm.match_feature(c)
	guarded = _guarded(f) or (mf is not None and mf.cls is not sh.nm.node_cls and _guarded(mf))
	probed = {const_str(n.args[0]) for n in ast.walk(f.node) if isinstance(n, ast.Call) and isinstance(n.func, ast.Attribute) and n.func.attr == '_exists' and n.args and const_str(n.args[0]) is not None}
	memo: dict[int, tuple[set[str], bool] | None] = {}

	def path_target(base: set[str], path: str, node: ast.AST, kind: str) -> set[str] | None:
		cur = set(base)
		for e in path.split('.'):
			tag = e.split('[')[0]
			kids = sh.child_tags(cur)
			key = f'{c.name}.{f.name}:{kind}({path!r}):{tag}'
			if tag in kids:
				r1.ok(key, where_of(node))
				if path in probed:
					sh.probe_results[(id(f), path)] = (True, where_of(node), f'{f.cls.name}.{f.name}:{path}')
			elif path in probed:
				# existence-guarded: impossible for this class is fine, judged over all classes sharing the function
				pk = (id(f), path)
				if pk not in sh.probe_results:
					sh.probe_results[pk] = (False, where_of(node), f'{f.cls.name}.{f.name}:{path}')
				return None
			else:
				r1.violate(key, where_of(node), f'{f.cls.name}.{f.name} (as {c.name}, tags {sorted(base)}) addresses `{path}`, but `{tag}` is never a child of {sorted(cur)} in data/grammar.lark: the selector can never match', unparse(node)[:120])
				return None
			# presence report
			absent = [t for t in cur for p in sh.prods.get(t, []) if not any(tag in s.tags for s in p)]
			if absent and kind == '_by':
				r2.violate(key, where_of(node), f'`{tag}` is absent in some production of {sorted(set(absent))}: _by raises NodeNotFound for that form (reported, not armed)')
			cur = {tag}
		return cur

	def tags_of(e: ast.AST) -> tuple[set[str], bool] | None:
		"""(tags the expression's node can have, may be a placeholder)"""
		if id(e) in memo:
			return memo[id(e)]
		res = None
		if isinstance(e, ast.Name) and e.id in root_names:
			res = (set(tags), False)
		elif isinstance(e, ast.Call) and isinstance(e.func, ast.Attribute):
			m = e.func.attr
			if m in ('as_a', 'one_of') :
				res = tags_of(e.func.value)
			elif m == '_by' and e.args and const_str(e.args[0]) is not None:
				b = tags_of(e.func.value)
				if b is not None:
					t = path_target(b[0], const_str(e.args[0]), e, '_by')
					res = (t, False) if t else None
			elif m == '_at' and e.args:
				b = tags_of(e.func.value)
				i = _const_int(e.args[0])
				if b is not None and i is not None:
					res = index(b[0], i, e)
		elif isinstance(e, ast.Subscript):
			i = _const_int(e.slice)
			v = e.value
			base = None
			if i is not None:
				if isinstance(v, ast.Call) and isinstance(v.func, ast.Attribute) and v.func.attr == '_children':
					b = tags_of(v.func.value)
					if b is not None:
						if v.args and const_str(v.args[0]) is not None:
							t = path_target(b[0], const_str(v.args[0]), v, '_children')
							base = t
						elif not v.args:
							base = b[0]
				elif isinstance(v, ast.Attribute) and v.attr == '_elements' and isinstance(v.value, ast.Name) and v.value.id == 'self':
					base = set(tags)
				elif isinstance(v, ast.Attribute) and isinstance(v.value, ast.Name) and v.value.id == 'self':
					# self.<list property>[i] where the property is an unfiltered comprehension over self._children(path)
					g = sh.idx.lookup(c, v.attr)
					if g is not None and g.is_property:
						rets = [x.value for x in walk_no_nested(g.node) if isinstance(x, ast.Return)]
						if len(rets) == 1 and isinstance(rets[0], ast.ListComp) and len(rets[0].generators) == 1 and not rets[0].generators[0].ifs:
							it = rets[0].generators[0].iter
							if isinstance(it, ast.Call) and isinstance(it.func, ast.Attribute) and it.func.attr == '_children' and isinstance(it.func.value, ast.Name) and it.func.value.id == 'self':
								if it.args and const_str(it.args[0]) is not None:
									base = path_target(set(tags), const_str(it.args[0]), v, '_children')
								elif not it.args:
									base = set(tags)
				if base:
					res = index(base, i, e)
		memo[id(e)] = res
		return res

	def index(base: set[str], i: int, node: ast.AST) -> tuple[set[str], bool] | None:
		slots, problems = sh.slots_at(base, i)
		key = f'{c.name}.{f.name}:{unparse(node)[:60]}'
		if problems and not guarded:
			r3.violate(key, where_of(node), f'{f.cls.name}.{f.name} (as {c.name}) reads child index {i} of {sorted(base)}, which does not exist in production(s) {problems[:2]}: NodeNotFound/IndexError for that form, or a different child after a grammar edit', unparse(node)[:120])
		else:
			r3.ok(key, where_of(node), message='guarded by a length/exists test' if problems else '')
		if not slots:
			return None
		out: set[str] = set()
		for s in slots:
			out |= set(s.tags)
		return out, any(s.mult == 'none' for s in slots)

	for n in ast.walk(f.node):
		# plain path selectors
		if isinstance(n, ast.Call) and isinstance(n.func, ast.Attribute) and n.func.attr in ('_exists', '_children') and n.args and const_str(n.args[0]) is not None:
			b = tags_of(n.func.value)
			if b is not None:
				path_target(b[0], const_str(n.args[0]), n, n.func.attr)
		if isinstance(n, ast.Call) and isinstance(n.func, ast.Attribute) and n.func.attr in ('as_a', 'one_of'):
			inner = tags_of(n.func.value)
			if inner is None:
				continue
			slot_tags, may_empty = inner
			wanted = [sh.idx.resolve_class(f.module, a) for a in n.args]
			wanted = [w for w in wanted if w is not None]
			if not wanted:
				continue
			cands = sh.classes_for(slot_tags - {EMPTY})
			key = f'{c.name}.{f.name}:{unparse(n)[:70]}'
			ok = any(w in sh.idx.mro(k) for k in cands for w in wanted) if cands else True
			r4.check(ok, key, where_of(n), f'{f.cls.name}.{f.name} (as {c.name}) asserts {[w.name for w in wanted]} on a child whose tags {sorted(slot_tags)} map to {sorted({k.name for k in cands})}: no dispatchable class satisfies the assertion (IllegalConvertion for every input)', unparse(n)[:120])
			if may_empty and EMPTY in slot_tags and not guarded:
				has_empty = any(w.name == 'Empty' for w in wanted)
				r4.check(has_empty, key + ':placeholder', where_of(n), f'the selected slot can be an absent-optional placeholder (__empty__) but {[w.name for w in wanted]} does not admit Empty', unparse(n)[:120])
		if isinstance(n, ast.Call) and isinstance(n.func, ast.Attribute) and n.func.attr in ('_at', '_by'):
			tags_of(n)
		if isinstance(n, ast.Subscript):
			tags_of(n)


def _const_int(e: ast.AST) -> int | None:
	if isinstance(e, ast.Constant) and isinstance(e.value, int) and not isinstance(e.value, bool):
		return e.value
	if isinstance(e, ast.UnaryOp) and isinstance(e.op, ast.USub) and isinstance(e.operand, ast.Constant) and isinstance(e.operand.value, int):
		return -e.operand.value
	return None


# ---- (c) dispatch order -------------------------------------------------------------------------------------------------------

def rule_c(rep: Report, idx: SourceIndex, nm: NodeModel, gm: GrammarModel) -> None:
	r = rep.rule('C02/dispatch-order', 'per tag: a class whose match_feature is unconditional is the last candidate; every mapped tag is producible by the grammar; no class twice per tag', floor=100)
	base_mf = nm.node_cls.method('match_feature')
	producible = gm.tags() | {EMPTY}
	# token names and tags that only appear as children
	for p in gm.productions().values():
		for prod in p:
			for s in prod:
				producible |= set(s.tags)
	res_mod = idx.mod('rogw/tranp/syntax/node/resolver.py')
	rep.consulted(res_mod.relpath, 'rogw/tranp/syntax/ast/resolver.py')
	rs = unparse(res_mod.tree)
	if 'match_feature' not in rs:
		raise AnalysisError('syntax/node/resolver.py no longer consults match_feature')

	def unconditional(c: ClassInfo) -> bool:
		mf = nm.match_feature(c)
		if mf is None or mf is base_mf:
			return True
		body = [s for s in mf.node.body if not (isinstance(s, ast.Expr) and isinstance(s.value, ast.Constant))]
		return len(body) == 1 and isinstance(body[0], ast.Return) and isinstance(body[0].value, ast.Constant) and body[0].value.value is True

	for tag, classes in nm.tag_to_classes().items():
		line = next((ln for k, tags, ln in nm.mapping if tag in tags), 1)
		where = ('rogw/tranp/providers/syntax/resolver.py', line)
		r.check(tag in producible, f'tag:{tag}:producible', where, f'tag `{tag}` is mapped to {[c.name for c in classes]} but data/grammar.lark can never produce it')
		r.check(len({id(c) for c in classes}) == len(classes), f'tag:{tag}:unique', where, f'a class is listed twice for tag `{tag}`')
		for i, c in enumerate(classes[:-1]):
			if unconditional(c):
				r.violate(f'tag:{tag}:{c.name}-shadows', where, f'{c.name} accepts every `{tag}` entry (unconditional match_feature) but is listed before {[k.name for k in classes[i + 1:]]}: those classes are unreachable, so nodes are classified differently from Python semantics', f'{c.name}: {tag}')
			else:
				r.ok(f'tag:{tag}:{c.name}', where)
		r.ok(f'tag:{tag}:last={classes[-1].name}', where)
	# the resolver takes the first accepting class in registration order
	from checks.c10 import first_accepting
	verdict, msg = first_accepting(idx)
	if verdict == 'skip':
		r.skip('first-match', ('rogw/tranp/syntax/node/resolver.py', 1), msg)
	else:
		r.check(verdict == 'ok', 'first-match', ('rogw/tranp/syntax/node/resolver.py', 1), msg)


# ---- (d) dropped children (report) ----------------------------------------------------------------------------------------------

def rule_d(rep: Report, idx: SourceIndex, nm: NodeModel, gm: GrammarModel) -> None:
	r = rep.rule('C02/no-dropped-child', 'a repeated slot must not be read through a constant index only (later repetitions would be silently dropped)', floor=3)
	prods = gm.productions()
	for c in nm.mapped_classes():
		for tag in nm.tags_of(c):
			for p in prods.get(tag, []):
				many = [i for i, s in enumerate(p) if s.mult == 'many']
				if not many:
					continue
				keys = nm.prop_keys(c)
				if not keys:
					continue
				funcs = [nm.prop_func(c, k) for k in keys]
				# does some expandable property read the whole child list (or a sub-path list)?
				reads_all = any(f is not None and any(isinstance(n, ast.Call) and isinstance(n.func, ast.Attribute) and n.func.attr == '_children' and not _indexed(n, f) for n in ast.walk(f.node)) for f in funcs)
				idx_reads = []
				for f in funcs:
					if f is None:
						continue
					for n in ast.walk(f.node):
						if isinstance(n, ast.Subscript) and _const_int(n.slice) is not None and isinstance(n.value, ast.Attribute) and n.value.attr == '_elements':
							idx_reads.append((f, n, _const_int(n.slice)))
				key = f'{c.name}:{tag}'
				hit = [(f, n, i) for f, n, i in idx_reads if i in many or (i >= 0 and i >= min(many))]
				if hit and not _elements_all(c, idx, nm):
					f, n, i = hit[0]
					r.violate(f'{key}:{f.name}', (f.module.relpath, n.lineno), f'{c.name}.{f.name} reads `{unparse(n)}` of `{tag}`, whose production {p} repeats that slot: only the first repetition reaches the node tree, later ones are silently dropped (e.g. `a = b = 1` keeps `b`, drops `1`)', unparse(n))
				else:
					r.ok(key, c.where)


def _indexed(call: ast.Call, f: FuncInfo) -> bool:
	for n in ast.walk(f.node):
		if isinstance(n, ast.Subscript) and n.value is call and _const_int(n.slice) is not None:
			return True
	return False


def _elements_all(c: ClassInfo, idx: SourceIndex, nm: NodeModel) -> bool:
	"""some expandable property returns the whole `_elements` list"""
	for k in nm.prop_keys(c):
		f = nm.prop_func(c, k)
		if f is not None and any(isinstance(n, ast.Return) and unparse(n.value) in ('self._elements', 'self._children()') for n in ast.walk(f.node)):
			return True
	return False


# ---- (e) declaration matchers discriminate by tag where the grammar mixes declared names and expressions --------------------------

def rule_e(rep: Report, idx: SourceIndex, nm: NodeModel, gm: GrammarModel) -> None:
	"""DeclLocalVar is a candidate for `var` and `name` entries. Under a parent tag where the grammar puts a declared `name` next to an expression that can be a bare
	`var` (with_item: expression ["as" name]), only the `name` entry is a declaration; the matcher must therefore test the entry's own tag."""
	r = rep.rule('C02/decl-matcher-discriminates-tag', 'for every parent tag that DeclableMatcher.is_decl_local_var treats as "identified by name only": if the grammar also allows a `var` (expression) child there, the matcher requires the entry tag to be `name`', floor=2)
	pm = idx.mod('rogw/tranp/syntax/node/definition/primary.py')
	f = pm.func('DeclableMatcher.is_decl_local_var')
	fx = X(f)
	parents: list[str] = []
	tsrc = ''
	requires_name = False
	line = f.node.lineno
	for n in nodes(fx, ast.Return):
		if not (isinstance(n.value, ast.Constant) and n.value.value is True):
			continue
		known = atoms(fx, n)
		for a, p_ in known:
			if p_ and isinstance(a, ast.Compare) and len(a.ops) == 1 and isinstance(a.ops[0], ast.In) and unparse(a.left).endswith('parent_tag'):
				coll = deref(fx, a.comparators[0])
				if isinstance(coll, (ast.List, ast.Tuple, ast.Set)):
					parents = [const_str(e) for e in coll.elts if const_str(e)]
					tsrc = ' and '.join(('' if p2 else 'not ') + unparse(a2) for a2, p2 in known)
					line = n.lineno
					requires_name = any(p2 and isinstance(a2, ast.Compare) and len(a2.ops) == 1 and isinstance(a2.ops[0], ast.Eq) and unparse(a2.left).endswith('last_tag') and const_str(a2.comparators[0]) == 'name' for a2, p2 in known)
	if not parents:
		r.skip('shape', f.where, 'is_decl_local_var no longer has a `parent_tag in (...)` early-accept branch')
		r.floor = 1
		return
	tags = set(nm.tags_of(nm.by_name['DeclLocalVar']))
	requires_name = "last_tag == 'name'" in tsrc
	for p_ in parents:
		kids = gm.child_tags(p_)
		mixed = sorted((kids & tags) - {'name'})
		if not kids:
			r.violate(f'parent:{p_}', f.where, f'`{p_}` is not a tag of data/grammar.lark')
		elif mixed:
			r.check(requires_name, f'parent:{p_}', (pm.relpath, line), f'under `{p_}` the grammar allows {mixed} children (expressions) besides the declared `name`; the early-accept branch `{tsrc}` does not require the entry tag to be `name`, so a bare name used as an expression there (`with lock:`) is classified as a declaration instead of a reference', tsrc)
		else:
			r.ok(f'parent:{p_}', (pm.relpath, line), message='only `name` children can be DeclLocalVar candidates here')


# ---- (f) path tests address the NEAREST enclosing element ----------------------------------------------------------------------------------

def rule_f(rep: Report, idx: SourceIndex, nm: NodeModel, gm: GrammarModel) -> None:
	"""A classification test such as "is this def directly inside a class body" looks at the END of the entry path (elems[-3], last_index_of).
	`elems.index(tag)` finds the OUTERMOST occurrence instead; for a tag that can contain itself (class in class, def in def) that is a different
	element, so nested constructs are classified by their outermost ancestor."""
	r = rep.rule('C02/path-tests-nearest-ancestor', 'no classification test in the node definitions locates a self-nesting tag on an entry path with list.index (first = outermost occurrence); nearest-ancestor tests index from the end', floor=1)
	# tags that can (transitively) contain themselves
	kids = {t: set(gm.child_tags(t)) for t in gm.tags()}
	def reach(t: str) -> set[str]:
		seen: set[str] = set()
		work = list(kids.get(t, ()))
		while work:
			x = work.pop()
			if x in seen:
				continue
			seen.add(x)
			work.extend(kids.get(x, ()))
		return seen
	nesting = {t for t in kids if t in reach(t)}
	r.check(bool(nesting) and 'class_def_raw' in nesting and 'function_def_raw' in nesting, 'self-nesting-tags', (gm.relpath, 1), f'the grammar model finds {len(nesting)} self-nesting tags; class_def_raw / function_def_raw must be among them')
	n_index = 0
	for m in nm.def_mods:
		for q, f in m.functions.items():
			if '#' in q:
				continue
			for c_, tag in _first_occurrence_lookups(f.node):
				n_index += 1
				r.check(tag not in nesting, f'{q}:{unparse(c_)}', (m.relpath, c_.lineno), f'`{unparse(c_)}` takes the FIRST occurrence of `{tag}` on the entry path, i.e. the outermost one; `{tag}` can contain itself, so for a nested construct (class in class, def in a local class) this is not the directly enclosing element and the node is classified by its outermost ancestor (use the end of the path: elems[-k] / last_index_of)', unparse(c_))
	# the expected count on the unchanged tree is zero: keep the recogniser honest with a positive fixture
	import os
	from vlib.core import VERIF
	fxp = os.path.join(VERIF, 'selftest', 'fixtures', 'c02_index_positive.py')
	try:
		with open(fxp) as fh:
			ftree = ast.parse(fh.read())
	except OSError:
		raise AnalysisError('positive fixture selftest/fixtures/c02_index_positive.py missing')
	hits = sorted(tag for fn in ftree.body if isinstance(fn, ast.FunctionDef) for _, tag in _first_occurrence_lookups(fn))
	r.check(hits == ['class_def_raw', 'function_def_raw'], 'positive-fixture', ('selftest/fixtures/c02_index_positive.py', 1), f'the first-occurrence recogniser finds {hits} in the positive fixture (expected the two forward lookups and not the reversed one)')
	r.note(f'{n_index} first-occurrence lookups on entry paths in the node definitions')


def _first_occurrence_lookups(fn_node: ast.AST) -> list[tuple[ast.Call, str]]:
	"""`<path elements>.index('<tag>')` calls: the receiver is `.elements` of a path or a name bound to it, not reversed"""
	paths: set[str] = set()
	for n in ast.walk(fn_node):
		tgt = n.targets[0] if isinstance(n, ast.Assign) and len(n.targets) == 1 else n.target if isinstance(n, ast.AnnAssign) and n.value is not None else None
		if isinstance(tgt, ast.Name) and any(isinstance(x, ast.Attribute) and x.attr == 'elements' for x in ast.walk(n.value)) and not any(isinstance(x, ast.Call) and unparse(x.func) == 'reversed' for x in ast.walk(n.value)) and '::-1' not in unparse(n.value):
			paths.add(tgt.id)
	out = []
	for c_ in ast.walk(fn_node):
		if isinstance(c_, ast.Call) and isinstance(c_.func, ast.Attribute) and c_.func.attr == 'index' and len(c_.args) == 1 and const_str(c_.args[0]) is not None:
			recv = c_.func.value
			if (isinstance(recv, ast.Name) and recv.id in paths) or (isinstance(recv, ast.Attribute) and recv.attr == 'elements'):
				out.append((c_, const_str(c_.args[0])))
	return out


# ---- (g) list-valued child selections decide each child on its own ------------------------------------------------------------------

def rule_g(rep: Report, idx: SourceIndex, nm: NodeModel) -> None:
	"""A node property that hands out a list of syntax children (bases, decorators, parameters, statements, ...) mirrors a list of CPython's tree. Leaving a
	child out is a per-child decision (the `Generic[...]` marker among the bases, the docstring among the statements). A selection loop that stops
	(`break`, `return` inside the loop, takewhile/dropwhile) makes a child's presence depend on the siblings before it: `class B(Generic[T], Base)` loses
	`Base`, which CPython keeps."""
	from checks.c09 import declared_list
	from vlib.fold import enclosing_loop
	from vlib.norm import helper_closure
	r = rep.rule('C02/child-lists-select-elementwise', 'no list-valued property of a node class builds its list of children with a loop that stops early (break / return in the loop / takewhile / dropwhile): every child is kept or left out on its own', floor=40)
	seen = set()
	for c in nm.classes:
		for name, defs in c.methods.items():
			for f in defs:
				if not (f.is_property and declared_list(f)) or id(f) in seen:
					continue
				seen.add(id(f))
				stops = []
				for g in helper_closure(f, 2):
					for lp in [n for n in ast.walk(g.node) if isinstance(n, ast.For)]:
						appends = [n for n in ast.walk(lp) if isinstance(n, ast.Call) and isinstance(n.func, ast.Attribute) and n.func.attr in ('append', 'extend', 'insert')] + [n for n in ast.walk(lp) if isinstance(n, (ast.Yield, ast.YieldFrom))]
						if not appends:
							continue
						for n in ast.walk(lp):
							if isinstance(n, ast.Break) and enclosing_loop(g.node, n) is lp:
								stops.append((g, n, 'break'))
							elif isinstance(n, ast.Return):
								stops.append((g, n, 'return inside the loop'))
					for n in ast.walk(g.node):
						if isinstance(n, ast.Call) and unparse(n.func).split('.')[-1] in ('takewhile', 'dropwhile'):
							stops.append((g, n, unparse(n.func)))
				# dropping children by POSITION (`xs[1:]`) is sound only when the condition looks at that very position (`xs[0].is_a(DocString)`); a
				# condition about something else (a docstring found anywhere in the block) drops whatever happens to stand first
				from vlib.match import atoms as _atoms
				for g in helper_closure(f, 2):
					for sub in [n for n in ast.walk(g.node) if isinstance(n, ast.Subscript) and isinstance(n.slice, ast.Slice)]:
						lo, hi = sub.slice.lower, sub.slice.upper
						drops = (isinstance(lo, ast.Constant) and isinstance(lo.value, int) and lo.value != 0) or (isinstance(hi, (ast.Constant, ast.UnaryOp)))
						if not drops or not isinstance(sub.value, (ast.Name, ast.Attribute, ast.Call)):
							continue
						lst = unparse(sub.value)
						if isinstance(sub.value, ast.Attribute) and sub.value.attr in ('tokens',):
							continue  # a string
						conds = [a for a, _ in _atoms(g.node, sub)]
						par_if = [x for x in ast.walk(g.node) if isinstance(x, ast.IfExp) and any(sub is y for y in ast.walk(x.body)) or isinstance(x, ast.IfExp) and any(sub is y for y in ast.walk(x.orelse))]
						conds += [x.test for x in par_if]
						looks_at_position = any(isinstance(y, ast.Subscript) and unparse(y.value) == lst and not isinstance(y.slice, ast.Slice) for c_ in conds for y in ast.walk(c_))
						if not looks_at_position:
							stops.append((g, sub, f'positional slice `{unparse(sub)[:50]}` under {[unparse(c_)[:50] for c_ in conds] or "no condition"}'))
				key = f'{c.name}.{name}'
				if stops:
					g, n, how = stops[0]
					r.violate(key, (g.module.relpath, n.lineno), f'{c.name}.{name} selects its children by position rather than one by one ({how}): a child is dropped because of where it stands (after the element that stops the loop, or first in the list), not because of what it is, although CPython keeps it (a base class listed after `Generic[T]`; the first statement of a body whose docstring comes later)', unparse(n)[:80])
				else:
					r.ok(key, f.where)


# ---- (h) classification by decorator does not depend on the decorator's position ----------------------------------------------------

def rule_h(rep: Report, idx: SourceIndex, nm: NodeModel) -> None:
	"""Python applies every decorator of the list; `@override @classmethod def f(cls)` is a class method exactly like `@classmethod @override`. A
	match_feature / classification property that reads ONE position of the decorator list (decorators[0]) classifies by position."""
	from vlib.match import FI, nodes
	r = rep.rule('C02/decorator-tests-any-position', 'no match_feature / classification property of a node class reads the decorator list through a constant index: a decorator is searched in the whole list', floor=3)
	n_sites = 0
	for c in nm.classes:
		for name, defs in c.methods.items():
			for f in defs:
				src = unparse(f.node)
				if 'decorators' not in src:
					continue
				fx = FI(f)
				reads = [n for n in nodes(fx, (ast.Call, ast.Attribute)) if (isinstance(n, ast.Call) and isinstance(n.func, ast.Attribute) and n.func.attr == '_children' and n.args and isinstance(n.args[0], ast.Constant) and n.args[0].value == 'decorators') or (isinstance(n, ast.Attribute) and n.attr == 'decorators')]
				if not reads:
					continue
				n_sites += 1
				key = f'{c.name}.{name}'
				bad = []
				for sub in nodes(fx, ast.Subscript):
					if isinstance(sub.slice, ast.Slice):
						continue
					if _const_int(sub.slice) is None:
						continue
					base = sub.value
					# the subscripted value is the decorator list itself (possibly behind `... if exists else []`), not a filtered copy
					direct = [base] if not isinstance(base, ast.IfExp) else [base.body, base.orelse]
					if any(any(d is r_ or unparse(d) == unparse(r_) for r_ in reads) for d in direct):
						bad.append(sub)
				if bad:
					r.violate(key, (f.module.relpath, bad[0].lineno), f'{c.name}.{name} reads `{unparse(bad[0])[:90]}`: one fixed position of the decorator list. Python applies decorators in any order (`@override @classmethod def make(cls)`), so the node is classified by where the decorator stands, not by whether it is present', unparse(bad[0])[:100])
				else:
					r.ok(key, f.where)
	if n_sites == 0:
		r.skip('decorator-reads', None, 'no node class reads its decorators')


def rule_this_var_depth(rep: Report, idx: SourceIndex) -> None:
	"""An instance variable is declared by `self.<name> = ...` directly in `__init__`; DeclThisVar is a TERMINAL node — its text is taken as the name and
	nothing below it is walked. `self.a.b = v`, `self.xs[i].b = v`, `self.f(k).b = v` are attribute / index / call chains on `self.a`, and CPython's
	tree has an Attribute chain there. The matcher must therefore accept the two-element text `self.<name>` and nothing longer (or shorter). Decided by
	evaluating the conjuncts of is_decl_this_var that depend on the token text alone, for `self`, `self.a`, `self.a.b`, `self.a.b.c`, `other.a`."""
	from vlib import dsneval
	r = rep.rule('C02/this-var-declaration-is-one-attribute-deep', 'the token-text conjuncts of DeclableMatcher.is_decl_this_var hold for `self.a` and fail for `self`, `self.a.b`, `self.a.b.c` and `other.a`', floor=5)
	pm_ = idx.mod('rogw/tranp/syntax/node/definition/primary.py')
	f = pm_.func('DeclableMatcher.is_decl_this_var')
	dsn_cls = idx.mod('rogw/tranp/dsn/dsn.py').cls('DSN')
	if f is None:
		r.skip('is_decl_this_var', (pm_.relpath, 1), 'DeclableMatcher.is_decl_this_var vanished')
		return
	if dsn_cls is None:
		r.skip('is_decl_this_var', f.where, 'class DSN vanished')
		r.floor = 1
		return
	via = f.params()[1] if len(f.params()) > 1 else 'via'
	rets = [n for n in walk_no_nested(f.node) if isinstance(n, ast.Return) and n.value is not None and not (isinstance(n.value, ast.Constant) and n.value.value is False)]
	if len(rets) != 1:
		r.skip('is_decl_this_var', f.where, 'is_decl_this_var no longer ends in one conjunction')
		return
	expect = {'self': False, 'self.a': True, 'self.a.b': False, 'self.a.b.c': False, 'other.a': False}

	def reads_text(e: ast.AST, depth: int = 0) -> bool:
		if f'{via}.tokens' in unparse(e):
			return True
		if depth > 4:
			return False
		for x in ast.walk(e):
			if isinstance(x, ast.Name) and isinstance(x.ctx, ast.Load):
				for a in ast.walk(f.node):
					if isinstance(a, (ast.Assign, ast.AnnAssign)) and a.value is not None and any(isinstance(y, ast.Name) and y.id == x.id for t in (a.targets if isinstance(a, ast.Assign) else [a.target]) for y in ast.walk(t)):
						if reads_text(a.value, depth + 1):
							return True
		return False

	top = rets[0].value
	conjuncts_ = list(top.values) if isinstance(top, ast.BoolOp) and isinstance(top.op, ast.And) else [top]
	text_conj = []
	for c_ in conjuncts_:
		vals = {t: dsneval.evaluate(f.node, c_, {f'{via}.tokens': t}, dsn_cls) for t in expect}
		if all(v is dsneval.UNKNOWN for v in vals.values()):
			if reads_text(c_):
				r.skip('is_decl_this_var', f.where, f'the conjunct `{unparse(c_)[:60]}` reads the token text in a way this check does not evaluate')
				r.floor = 1
				return
			continue  # a conjunct about the position in the tree
		if any(v is dsneval.UNKNOWN for v in vals.values()):
			r.skip('is_decl_this_var', f.where, f'the conjunct `{unparse(c_)[:60]}` is evaluable for some token texts only')
			r.floor = 1
			return
		text_conj.append(vals)
	if not text_conj:
		r.skip('reads-the-text', f.where, 'no conjunct of is_decl_this_var reads the token text')
		r.floor = 1
		return
	for text, want in expect.items():
		got = all(bool(v[text]) for v in text_conj)
		what = 'accepts' if got else 'rejects'
		r.check(got == want, f'tokens:{text}', (pm_.relpath, rets[0].lineno), f'is_decl_this_var {what} the assignment target `{text}` in __init__ (as far as its text goes)' + (': a target deeper than `self.<name>` becomes ONE DeclThisVar leaf named `a.b` — the inner attribute / index / call nodes (and the ThisRef) are not in the tree, where CPython has Attribute(Attribute(Name self, a), b); `self.conf.debug = True`, `self.xs[i].b = v` declare variables called `conf.debug`, `xs.i.b`' if got and not want else ': the plain declaration `self.a = ...` is no longer recognised' if want and not got else ''), unparse(rets[0])[:120])


def rule_number_kinds(rep: Report, idx: SourceIndex, nm: NodeModel, gm: GrammarModel) -> None:
	"""A `number` entry is resolved to the FIRST class of the dispatch table whose match_feature accepts it (Integer before Float). CPython's tree has
	Constant(int) or Constant(float) by the KIND of the literal, not by the characters it happens to contain: `1e5`, `2E-3` are floats without a
	decimal point. Decided on representatives of every number terminal of the grammar: the terminal each text belongs to is found with the grammar's own
	regular expressions, the class test is evaluated (vlib/dsneval.py; `Terminal.match_terminal(via, allow_tags=L)` reads as `terminal in L`), and the
	first accepting class is compared with the type CPython gives the literal."""
	import copy
	import re as _re
	from vlib import dsneval
	r = rep.rule('C02/number-literals-classified-by-token-kind', 'for representatives of every number terminal: the first class of the `number` dispatch list whose match_feature accepts the token is Integer for a CPython int and Float for a CPython float', floor=5)
	classes = nm.tag_to_classes().get('number', [])
	if len(classes) < 2:
		r.skip('number', (gm.relpath, 1), f'the tag `number` maps to {len(classes)} node classes')
		r.floor = 1
		return
	terms = [t for t in ('HEX_NUMBER', 'FLOAT_NUMBER', 'DEC_NUMBER', 'OCT_NUMBER', 'BIN_NUMBER', 'IMAG_NUMBER') if gm.term_patterns.get(t) is not None]
	texts = ['12', '0', '0x1F', '1.5', '1e5', '2E-3', '3e+8', '.5', '1.', '1.5e-3']
	want_cls = {'int': 'Integer', 'float': 'Float'}

	def terminal_of(text: str) -> str | None:
		for t in terms:
			try:
				if _re.fullmatch(gm.term_patterns[t].to_regexp(), text):
					return t
			except Exception:
				return None
		return None

	for text in texts:
		term = terminal_of(text)
		want = want_cls.get(type(ast.literal_eval(text)).__name__)
		if term is None or want is None:
			r.skip(f'number:{text}', (gm.relpath, 1), f'`{text}` matches no number terminal of the grammar')
			continue
		chosen = None
		undecided = False
		for c in classes:
			mf = idx.lookup(c, 'match_feature')
			if mf is None or mf.cls is None or mf.cls.name == 'Node':
				chosen = chosen or c.name
				break
			via = mf.params()[1] if len(mf.params()) > 1 else 'via'
			rets = [x.value for x in walk_no_nested(mf.node) if isinstance(x, ast.Return) and x.value is not None]
			if len(rets) != 1:
				undecided = True
				break
			e = copy.deepcopy(rets[0])

			class T(ast.NodeTransformer):
				def visit_Call(self, n: ast.Call):
					self.generic_visit(n)
					if unparse(n.func).endswith('match_terminal'):
						tags = next((kw.value for kw in n.keywords if kw.arg == 'allow_tags'), n.args[1] if len(n.args) > 1 else None)
						if isinstance(tags, ast.Name):
							tags = deref(mf.node, tags)  # `integer_tags = [...]` before the return
						if isinstance(tags, (ast.List, ast.Tuple)) and all(isinstance(x, ast.Constant) for x in tags.elts):
							return ast.Constant(value=term in [x.value for x in tags.elts])
					return n
			v = dsneval.evaluate(mf.node, T().visit(e), {f'{via}.tokens': text})
			if v is dsneval.UNKNOWN:
				undecided = True
				break
			if v:
				chosen = c.name
				break
		if undecided:
			r.skip(f'number:{text}', (gm.relpath, 1), f'a match_feature of {[c.name for c in classes]} is outside the evaluated subset')
			continue
		r.check(chosen == want, f'number:{text}', classes[0].where, f'the literal `{text}` (terminal {term}) is resolved to {chosen}: CPython parses it as a {type(ast.literal_eval(text)).__name__} — Constant({text}) — so the node tree has an {chosen} where the reference tree has a {want} (and `scale = {text}` is declared `int scale`)', f'{text}: {term} -> {chosen}')


def rule_position_tests(rep: Report, idx: SourceIndex, nm: NodeModel) -> None:
	"""Whether a `string` entry is a DocString is a question about its POSITION (an expression statement directly in a block), as is every other
	classification by context: the tests name a definite place on the entry path (the parent tag, an index from the end). A membership test over the
	whole path — `path.contains('block')`, `'block' in path.elements` — holds for everything BELOW such a place: every triple-quoted string used as a
	value anywhere inside a function body becomes a DocString (CPython: a plain Constant) and its text is rendered as a comment. Expected count on the
	tree: zero; the recogniser runs on a positive example on every run."""
	r = rep.rule('C02/classification-tests-name-a-position', 'no match_feature (nor DeclableMatcher test) decides by membership of a tag anywhere on the entry path (EntryPath.contains, `tag in <path>.elements`)', floor=0)

	def sites(tree: ast.AST):
		for n in ast.walk(tree):
			if isinstance(n, ast.Call) and isinstance(n.func, ast.Attribute) and n.func.attr == 'contains' and n.args and isinstance(n.args[0], ast.Constant) and isinstance(n.args[0].value, str) and 'path' in unparse(n.func.value):
				yield n
			elif isinstance(n, ast.Compare) and len(n.ops) == 1 and isinstance(n.ops[0], (ast.In, ast.NotIn)) and isinstance(n.left, ast.Constant) and isinstance(n.left.value, str) and unparse(n.comparators[0]).endswith('.elements') and 'path' in unparse(n.comparators[0]):
				yield n
	fixture = ast.parse("def match_feature(cls, via):\n\treturn via._full_path.contains('block') or 'block' in via._full_path.de_identify().elements\n")
	if len(list(sites(fixture))) != 2:
		raise AnalysisError('C02/classification-tests-name-a-position: the recogniser no longer matches its positive example')
	n_ = 0
	for c in nm.classes + [nm.node_cls]:
		for name, defs in c.methods.items():
			if name != 'match_feature':
				continue
			for f in defs:
				for n in sites(f.node):
					n_ += 1
					r.violate(f'{c.name}.match_feature:{unparse(n)[:40]}', (f.module.relpath, n.lineno), f'{c.name}.match_feature decides with `{unparse(n)[:70]}`: true for an entry ANYWHERE below such a tag, not for one at a definite position — every `{c.name}` candidate inside a function / class / flow body qualifies (a triple-quoted string used as a value becomes a DocString, CPython has a Constant), and the classes listed after {c.name} for the tag are never asked', unparse(n)[:100])
	dm = idx.mod('rogw/tranp/syntax/node/definition/primary.py').cls('DeclableMatcher')
	for defs in (dm.methods.values() if dm else []):
		for f in defs:
			for n in sites(f.node):
				n_ += 1
				r.violate(f'DeclableMatcher.{f.name}:{unparse(n)[:40]}', (f.module.relpath, n.lineno), f'DeclableMatcher.{f.name} decides with `{unparse(n)[:70]}`, a test over the whole entry path instead of a definite position', unparse(n)[:100])
	if n_ == 0:
		r.ok('no-membership-tests', None, message='no classification test ranges over the whole entry path')
