"""C04 — output is deterministic and independent of session history: structural clauses
(a load/unload store pairing, b no hash-seed/address dependence, c process-global mutable state inventory, d dependency stack balance)."""
from __future__ import annotations

import ast
import os

from vlib.core import VERIF, AnalysisError, Report
from vlib.flow import enclosing_tries, handler_types, parent_map
from vlib.match import closure_fi, deref, has_call, nodes
from vlib.srcindex import ModuleInfo, SourceIndex, attr_chain, const_str, mangle, unparse, walk_no_nested
from vlib.stores import effects_of, stores_of

EXPLANATION = (
	'(a) every per-module store written on the load path (Modules.__modules, Entrypoints.__entrypoints, SymbolDB.__items/__paths/__completed) is deleted from on the unload path, and Modules.unload reaches all of them '
	'(Modules.unload -> ModuleLoader.unload -> Entrypoints.unload + SymbolDB.unload); other long-lived stores are listed with the reason they are history-safe. '
	'(b) no set/frozenset construction or set algebra, no id()/hash() outside the frozen allow-list (repr, __hash__, memo keys, cache identity of in-memory modules), no unsorted directory listing feeding output — expected count zero, '
	'with a positive fixture that must match on every run so the rule cannot go blind. '
	'(c) the inventory of process-global mutation (setattr on classes, class-level/module-level containers mutated after import, mutable defaults mutated in the body) may not grow beyond the reviewed list. '
	'(d) Py2Cpp.transpile pushes and pops its dependency stack once each. Equality of outputs across histories and hash seeds is not decided.'
)
ASSUMPTIONS = ['string/dict iteration order is insertion order (CPython guarantee); only sets, ids and hashes can make output depend on the hash seed or addresses', 'per-module objects (Nodes, NodeResolver, Memoize) live in the per-module DI container created at load']
TRUSTED_BASE = ['CPython ast', 'vlib/stores.py']

SCAN_EXCLUDE = ('rogw/tranp/test/', 'rogw/tranp/compatible/', 'rogw/tranp/bin/analyze.py', 'rogw/tranp/bin/ast_check.py', 'rogw/tranp/bin/gram_check.py', 'rogw/tranp/bin/j2_check.py', 'rogw/tranp/lang/profile.py', 'rogw/tranp/lang/trace.py')

ID_HASH_ALLOW = {
	'rogw/tranp/semantics/reflection/reflection.py:ReflectionBase.__eq__': 'equality via __hash__ of (types, attrs): value-based, compared within one process only',
	'rogw/tranp/semantics/reflection/reflection.py:ReflectionBase.__hash__': '__hash__ of value tuple; used for dict membership only (dicts keep insertion order)',
	'rogw/tranp/implements/syntax/tranp/rule.py:Patterns.__repr__': 'debug repr',
	'rogw/tranp/implements/syntax/tranp/rule.py:Rules.recursive_of': 'memo key of a pattern object inside one Rules instance (never printed, never ordered)',
	'rogw/tranp/implements/syntax/tranp/ast.py:ASTToken.__hash__': '__hash__ of simplified value',
	'rogw/tranp/implements/syntax/tranp/ast.py:ASTTree.__hash__': '__hash__ of simplified value',
	'rogw/tranp/implements/syntax/tranp/token.py:Token.__hash__': '__hash__ of simplified value',
	'rogw/tranp/syntax/node/embed.py:<module>': 'attribute name suffix computed once at import; only used as a getattr key',
	'rogw/tranp/syntax/node/node.py:Node.__hash__': '__hash__ of (module_path, full_path)',
	'rogw/tranp/module/module.py:Module.identity': 'identity of a module that exists only in memory: cache key only (such modules are never stored), not part of any output',
	'rogw/tranp/dsn/module.py:ModuleDSN.__hash__': '__hash__ of the dsn string',
	'rogw/tranp/lang/defer.py:Defer.__repr__': 'debug repr',
	'rogw/tranp/lang/typehint.py:Typehint.__repr__': 'debug repr',
}
LISTING_ALLOW = {
	'rogw/tranp/cache/cache.py:CachedProxy.find_oldest': 'older cache files to unlink; order irrelevant',
	'rogw/tranp/semantics/reflection/persistent.py:SymbolDBPersistor._find_oldest': 'older symbol files to unlink; order irrelevant',
	'rogw/tranp/module/includer.py:include_module_paths': 'lists transpile targets; each target is transpiled independently (target order is one of the histories the property quantifies over, decided by rule a)',
}
GLOBAL_MUTATION_ALLOW = {
	'rogw/tranp/syntax/node/node.py:Node.prop_keys:setattr': 'per-class cache of prop_keys; key contains the class name, value is a pure function of class-level metadata (verified below)',
	'rogw/tranp/syntax/node/embed.py:Meta.embed.<locals>.decorator:setattr': 'metadata registration at import (decorator) time only',
}
OTHER_STORES = {
	'FileLoader.__hashs': 'content hash per resolved file path; refreshed on every load(), read only through hash()',
	'FileLoader.__mtimes': 'mtime per resolved file path, used only in cache identities within one run',
	'CacheProvider.__instances': 'keyed by identifier(cache key + identity incl. mtimes): content-addressed',
	'NodeResolver.__insts': 'per-module DI instance; keyed by path within that module',
	'Nodes.__memo': 'per-module DI instance',
}


def scan_files(idx: SourceIndex) -> list[str]:
	return [p for p in idx.all_py(('rogw',)) if not p.startswith(SCAN_EXCLUDE)]


def run(rep: Report, tier: str) -> None:
	idx = SourceIndex()
	rule_a(rep, idx)
	rule_b(rep, idx)
	rule_c(rep, idx)
	rule_d(rep, idx)
	rule_e(rep, idx)
	rule_f(rep, idx)
	rule_g(rep, idx)
	rule_h(rep, idx)
	rule_template_module_state(rep)


# ---- (a) load / unload pairing ------------------------------------------------------------------------------------

def rule_a(rep: Report, idx: SourceIndex) -> None:
	r = rep.rule('C04/load-unload-pairing', 'every per-module store written on the load path is deleted from by the owning class\'s unload, and Modules.unload reaches every owner', floor=8)
	mods = idx.mod('rogw/tranp/module/modules.py')
	prov = idx.mod('rogw/tranp/providers/module.py')
	eps = idx.mod('rogw/tranp/syntax/ast/entrypoints.py')
	db = idx.mod('rogw/tranp/semantics/reflection/db.py')
	rep.consulted(mods.relpath, prov.relpath, eps.relpath, db.relpath)
	owners = [(mods.cls('Modules'), 'unload'), (eps.cls('Entrypoints'), 'unload'), (db.cls('SymbolDB'), 'unload')]
	for cls, unload_name in owners:
		st = stores_of(cls)
		if not st:
			raise AnalysisError(f'{cls.name} has no container store any more')
		un = cls.method(unload_name)
		if un is None:
			r.violate(f'{cls.name}.unload', cls.where, f'{cls.name}.{unload_name} vanished: its per-module stores {sorted(st)} are never released')
			continue
		written: dict[str, list[str]] = {}
		for name, defs in cls.methods.items():
			if name in ('__init__', unload_name):
				continue
			ef = effects_of(defs[-1], cls)
			for b, a, n in ef.adds:
				if a in st:
					written.setdefault(a, []).append(name)
		uef = effects_of(un, cls)
		deleted = {a for b, a, n in uef.dels}
		# filtered re-assignment also counts as deletion: self.__x = [k for k in self.__x if ...] / {k: v ... if ...}
		for b, a, v, n in uef.assigns:
			if isinstance(v, (ast.ListComp, ast.DictComp)) and v.generators and v.generators[0].ifs:
				deleted.add(a)
		for a, by in sorted(written.items()):
			r.check(a in deleted, f'{cls.name}:{a}', un.where, f'{cls.name} writes store {a} in {sorted(set(by))} (load path) but {cls.name}.{unload_name} never deletes from it: after unload + reload the old entry is served (stale nodes/symbols leak into later transpiles)')
		for a in sorted(set(st) - set(written)):
			r.note(f'{cls.name}.{a}: store never written outside __init__')
	# registration is undone when the rest of the load fails: the module is stored BEFORE its dependencies are loaded and the preprocessors run
	# (that breaks import cycles); if one of these raises and the entry stays, the next load of the path returns the half-loaded module and the
	# same submission gives a different result the second time
	ml_load = mods.cls('Modules').method('load')
	if ml_load is None:
		raise AnalysisError('Modules.load vanished')
	pm_ = parent_map(ml_load.node)
	stores_ = [n for n in walk_no_nested(ml_load.node) if isinstance(n, ast.Assign) and isinstance(n.targets[0], ast.Subscript) and unparse(n.targets[0].value).endswith('__modules')]
	# the registration and the stages behind it may sit in a private helper of Modules (`self.__load_fresh(path, language)`): the helper call is then
	# what has to lie in the protecting try
	via_helper: dict[int, list[ast.Call]] = {}
	if not stores_:
		for c_ in walk_no_nested(ml_load.node):
			if isinstance(c_, ast.Call) and isinstance(c_.func, ast.Attribute) and isinstance(c_.func.value, ast.Name) and c_.func.value.id == 'self':
				g_ = mods.cls('Modules').method(c_.func.attr)
				if g_ is None or g_ is ml_load or not g_.name.startswith('_'):
					continue
				inner = [n for n in walk_no_nested(g_.node) if isinstance(n, ast.Assign) and isinstance(n.targets[0], ast.Subscript) and unparse(n.targets[0].value).endswith('__modules')]
				stages = [x for x in walk_no_nested(g_.node) if isinstance(x, ast.Call) and isinstance(x.func, ast.Attribute) and x.func.attr in ('preprocess', '__load_dependencies') and inner and (x.lineno, x.col_offset) > (inner[0].lineno, inner[0].col_offset)]
				if inner:
					stores_.append(inner[0])
					via_helper[id(inner[0])] = [c_] if stages else []
	if not stores_:
		r.skip('Modules.load:rollback', ml_load.where, 'Modules.load no longer registers the module in self.__modules')
	for st_ in stores_:
		if id(st_) in via_helper:
			later = via_helper[id(st_)]
		else:
			later = [c_ for c_ in walk_no_nested(ml_load.node) if isinstance(c_, ast.Call) and isinstance(c_.func, ast.Attribute) and c_.func.attr in ('preprocess', '__load_dependencies') and (c_.lineno, c_.col_offset) > (st_.lineno, st_.col_offset)]
		if not later:
			r.ok('Modules.load:rollback', (mods.relpath, st_.lineno), message='nothing that can fail runs after the registration')
			continue
		for c_ in later:
			ok_ = False
			for t in enclosing_tries(c_, pm_):
				# every failure path out of the try removes the entry: some handler catches Exception (or broader), and EVERY handler — also a
				# narrower one listed first, such as `except Errors.Error` — removes and raises
				broad = any(set(handler_types(h)) & {'Exception', 'BaseException'} or h.type is None for h in t.handlers)
				each = all((any(isinstance(x, ast.Call) and isinstance(x.func, ast.Attribute) and x.func.attr in ('unload', 'pop') for x in ast.walk(h)) or any(isinstance(x, ast.Delete) for x in ast.walk(h))) and any(isinstance(x, ast.Raise) for x in ast.walk(h)) for h in t.handlers)
				if broad and each:
					ok_ = True
			r.check(ok_, f'Modules.load:rollback:{c_.func.attr}', (mods.relpath, c_.lineno), f'`{unparse(c_)[:70]}` runs after the module was registered in self.__modules and is not inside a try that removes the entry again and re-raises: when it fails (an imported module with an error) the half-loaded module stays registered, the next load returns it without preprocessing, and re-submitting the same source in one session succeeds where the first attempt reported the error', unparse(c_)[:100])
	# reachability of the owners from Modules.unload
	mu = mods.cls('Modules').method('unload')
	calls = [unparse(n.func) for n in walk_no_nested(mu.node) if isinstance(n, ast.Call)]
	r.check(any(c.endswith('__loader.unload') for c in calls), 'Modules.unload->loader.unload', mu.where, f'Modules.unload no longer calls the module loader\'s unload ({calls}): entrypoint and symbols of the module stay loaded')
	# a module that imports the unloaded one keeps nodes and symbols of it, and Modules.load hands a registered module back without looking at its
	# imports: the dependents have to go with it (load(a); unload(b); transpile(load(a)) fails where a fresh session succeeds)
	recursive = [n for n in ast.walk(mu.node) if isinstance(n, ast.Call) and unparse(n.func) in ('self.unload', 'self._Modules__unload_dependents', 'self.__unload_dependents')]
	helpers = [mods.cls('Modules').method(n.func.attr) for n in ast.walk(mu.node) if isinstance(n, ast.Call) and isinstance(n.func, ast.Attribute) and isinstance(n.func.value, ast.Name) and n.func.value.id == 'self' and n.func.attr not in ('unload',)]
	bodies = [mu.node] + [h.node for h in helpers if h is not None]
	over_registry = any(isinstance(x, (ast.For, ast.comprehension)) and '__modules' in unparse(x.iter) for b in bodies for x in ast.walk(b))
	by_imports = any(isinstance(x, ast.Attribute) and x.attr in ('imports', 'import_path') for b in bodies for x in ast.walk(b))
	cascades = any(isinstance(n, ast.Call) and unparse(n.func) == 'self.unload' for b in bodies for n in ast.walk(b))
	r.check(cascades and over_registry and by_imports, 'Modules.unload:dependents-unloaded', mu.where, 'Modules.unload removes the named module only: a loaded module that imports it keeps its nodes and symbols and is handed back by the next Modules.load as it is — load(a) [a imports b]; unload(b); transpile(load(a)) fails with UnresolvedSymbol, a fresh session succeeds (the output of a module depends on what the process unloaded before); the modules that import the unloaded one must be unloaded with it')
	ml = prov.cls('ModuleLoader')
	lu = ml.method('unload')
	lcalls = [unparse(n.func) for n in walk_no_nested(lu.node) if isinstance(n, ast.Call)] if lu else []
	r.check('self.entrypoints.unload' in lcalls, 'ModuleLoader.unload->entrypoints.unload', (lu or ml).where, f'ModuleLoader.unload no longer releases the entrypoint ({lcalls})')
	r.check('self.db.unload' in lcalls, 'ModuleLoader.unload->db.unload', (lu or ml).where, f'ModuleLoader.unload no longer removes the module\'s symbols from the SymbolDB ({lcalls}): symbols of the old source version survive a reload')
	# each store is released whatever the state of the OTHER store: the entrypoint of a module that owns no symbol (a script of statements only), or
	# whose load failed before a symbol was written, must go as well — guarded by `db.has_module(...)` it survives and the next submission under the
	# same path is transpiled from the old tree
	if lu is not None:
		from vlib.match import atoms as atoms_u, nodes as nodes_u
		for c_ in nodes_u(lu.node, ast.Call):
			callee = unparse(c_.func)
			if callee not in ('self.entrypoints.unload', 'self.db.unload'):
				continue
			other = 'self.db' if callee.startswith('self.entrypoints') else 'self.entrypoints'
			guards = [a for a, _ in atoms_u(lu.node, c_) if other in unparse(a)]
			r.check(not guards, f'ModuleLoader.unload:{callee}:unconditional', (prov.relpath, c_.lineno), f'ModuleLoader.unload reaches `{callee}(...)` only under `{unparse(guards[0]) if guards else ""}`, a condition on the other store: a module without symbols in the table (statements only, or a load that failed early) keeps its entrypoint, and the next load of the same path returns the stale tree — every later submission yields the first one\'s output', unparse(c_))
	# load writes through the same owners
	ll = ml.method('load')
	r.check(ll is not None and has_call(closure_fi(ll), 'entrypoints.load'), 'ModuleLoader.load->entrypoints.load', (ll or ml).where, 'ModuleLoader.load no longer obtains the entrypoint from Entrypoints (pairing with unload would be lost)')
	# SymbolDB.unload deletes exactly the module's keys
	su = db.cls('SymbolDB').method('unload')
	_rule_db_unload(r, su)
	for k, why in OTHER_STORES.items():
		r.note(f'other long-lived store {k}: {why}')


# ---- (b) hash-seed / address dependence -----------------------------------------------------------------------------------------

def find_nondeterminism(tree: ast.AST, rel: str, functions) -> list[tuple[str, str, int, str]]:
	"""(kind, function qualname, line, text)"""
	out = []
	owner_of: dict[int, str] = {}
	for q, f in functions.items():
		for n in ast.walk(f.node):
			owner_of.setdefault(id(n), q)
	# innermost owner: functions dict is outer-first; recompute so nested wins
	for q, f in sorted(functions.items(), key=lambda kv: kv[0].count('.')):
		for n in ast.walk(f.node):
			owner_of[id(n)] = q
	for n in ast.walk(tree):
		q = owner_of.get(id(n), '<module>')
		if isinstance(n, (ast.Set, ast.SetComp)):
			out.append(('set', q, n.lineno, unparse(n)[:60]))
		elif isinstance(n, ast.Call):
			name = attr_chain(n.func)
			if name in ('set', 'frozenset'):
				out.append(('set', q, n.lineno, unparse(n)[:60]))
			elif name in ('id', 'hash') and len(n.args) == 1:
				out.append(('idhash', q, n.lineno, unparse(n)[:60]))
			elif name in ('os.listdir', 'os.scandir', 'glob.glob', 'glob.iglob', 'os.walk') :
				out.append(('listing', q, n.lineno, unparse(n)[:60]))
			elif isinstance(n.func, ast.Attribute) and n.func.attr in ('intersection', 'union', 'difference', 'symmetric_difference') and not isinstance(n.func.value, ast.Constant):
				out.append(('set', q, n.lineno, unparse(n)[:60]))
		elif isinstance(n, ast.BinOp) and isinstance(n.op, (ast.BitAnd, ast.BitOr, ast.Sub)) and any(isinstance(s, ast.Call) and isinstance(s.func, ast.Attribute) and s.func.attr in ('keys', 'items') for s in (n.left, n.right)):
			out.append(('set', q, n.lineno, unparse(n)[:60]))
	return out


def rule_b(rep: Report, idx: SourceIndex) -> None:
	r = rep.rule('C04/no-hash-order-dependence', 'no set construction / set algebra, no id()/hash() outside the reviewed allow-list, no unsorted directory listing outside the reviewed list', floor=15)
	files = scan_files(idx)
	n_files = 0
	for rel in files:
		m = idx.mod(rel)
		rep.consulted(rel)
		n_files += 1
		for kind, q, line, text in find_nondeterminism(m.tree, rel, m.functions):
			key = f'{rel}:{q}'
			cls_key = f'{rel}:{q.split(".")[0]}'
			if kind == 'set':
				r.violate(f'{key}:set:{text}', (rel, line), f'`{text}` builds a set: iteration order of str elements depends on PYTHONHASHSEED, so any output derived from it is not reproducible', text)
			elif kind == 'idhash':
				why = ID_HASH_ALLOW.get(key) or ID_HASH_ALLOW.get(cls_key)
				if why:
					r.ok(f'{key}:{text}', (rel, line), message=f'reviewed: {why}')
				else:
					r.violate(f'{key}:idhash:{text}', (rel, line), f'`{text}` in {q}: object addresses / hashes differ between processes (and with PYTHONHASHSEED); not in the reviewed allow-list of repr/__hash__/memo-key uses', text)
			elif kind == 'listing':
				why = LISTING_ALLOW.get(key)
				# sorted(...) directly around the call is fine
				if why:
					r.ok(f'{key}:{text}', (rel, line), message=f'reviewed: {why}')
				else:
					src_line = m.line(line)
					if 'sorted(' in src_line:
						r.ok(f'{key}:{text}', (rel, line), message='sorted')
					else:
						r.violate(f'{key}:listing:{text}', (rel, line), f'`{text}` in {q}: directory listing order is file-system dependent and is not sorted', text)
	if n_files < 100:
		raise AnalysisError(f'C04-b scanned only {n_files} files')
	# positive fixture
	fx = os.path.join(VERIF, 'selftest', 'fixtures', 'c04_positive.py')
	try:
		with open(fx) as fh:
			tree = ast.parse(fh.read())
	except OSError:
		raise AnalysisError('positive fixture selftest/fixtures/c04_positive.py missing')
	kinds = {k for k, *_ in find_nondeterminism(tree, 'fixture', {})}
	r.check(kinds >= {'set', 'idhash', 'listing'}, 'positive-fixture', ('selftest/fixtures/c04_positive.py', 1), f'the detectors no longer fire on the positive fixture (found {sorted(kinds)})')


# ---- (c) global mutable state -----------------------------------------------------------------------------------------------------

CLASS_LEVEL_IMMUTABLE_CTORS = {'re.compile', 'field', 'TypeVar', 'TypeVarTuple', 'ParamSpec', 'NewType', 'auto', 'tuple', 'frozenset', 'namedtuple', 'object'}


def rule_c(rep: Report, idx: SourceIndex) -> None:
	r = rep.rule('C04/global-state-inventory', 'process-global mutation (setattr on classes, class-/module-level containers mutated after import, mutable defaults mutated) is limited to the reviewed list', floor=6)
	n_defaults = 0
	for rel in scan_files(idx):
		m = idx.mod(rel)
		module_containers = {k for k, v in m.globals.items() if isinstance(v, (ast.Dict, ast.List, ast.Set))}
		class_containers: dict[str, set[str]] = {}
		for q, c in m.classes.items():
			cc = {k for k, v in c.class_attrs.items() if isinstance(v, (ast.Dict, ast.List, ast.Set))}
			if cc:
				class_containers[q] = cc
		# an object constructed in a class body exists once per class: every instance (every rule set, every parser, every module) shares it. Compiled
		# regexps and dataclass field() descriptors are immutable; anything else (a Memoize, a cache, a context) is shared mutable state
		for q, c in m.classes.items():
			for k, v in c.class_attrs.items():
				if isinstance(v, ast.Call) and unparse(v.func) not in CLASS_LEVEL_IMMUTABLE_CTORS and not any(unparse(b).split('.')[-1] in ('Enum', 'IntEnum', 'NamedTuple', 'Protocol') for b in c.node.bases):
					key = f'{rel}:{q}.{k}:class-level object'
					why = GLOBAL_MUTATION_ALLOW.get(key)
					if why:
						r.ok(key, (rel, v.lineno), message=f'reviewed: {why}')
					else:
						r.violate(key, (rel, v.lineno), f'class {q} builds `{k} = {unparse(v)[:60]}` in its class body: one object shared by every instance for the life of the process (a memo filled for one rule set / module answers for every other one), unless each instance replaces it in __init__', unparse(v)[:80])
		for q, f in m.functions.items():
			if '#' in q:
				continue
			where0 = f.where
			for n in walk_no_nested(f.node):
				if isinstance(n, ast.Call) and isinstance(n.func, ast.Name) and n.func.id == 'setattr' and n.args:
					tgt = unparse(n.args[0])
					if tgt in ('cls', 'holder') or tgt[:1].isupper():
						key = f'{rel}:{q}:setattr'
						why = GLOBAL_MUTATION_ALLOW.get(key)
						if why:
							r.ok(key, (rel, n.lineno), message=f'reviewed: {why}')
						else:
							r.violate(key, (rel, n.lineno), f'`{unparse(n)[:80]}` mutates a class object at run time: state that survives across modules and transpiles in one process', unparse(n)[:100])
				if isinstance(n, ast.Global):
					r.violate(f'{rel}:{q}:global {",".join(n.names)}', (rel, n.lineno), f'{q} rebinds module globals {n.names}')
				# mutation of module-level / class-level containers
				tgt_attr = None
				if isinstance(n, (ast.Assign, ast.AugAssign)):
					for t in (n.targets if isinstance(n, ast.Assign) else [n.target]):
						if isinstance(t, ast.Subscript):
							tgt_attr = t.value
				elif isinstance(n, ast.Delete):
					for t in n.targets:
						if isinstance(t, ast.Subscript):
							tgt_attr = t.value
				elif isinstance(n, ast.Call) and isinstance(n.func, ast.Attribute) and n.func.attr in ('append', 'extend', 'insert', 'update', 'setdefault', 'add', 'pop', 'remove', 'clear'):
					tgt_attr = n.func.value
				if tgt_attr is not None:
					if isinstance(tgt_attr, ast.Name) and tgt_attr.id in module_containers and not _is_local(f, tgt_attr.id):
						r.violate(f'{rel}:{q}:mutates {tgt_attr.id}', (rel, n.lineno), f'{q} mutates the module-level container {tgt_attr.id}', unparse(n)[:100])
					if isinstance(tgt_attr, ast.Attribute) and isinstance(tgt_attr.value, ast.Name) and f.cls is not None:
						base, attr = tgt_attr.value.id, tgt_attr.attr
						owner = f.cls.qualname
						if base in ('cls', f.cls.name) and attr in class_containers.get(owner, set()):
							r.violate(f'{rel}:{q}:mutates {owner}.{attr}', (rel, n.lineno), f'{q} mutates the class-level container {owner}.{attr}: shared by every instance for the life of the process', unparse(n)[:100])
						elif base == 'self' and attr in class_containers.get(owner, set()):
							# `self.x[k] = v` writes into the CLASS attribute unless the instance has bound its own x first (in __init__ / on every path before)
							rebound = any(isinstance(a_, (ast.Assign, ast.AnnAssign)) and getattr(a_, 'value', None) is not None and any(isinstance(t_, ast.Attribute) and isinstance(t_.value, ast.Name) and t_.value.id == 'self' and t_.attr == attr for t_ in (a_.targets if isinstance(a_, ast.Assign) else [a_.target])) for defs_ in f.cls.methods.values() for g_ in defs_ for a_ in walk_no_nested(g_.node))
							if not rebound:
								r.violate(f'{rel}:{q}:mutates {owner}.{attr}', (rel, n.lineno), f'{q} writes into `self.{attr}`, which no method ever binds on the instance: it is the container created in the class body ({owner}.{attr}), shared by every instance for the life of the process, so what one application object memoised (file hashes, mtimes) answers for the next one', unparse(n)[:100])
			# mutable defaults
			a = f.node.args
			pos = a.posonlyargs + a.args
			defaults = [None] * (len(pos) - len(a.defaults)) + list(a.defaults)
			for p, d in list(zip(pos, defaults)) + list(zip(a.kwonlyargs, a.kw_defaults)):
				if isinstance(d, (ast.Dict, ast.List, ast.Set)):
					n_defaults += 1
					muts = []
					for n in walk_no_nested(f.node):
						if isinstance(n, (ast.Assign, ast.AugAssign)):
							for t in (n.targets if isinstance(n, ast.Assign) else [n.target]):
								if isinstance(t, ast.Subscript) and isinstance(t.value, ast.Name) and t.value.id == p.arg:
									muts.append(unparse(n))
						if isinstance(n, ast.Call) and isinstance(n.func, ast.Attribute) and isinstance(n.func.value, ast.Name) and n.func.value.id == p.arg and n.func.attr in ('append', 'extend', 'insert', 'update', 'setdefault', 'add', 'pop', 'remove', 'clear'):
							muts.append(unparse(n))
					r.check(not muts, f'{rel}:{q}:default {p.arg}', where0, f'{q} mutates its mutable default `{p.arg}={unparse(d)}` ({muts[:1]}): the mutation persists across calls (history dependence)')
				elif isinstance(d, ast.Call) and unparse(d.func) not in ('tuple', 'frozenset', 'str', 'int', 'float', 'bool', 'bytes', 'object'):
					# an object constructed ONCE, when the def statement runs, and shared by every call that omits the argument
					n_defaults += 1
					uses = []
					for n in walk_no_nested(f.node):
						if isinstance(n, (ast.Assign, ast.AugAssign)):
							for t in (n.targets if isinstance(n, ast.Assign) else [n.target]):
								if isinstance(t, (ast.Attribute, ast.Subscript)) and isinstance(t.value, ast.Name) and t.value.id == p.arg:
									uses.append(unparse(n))
						if isinstance(n, ast.Call):
							if isinstance(n.func, ast.Attribute) and isinstance(n.func.value, ast.Name) and n.func.value.id == p.arg:
								uses.append(unparse(n))
							if any(isinstance(x, ast.Name) and x.id == p.arg for x in list(n.args) + [kw.value for kw in n.keywords]):
								uses.append(unparse(n))
					r.check(not uses, f'{rel}:{q}:default {p.arg}', where0, f'{q} takes `{p.arg}={unparse(d)}`: the object is built once when the function is defined and shared by every call; it is then modified or handed on ({uses[0][:70] if uses else ""}), so state written by one run (indent unit, bracket depth, collected items) is seen by every later run in the process', unparse(d))
	# the prop_keys cache is a pure function of class-level metadata
	nd = idx.mod('rogw/tranp/syntax/node/node.py')
	pk = nd.func('Node.prop_keys')
	from vlib.match import FI, calls as _calls
	pkx = FI(pk)
	sets = [c_ for c_ in _calls(pkx, 'setattr') if len(c_.args) == 3]
	if not sets:
		r.skip('prop_keys-cache-pure', pk.where, 'Node.prop_keys no longer caches with setattr(cls, key, ...)')
	for c_ in sets:
		r.check(unparse(c_.args[0]) == 'cls' and ('cls.__name__' in unparse(c_.args[1]) or 'cls.__qualname__' in unparse(c_.args[1])) and 'self' not in [n.id for n in ast.walk(pk.node) if isinstance(n, ast.Name)] and bool(_calls(pkx, 'Meta.dig_for_method')), 'prop_keys-cache-pure', pk.where, f'Node.prop_keys cache: the key must contain the class name and the value must be computed from class-level metadata only: `{unparse(c_)[:160]}`')
	r.note(f'{n_defaults} mutable default arguments found, none mutated')


def _is_local(f, name: str) -> bool:
	return any(isinstance(n, ast.Assign) and any(isinstance(t, ast.Name) and t.id == name for t in n.targets) for n in walk_no_nested(f.node)) or name in f.params()


# ---- (d) dependency stack -----------------------------------------------------------------------------------------------------

def rule_d(rep: Report, idx: SourceIndex) -> None:
	r = rep.rule('C04/dependency-stack-balanced', 'Py2Cpp.transpile pushes one dependency frame, runs the procedure, pops one frame; view events append to the top frame only', floor=2)
	m = idx.mod('rogw/tranp/implements/cpp/transpiler/py2cpp.py')
	rep.consulted(m.relpath)
	t = m.func('Py2Cpp.transpile')
	seq = []
	for n in walk_no_nested(t.node):
		if isinstance(n, ast.Call) and isinstance(n.func, ast.Attribute):
			s = unparse(n.func)
			if s.endswith('__stack_on_depends.append'):
				seq.append((n.lineno, 'push'))
			elif s.endswith('__stack_on_depends.pop'):
				seq.append((n.lineno, 'pop'))
			elif s.endswith('__procedure.exec'):
				seq.append((n.lineno, 'exec'))
	r.check([k for _, k in sorted(seq)] == ['push', 'exec', 'pop'], 'transpile-balanced', t.where, f'transpile must push, exec, pop exactly once each: {sorted(seq)}')
	# the pushed frame belongs to THIS transpile: a new, empty list. A frame that aliases an existing one (the caller's, a root frame) collects the
	# dependencies of every module transpiled in the process, so the includes of a module depend on which modules were transpiled before it
	from vlib.stores import is_fresh
	for n in walk_no_nested(t.node):
		if isinstance(n, ast.Call) and isinstance(n.func, ast.Attribute) and unparse(n.func).endswith('__stack_on_depends.append') and n.args:
			a0 = n.args[0]
			r.check(isinstance(a0, (ast.List, ast.Tuple)) and not a0.elts or (is_fresh(a0) and not isinstance(a0, ast.BinOp)), 'transpile-frame-fresh', (m.relpath, n.lineno), f'transpile pushes `{unparse(a0)[:80]}` as its dependency frame: not a new empty list. A frame shared with an earlier transpile (or a root frame) accumulates the includes reported for other modules: `run -f` (all modules in one process) and an incremental run (changed modules only) then write different files', unparse(n)[:120])
	init = m.func('Py2Cpp.__init__')
	for n in walk_no_nested(init.node):
		if isinstance(n, (ast.Assign, ast.AnnAssign)) and getattr(n, 'value', None) is not None:
			for t_ in (n.targets if isinstance(n, ast.Assign) else [n.target]):
				if unparse(t_).endswith('__stack_on_depends'):
					r.check(isinstance(n.value, ast.List) and not n.value.elts, 'stack-starts-empty', (m.relpath, n.lineno), f'the dependency stack starts as `{unparse(n.value)[:40]}`: a frame that exists before the first transpile is shared by every transpile that reads the top of the stack', unparse(n)[:100])
	ov = m.func('Py2Cpp.__on_view_depends')
	frames = [n for b in closure_fi(ov) for n in nodes(b, ast.Subscript) if unparse(n.value) == 'self.__stack_on_depends']
	r.check(bool(frames) and all(unparse(n.slice) == '-1' for n in frames), 'depends-top-frame', ov.where, 'view dependency events no longer go to the top frame of the dependency stack')
	r.note('neither Py2Cpp.transpile nor Procedure.exec pops in a finally block: a handler that caught an exception of a nested transpile would leave a stale frame; no such handler exists today (reported, not armed)')


# ---- (e) in-place type substitution works on deep temporaries only ---------------------------------------------------------------------

def rule_e(rep: Report, idx: SourceIndex) -> None:
	"""TemplateManipulator.apply writes resolved types into a symbol's attribute lists in place (seqs.update). The symbols reachable from the
	SymbolDB are shared by every module of the session, so the written symbol must be a *deep* temporary: every caller passes
	`<symbol>.to_temporary()`, and to_temporary copies each nested attribute recursively."""
	r = rep.rule('C04/in-place-substitution-on-deep-copies', 'every symbol handed to TemplateManipulator.apply (which mutates attrs in place) is `.to_temporary()` of the shared symbol, and to_temporary clones nested attrs recursively', floor=5)
	tm = idx.mod('rogw/tranp/semantics/reflection/helper/template.py')
	rf = idx.mod('rogw/tranp/semantics/reflection/reflection.py')
	rep.consulted(tm.relpath, rf.relpath)
	ap = tm.func('TemplateManipulator.apply')
	mutates = any(isinstance(n, ast.Call) and attr_chain(n.func) == 'seqs.update' for n in ast.walk(ap.node))
	if not mutates:
		r.ok('apply-does-not-mutate', ap.where, message='TemplateManipulator.apply no longer updates attrs in place; rule moot')
		return
	r.ok('apply-mutates-in-place', ap.where, message='seqs.update(attrs, ...) on primary.attrs')
	n_calls = 0
	for q, f in tm.functions.items():
		for n in walk_no_nested(f.node):
			if isinstance(n, ast.Call) and (attr_chain(n.func) or '').endswith('TemplateManipulator.apply') and n.args:
				n_calls += 1
				a0 = n.args[0]
				ok = isinstance(a0, ast.Call) and isinstance(a0.func, ast.Attribute) and a0.func.attr == 'to_temporary'
				r.check(ok, f'{q}:apply({unparse(a0)[:40]})', (tm.relpath, n.lineno), f'{q} passes `{unparse(a0)}` to TemplateManipulator.apply, which writes into its attrs in place; it must be a to_temporary() copy or the shared declaration symbol is rewritten for the rest of the session', unparse(n)[:120])
	if n_calls < 3:
		r.undecided('apply-callers', ap.where, f'only {n_calls} callers of TemplateManipulator.apply found')
	tt = rf.func('ReflectionBase.to_temporary')
	deep = False
	for n in ast.walk(tt.node):
		if isinstance(n, ast.Call) and isinstance(n.func, ast.Attribute) and n.func.attr == 'extends':
			for a in n.args:
				v = deref(tt.node, a.value if isinstance(a, ast.Starred) else a)
				if isinstance(v, (ast.ListComp, ast.GeneratorExp)) and isinstance(v.elt, ast.Call) and isinstance(v.elt.func, ast.Attribute) and v.elt.func.attr in ('to_temporary', 'clone') and 'attrs' in unparse(v.generators[0].iter):
					deep = True
	r.check(deep, 'to_temporary-is-deep', tt.where, 'ReflectionBase.to_temporary no longer clones each nested attribute with to_temporary(): the copy shares its nested attrs with the declaration symbol stored in the SymbolDB, so a type variable resolved two or more levels deep (dict[str, list[T]]) is written into the shared symbol and the first actual type sticks for every later module', unparse(tt.node)[-160:])
	stack = rf.func('ReflectionBase.stack')
	r.check(any(isinstance(n.func, ast.Name) and n.func.id == 'Reflection' and any(kw.arg == 'origin' and unparse(kw.value) == 'self' for x in ast.walk(n) if isinstance(x, ast.Call) for kw in x.keywords) for b in closure_fi(stack) for n in nodes(b, ast.Call)), 'stack-makes-new-instance', stack.where, 'ReflectionBase.stack no longer creates a new Reflection over the original')


# ---- (f) reflection attrs are written only on temporaries -------------------------------------------------------------------------------

def rule_f(rep: Report, idx: SourceIndex) -> None:
	"""Symbols reachable from the SymbolDB are shared by every module of the session. A function that writes into `<param>.attrs[...]` (directly or
	by handing the parameter on to such a function) is an in-place mutator; every call of a mutator must pass a fresh deep copy
	(`<x>.to_temporary()`), or an attribute taken from the mutator's own (already fresh) parameter."""
	r = rep.rule('C04/reflection-attrs-written-on-temporaries-only', 'every function that writes `<param>.attrs[i] = ...` (or passes the parameter to one that does) is only called with `.to_temporary()` copies or with attrs of its own parameter: shared declaration symbols are never rewritten for the rest of the session', floor=3)
	files = ['rogw/tranp/semantics/reflection/traits.py', 'rogw/tranp/semantics/reflection/helper/template.py', 'rogw/tranp/semantics/reflection/reflection.py', 'rogw/tranp/semantics/reflections.py']
	funcs = []
	for rel in files:
		m = idx.mod(rel)
		rep.consulted(rel)
		for q, f in m.functions.items():
			if '#' not in q:
				funcs.append(f)

	def pos_params(f) -> list[str]:
		a = f.node.args
		ps = [x.arg for x in a.posonlyargs + a.args]
		return ps[1:] if ps and ps[0] in ('self', 'cls') else ps

	# direct mutators: param p with a store into p.attrs[...] or seqs.update(p.attrs, ...)
	mut: dict[int, set[str]] = {}
	from vlib.match import X
	for f in funcs:
		ps = set(pos_params(f))
		for n in ast.walk(X(f)):  # alias-expanded: `attrs = primary.attrs; seqs.update(attrs, ...)` is a write into primary.attrs
			tgts = []
			if isinstance(n, ast.Assign):
				tgts = n.targets
			elif isinstance(n, ast.AugAssign):
				tgts = [n.target]
			for t in tgts:
				if isinstance(t, ast.Subscript) and isinstance(t.value, ast.Attribute) and t.value.attr == 'attrs' and isinstance(t.value.value, ast.Name) and t.value.value.id in ps:
					mut.setdefault(id(f), set()).add(t.value.value.id)
			if isinstance(n, ast.Call) and attr_chain(n.func) == 'seqs.update' and n.args and isinstance(n.args[0], ast.Attribute) and n.args[0].attr == 'attrs' and isinstance(n.args[0].value, ast.Name) and n.args[0].value.id in ps:
				mut.setdefault(id(f), set()).add(n.args[0].value.id)
	by_name: dict[str, list] = {}
	for f in funcs:
		by_name.setdefault(f.name, []).append(f)

	def callee_of(f, c: ast.Call):
		"""same-class method / module function / Class.static method by simple name"""
		if isinstance(c.func, ast.Attribute):
			cands = by_name.get(c.func.attr, [])
			if isinstance(c.func.value, ast.Name) and c.func.value.id in ('self', 'cls') and f.cls is not None:
				return [g for g in cands if g.cls is f.cls]
			if isinstance(c.func.value, ast.Name):
				return [g for g in cands if g.cls is not None and g.cls.name == c.func.value.id]
			return []
		if isinstance(c.func, ast.Name):
			return [g for g in by_name.get(c.func.id, []) if g.cls is None]
		return []

	def arg_for(g, c: ast.Call, pname: str):
		ps = pos_params(g)
		if pname in ps and ps.index(pname) < len(c.args):
			return c.args[ps.index(pname)]
		return next((kw.value for kw in c.keywords if kw.arg == pname), None)

	# propagate: passing an own parameter on to a mutated position makes that parameter mutated too
	changed = True
	while changed:
		changed = False
		for f in funcs:
			ps = set(pos_params(f))
			for c in ast.walk(f.node):
				if not isinstance(c, ast.Call):
					continue
				for g in callee_of(f, c):
					for pname in mut.get(id(g), ()):
						a = arg_for(g, c, pname)
						# only private helpers inherit the obligation; a public entry point that hands its own parameter on must copy it first
						if isinstance(a, ast.Name) and a.id in ps and a.id not in mut.get(id(f), set()) and f.name.startswith('_') and not f.name.endswith('__'):
							mut.setdefault(id(f), set()).add(a.id)
							changed = True
	mutators = [f for f in funcs if id(f) in mut]
	r.note('in-place mutators: ' + ', '.join(sorted(f'{f.qualname}({",".join(sorted(mut[id(f)]))})' for f in mutators)))
	n_sites = 0
	for f in funcs:
		own_mut = mut.get(id(f), set())
		for c in walk_no_nested(f.node):
			if not isinstance(c, ast.Call):
				continue
			for g in callee_of(f, c):
				for pname in sorted(mut.get(id(g), ())):
					a = arg_for(g, c, pname)
					if a is None:
						continue
					n_sites += 1
					key = f'{f.qualname}->{g.qualname}({pname}={unparse(a)[:50]})'
					fresh = isinstance(a, ast.Call) and isinstance(a.func, ast.Attribute) and a.func.attr == 'to_temporary'
					# an attribute of the caller's own mutated (hence fresh, deep) parameter: `for attr in symbol.attrs: recurse(attr)` / `symbol.attrs[i]`
					derived = False
					if isinstance(a, ast.Name) and a.id in own_mut:
						derived = True
					elif isinstance(a, ast.Name):
						for lp in ast.walk(f.node):
							if isinstance(lp, (ast.For, ast.comprehension)) and a.id in {x.id for x in ast.walk(lp.target) if isinstance(x, ast.Name)}:
								roots = {x.value.id for x in ast.walk(lp.iter) if isinstance(x, ast.Attribute) and x.attr == 'attrs' and isinstance(x.value, ast.Name)}
								if roots & own_mut:
									derived = True
					elif isinstance(a, ast.Subscript) and isinstance(a.value, ast.Attribute) and a.value.attr == 'attrs' and isinstance(a.value.value, ast.Name) and a.value.value.id in own_mut:
						derived = True
					r.check(fresh or derived, key, (f.module.relpath, c.lineno), f'{f.qualname} passes `{unparse(a)}` to {g.qualname}, which writes into `{pname}.attrs` in place; the argument is neither a `.to_temporary()` copy nor part of one, so a symbol shared through the SymbolDB is rewritten and the first actual type sticks for every later module of the session (history dependence)', unparse(c)[:140])
	if n_sites < 2:
		r.skip('mutator-call-sites', (files[0], 1), f'only {n_sites} call sites of in-place mutators found')


# ---- (g) inventory of mutable instance state on pipeline classes ----------------------------------------------------------------------------

STATE_ALLOW = {
	# constant tables built once in __init__ (never written afterwards)
	'CVars._name_to_type': 'table', 'ASTNormalizer._handlers': 'table', 'Lexer._analyzers': 'table', 'Lexer._parsers': 'table', 'Tokenizer._handlers': 'table',
	'TokenDefinition.analyze_order': 'table', 'TokenDefinition.comment': 'table', 'TokenDefinition.quote': 'table', 'TokenDefinition.combined_symbols': 'table', 'TokenDefinition.post_filters': 'table',
	'SymbolFinder.__library_paths': 'table', 'HelperBuilder.__case_of_injectors': 'per-object builder state', 'BlockFormatter.elems': 'per-object builder state', 'Reflection._attrs': 'per-symbol value',
	# registries filled at wiring / import time
	'Middleware.__handlers': 'registry (wiring time)', 'RenderMiddleware.__handlers': 'registry (wiring time)', 'Traits.__interfaces': 'registry (wiring time)', 'Traits.__method_on_trait': 'registry (wiring time)',
	'Resolver.__ctors': 'registry (wiring time)', 'MetaData.__classes': 'registry (import time)', 'MetaData.__methods': 'registry (import time)', 'Mods._mods': 'registry (wiring time)', 'Mods._cache': 'memo of pure lookups over the registry',
	'DI.__instances': 'container store (C19)', 'DI.__injectors': 'container store (C19)', 'DI.__invocations': 'memo keyed by factory name (C19)', 'LazyDI.__definitions': 'container store (C19)',
	# per-module stores with an unload path (rule load-unload-pairing) or owned by a per-module DI instance
	'Modules.__modules': 'per-module store, unloaded', 'SymbolDB.__paths': 'per-module store, unloaded', 'SymbolDB.__items': 'per-module store, unloaded', 'SymbolDB.__completed': 'per-module store, unloaded',
	'Entrypoints.__entrypoints': 'per-module store, unloaded', 'EntryCache.__entries': 'owned by one module tree', 'EntryCache.__children': 'owned by one module tree', 'EntryCache.__indexs': 'owned by one module tree',
	'NodeResolver.__insts': 'per-module DI instance', 'Nodes.__memo': 'per-module DI instance', 'Node._memo': 'per-node memo (node dies with its module)',
	# content-addressed / run-scoped caches
	'FileLoader.__hashs': 'content hash per resolved path', 'FileLoader.__mtimes': 'mtime per resolved path (cache identities)', 'CacheProvider.__instances': 'keyed by cache key + identity',
	'Memo.__cache': 'memo helper itself', 'Memoize.__memos': 'memo helper itself', 'Memoize._memos': 'memo helper itself', 'Rules._memo': 'per rule set (immutable after construction)',
	# stacks balanced per call
	'Py2Cpp.__stack_on_depends': 'stack (rule dependency-stack-balanced)', 'Procedure.__stacks': 'stack (C09 exec-stack-balanced)',
}


def _is_container_value(v: ast.AST) -> bool:
	if isinstance(v, (ast.Dict, ast.List, ast.Set, ast.DictComp, ast.ListComp, ast.SetComp)):
		return True
	if isinstance(v, ast.Call):
		fn = unparse(v.func).split('.')[-1]
		return fn in ('dict', 'list', 'set', 'Memoize', 'Memo', 'defaultdict', 'OrderedDict', 'deque')
	return False


def rule_g(rep: Report, idx: SourceIndex) -> None:
	"""Every container or memo held in an instance attribute of a pipeline class is state that can outlive one input. Each one is listed with the reason why
	it cannot carry results from one module / submission to another (constant table, per-module owner with an unload path, content-addressed key, balanced stack).
	A container attribute that is not listed is new state nobody has reviewed: typically a memo on a long-lived service whose key forgets part of the input."""
	r = rep.rule('C04/instance-state-inventory', 'every container / memo held in an instance attribute of a pipeline class is in the reviewed table (with the reason it cannot leak across inputs)', floor=40)
	seen: set[str] = set()
	for rel in scan_files(idx):
		m = idx.mod(rel)
		for q, c in m.classes.items():
			for name, defs in c.methods.items():
				for f in defs:
					for n in walk_no_nested(f.node):
						tgt = n.targets[0] if isinstance(n, ast.Assign) and len(n.targets) == 1 else n.target if isinstance(n, ast.AnnAssign) and n.value is not None else None
						if isinstance(tgt, ast.Attribute) and isinstance(tgt.value, ast.Name) and tgt.value.id == 'self' and _is_container_value(n.value):
							key = f'{c.name}.{tgt.attr}'
							if key in seen:
								continue
							seen.add(key)
							why = STATE_ALLOW.get(key)
							if why is not None:
								r.ok(key, (rel, n.lineno), message=f'reviewed: {why}')
							else:
								r.violate(key, (rel, n.lineno), f'{c.name} keeps a new container/memo in `self.{tgt.attr}` ({unparse(n.value)[:40]}): instances of pipeline classes live across modules and interactive submissions, so whatever is remembered here can answer for another input (a memo keyed by a name that is re-used after unload/reload, a parser memo that is not reset after a failed parse); show that it is reset per input or keyed by the complete input, then list it', unparse(n)[:100])
	for k in sorted(set(STATE_ALLOW) - seen):
		r.note(f'listed state no longer present: {k}')


def _rule_db_unload(r, su) -> None:
	"""SymbolDB.unload(module_path): deletes from BOTH key stores (__items, __paths) exactly the keys whose recorded module equals module_path, and drops the
	completed mark. Decided on the fully inlined body: the deleted key ranges over a selection filtered by an equality with the parameter."""
	from vlib.match import FI, atoms, nodes
	key = 'SymbolDB.unload-selects-module-keys'
	sx = FI(su)
	mp = [p_ for p_ in su.params() if p_ not in ('self',)][0]
	removed: dict[str, list] = {}
	for n in nodes(sx, (ast.Delete, ast.Call)):
		tgts = n.targets if isinstance(n, ast.Delete) else ([ast.Subscript(value=n.func.value, slice=n.args[0])] if isinstance(n.func, ast.Attribute) and n.func.attr == 'pop' and n.args else [])
		for t in tgts:
			if isinstance(t, ast.Subscript) and unparse(t.value) in ('self.__paths', 'self.__items'):
				removed.setdefault(unparse(t.value), []).append((n, t.slice))
	marks = [n for n in nodes(sx, ast.Call) if isinstance(n.func, ast.Attribute) and n.func.attr in ('remove', 'discard') and unparse(n.func.value) == 'self.__completed' and n.args and unparse(n.args[0]) == mp]
	marks += [n for n in nodes(sx, ast.Assign) if unparse(n.targets[0]) == 'self.__completed' and mp in unparse(n.value)]
	if set(removed) != {'self.__paths', 'self.__items'}:
		r.violate(key, su.where, f'SymbolDB.unload deletes from {sorted(removed)} only: both key stores (__items and __paths) must lose the keys of the module, or symbols of the old source version survive a reload')
		return
	if not marks:
		r.violate(key, su.where, 'SymbolDB.unload no longer drops the completed mark of the module: the next load believes the module is complete and skips its symbols')
		return
	verdicts = []
	for store, sites in removed.items():
		for n, k in sites:
			conds = [(a, p_) for a, p_ in atoms(sx, n)]
			# the loop the key comes from: its iterable (after inlining) is a comprehension with a filter, or the deletion is guarded
			for lp in nodes(sx, ast.For):
				if isinstance(k, ast.Name) and any(isinstance(t, ast.Name) and t.id == k.id for t in ast.walk(lp.target)) and any(n is x for x in ast.walk(lp)):
					it = lp.iter
					if isinstance(it, ast.Call) and unparse(it.func) in ('list', 'tuple') and it.args:
						it = it.args[0]
					if isinstance(it, (ast.ListComp, ast.GeneratorExp)):
						for g in it.generators:
							conds += [(c_, True) for c_ in g.ifs]
			sel = [(a, p_) for a, p_ in conds if any(isinstance(x, ast.Name) and x.id == mp for x in ast.walk(a))]
			if not sel:
				verdicts.append(('unknown', f'no condition on `{mp}` found for `{unparse(n)[:50]}`'))
				continue
			for a, p_ in sel:
				eq = isinstance(a, ast.Compare) and len(a.ops) == 1 and isinstance(a.ops[0], ast.Eq) and p_ and (unparse(a.left) == mp or unparse(a.comparators[0]) == mp)
				memb = isinstance(a, ast.Compare) and len(a.ops) == 1 and isinstance(a.ops[0], ast.In) and unparse(a.left) == mp and unparse(a.comparators[0]) == 'self.__completed'
				if eq:
					other = a.comparators[0] if unparse(a.left) == mp else a.left
					verdicts.append(('ok', '') if '__paths' in unparse(other) or isinstance(other, ast.Name) else ('unknown', f'`{unparse(a)}` does not compare with the recorded module of the key'))
				elif memb:
					verdicts.append(('bad', f'`{unparse(a)}` is {p_} (the deletion happens only for a module carrying the completed mark, but a module whose preprocessing was rejected half way has symbols in the table and no mark: they survive the unload and the re-submitted source is transpiled against declarations of the rejected one)'))
				else:
					verdicts.append(('bad', f'`{unparse(a)}` (expected: recorded module of the key == {mp})'))
	if any(v == 'bad' for v, _ in verdicts):
		r.violate(key, su.where, f'SymbolDB.unload selects the keys to delete with {[w for v, w in verdicts if v == "bad"][0]}: keys of other modules are deleted too, or keys of the module survive')
	elif any(v == 'unknown' for v, _ in verdicts) or not verdicts:
		r.skip(key, su.where, f'selection of the deleted keys not recognised: {[w for v, w in verdicts if v == "unknown"][:2]}')
	else:
		r.ok(key, su.where)


# ---- (h) extends() completes a NEW reflection, never a shared one -----------------------------------------------------------------------

FRESH_MAKERS = ('stack', 'to', 'declare', 'to_temporary', 'instantiate')
SHARED_SOURCES = ('from_standard', 'type_of', 'resolve', 'get_object', 'from_fullyname', 'from_standard_by')


def rule_h(rep: Report, idx: SourceIndex) -> None:
	"""IReflection.extends(*attrs) writes the type arguments INTO the receiver (and refuses a second call). Symbols obtained from the SymbolDB
	(from_standard(T), type_of(node), resolve(...), db[key]) are shared by every module and every run of the process: extending one of them in place makes
	the first literal's type arguments part of the library symbol, and the next extension fails with Never('Already set attibutes'). Every receiver of
	extends() must therefore be a reflection created for the occasion: the result of stack()/to()/declare()/to_temporary()/a constructor."""
	from vlib.match import may_reach
	r = rep.rule('C04/extends-on-fresh-reflections-only', 'every receiver of .extends(...) in the semantics layer is a newly created reflection (stack / to / declare / to_temporary / constructor result, directly or through a local), never a symbol obtained from the shared table', floor=25)

	visiting: set[str] = set()

	def classify(f, e: ast.AST, depth: int = 0) -> tuple[str, str]:
		if isinstance(e, ast.Name) and isinstance(e.ctx, ast.Load):
			if e.id in visiting:
				return 'fresh', ''  # a walk down the same structure (`attr = attr.attrs[i]`): decided by the other bindings of the name
			visiting.add(e.id)
			try:
				return classify_(f, e, depth)
			finally:
				visiting.discard(e.id)
		return classify_(f, e, depth)

	def classify_(f, e: ast.AST, depth: int = 0) -> tuple[str, str]:
		if isinstance(e, ast.Call):
			fn = e.func
			if isinstance(fn, ast.Attribute) and fn.attr in FRESH_MAKERS:
				return 'fresh', ''
			if isinstance(fn, ast.Name) and fn.id[:1].isupper():
				return 'fresh', ''
			if isinstance(fn, ast.Attribute) and fn.attr in SHARED_SOURCES:
				return 'shared', f'`{unparse(e)[:70]}` is the symbol stored in the shared table'
			return 'unknown', f'call `{unparse(e)[:60]}`'
		if isinstance(e, ast.Subscript):
			base = e.value
			if isinstance(base, ast.Attribute) and base.attr == 'attrs':
				return classify(f, base.value, depth + 1)
			if isinstance(base, ast.Name) and depth < 4:
				defs_ = may_reach(f.node, base)
				if defs_ is None:
					return 'unknown', f'`{unparse(e)}` indexes a parameter'
				kinds = []
				for d_ in defs_:
					v = getattr(d_, 'value', None)
					if isinstance(v, ast.ListComp):
						kinds.append(classify(f, v.elt, depth + 1))
					elif isinstance(v, ast.List) and not v.elts:
						# filled by append/extend of other locals: follow them
						for c_ in ast.walk(f.node):
							if isinstance(c_, ast.Call) and isinstance(c_.func, ast.Attribute) and c_.func.attr in ('append', 'extend') and isinstance(c_.func.value, ast.Name) and c_.func.value.id == base.id and c_.args:
								a0 = c_.args[0]
								if isinstance(a0, ast.Name):
									for d2 in may_reach(f.node, a0) or []:
										v2 = getattr(d2, 'value', None)
										kinds.append(classify(f, v2.elt if isinstance(v2, ast.ListComp) else v2, depth + 1) if v2 is not None else ('unknown', 'loop variable'))
								else:
									kinds.append(classify(f, a0, depth + 1))
					elif v is not None:
						kinds.append(classify(f, v, depth + 1))
				if kinds and all(k == 'fresh' for k, _ in kinds):
					return 'fresh', ''
				bad = [w for k, w in kinds if k == 'shared']
				return ('shared', bad[0]) if bad else ('unknown', f'elements of `{base.id}` not classified')
			if isinstance(base, ast.Attribute) and 'db' in base.attr.lower() or (isinstance(base, ast.Name) and base.id == 'db'):
				return 'shared', f'`{unparse(e)[:60]}` is a row of the symbol table'
			return 'unknown', f'`{unparse(e)[:60]}`'
		if isinstance(e, ast.Name):
			if depth > 4:
				return 'unknown', 'depth'
			defs_ = may_reach(f.node, e)
			if defs_ is None:
				return 'shared' if e.id not in ('self', 'cls') and f.name.startswith('on_') else 'unknown', f'`{e.id}` is a parameter: a symbol handed in by the caller'
			kinds = []
			for d_ in defs_:
				v = getattr(d_, 'value', None)
				if isinstance(d_, (ast.For, ast.AsyncFor)) or v is None:
					kinds.append(('unknown', f'`{e.id}` is a loop variable'))
				else:
					kinds.append(classify(f, v, depth + 1))
			if kinds and all(k == 'fresh' for k, _ in kinds):
				return 'fresh', ''
			bad = [w for k, w in kinds if k == 'shared']
			return ('shared', bad[0]) if bad else ('unknown', '; '.join(w for _, w in kinds)[:120])
		if isinstance(e, ast.Attribute) and e.attr == 'attrs':
			return classify(f, e.value, depth + 1)
		return 'unknown', f'`{unparse(e)[:60]}`'
	n_sites = 0
	for rel in idx.all_py(('rogw',)):
		if rel.startswith(('rogw/tranp/test/', 'rogw/tranp/compatible/', 'rogw/tranp/bin/')):
			continue
		m = idx.mod(rel)
		for q, f in m.functions.items():
			if '#' in q:
				continue
			for c_ in walk_no_nested(f.node):
				if not (isinstance(c_, ast.Call) and isinstance(c_.func, ast.Attribute) and c_.func.attr == 'extends'):
					continue
				n_sites += 1
				rep.consulted(rel)
				kind, why = classify(f, c_.func.value)
				key = f'{rel}:{q}:{unparse(c_.func.value)[:50]}'
				if kind == 'fresh':
					r.ok(key, (rel, c_.lineno))
				elif kind == 'shared':
					r.violate(key, (rel, c_.lineno), f'{q} calls extends() on {why}: the type arguments are written into the symbol every module shares; the next such expression in the process (a second list literal mixing types) fails with Never("Already set attibutes"), and the arguments of the first one leak into the library module\'s symbols', unparse(c_)[:120])
				else:
					r.skip(key, (rel, c_.lineno), f'receiver of extends() not classified: {why}')
	rep.extra_coverage['extends_sites'] = n_sites


def rule_template_module_state(rep: Report) -> None:
	"""A template pulled in with `{% import 'x.j2' as m %}` (without context) is built into a module ONCE per jinja Environment and cached there; the
	Renderer keeps one Environment for the whole process. Whatever such a template sets at its top level — outside every macro — therefore lives as long
	as the process: a `namespace(...)` (the only mutable object templates have) created there and written by a macro carries the arguments of one call
	into the next (`'x'.format()` rendered after `'{} {}'.format(n, s)` emits the previous arguments). Working namespaces belong inside the macro."""
	from vlib.templates import TemplateModel
	tm = TemplateModel()
	n = tm.nodes
	r = rep.rule('C04/imported-templates-keep-no-state', 'no template that is imported as a macro library creates a namespace(...) (or list / dict) at its top level, outside its macros', floor=1)
	imported: dict[str, list[str]] = {}
	for name, tree in tm.asts.items():
		for imp in list(tree.find_all(n.Import)) + list(tree.find_all(n.FromImport)):
			t = imp.template
			if isinstance(t, n.Const) and isinstance(t.value, str):
				imported.setdefault(t.value[:-3] if t.value.endswith('.j2') else t.value, []).append(name)
	if not imported:
		r.skip('imports', ('data/cpp/template', 1), 'no template imports another one')
		return
	for lib, users in sorted(imported.items()):
		if lib not in tm.asts:
			r.skip(lib, ('data/cpp/template', 1), f'imported template {lib} not parsed')
			continue
		in_macros = {id(x) for m_ in tm.asts[lib].find_all(n.Macro) for x in m_.find_all(n.Assign)}
		stateful = []
		for a in tm.asts[lib].find_all(n.Assign):
			if id(a) in in_macros:
				continue
			v = a.node
			if (isinstance(v, n.Call) and isinstance(v.node, n.Name) and v.node.name == 'namespace') or isinstance(v, (n.List, n.Dict)):
				stateful.append(a)
		r.check(not stateful, lib, (tm.relpath(lib), stateful[0].lineno if stateful else 1), f'{lib}.j2 is imported as a macro library by {sorted(set(users))[:3]} and creates a mutable object at its top level (line {stateful[0].lineno if stateful else "?"}): the module jinja builds for an import is cached on the Environment, so the object outlives the render — a macro that writes to it hands the state of one call (of one module) to the next, and the output of a module depends on what was rendered before it in the process')
