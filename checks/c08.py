"""C08 — consistent renaming commutes with transpilation: anchoring lint over identifier-carrying strings (frozen triage)."""
from __future__ import annotations

import ast

from vlib.anchoring import Site, Taint, find_sites
from vlib.core import AnalysisError, Report
from vlib.norm import Expander
from vlib.srcindex import SourceIndex, attr_chain, unparse

EXPLANATION = (
	'Decides the mechanism the property names: no decision in the pipeline may depend on a prefix/suffix/substring/length relation of user-chosen identifiers. '
	'An intraprocedural taint pass marks name-carrying strings (node .tokens/.domain_name/.fullyname/.scope/.namespace/.module_path, every str parameter of DSN/ModuleDSN helpers, '
	'rendered fragments received by Py2Cpp handlers, and values derived from them); every startswith/endswith/find/count/in/split/replace/regex/len-compare/slice-by-len on a tainted value must be '
	'anchored on a separator (the compared text ends/begins with a non-identifier character, or consists only of such), or be listed in the frozen triage table with a reason. '
	'Unanchored, unlisted sites are violations. Decides this structural clause, not transpile(r(P)) == r(transpile(P)) itself.'
)
ASSUMPTIONS = ['taint is intraprocedural with attribute/parameter sources; a name reaching a string test through an untracked container is not seen',
	'grammar-tag paths (full_path, EntryPath) are not name-carrying: tags and [index] elements only']
TRUSTED_BASE = ['CPython ast', 'vlib/anchoring.py']

ANCHOR_FILES = [
	'rogw/tranp/semantics/finder.py', 'rogw/tranp/dsn/dsn.py', 'rogw/tranp/dsn/module.py', 'rogw/tranp/syntax/node/node.py',
	'rogw/tranp/syntax/node/definition/statement_compound.py', 'rogw/tranp/syntax/node/definition/primary.py',
	'rogw/tranp/semantics/reflection/helper/naming.py', 'rogw/tranp/implements/cpp/transpiler/py2cpp.py',
]
THOROUGH_EXTRA_GLOBS = ['rogw/tranp/syntax/node/definition/*.py', 'rogw/tranp/semantics/**/*.py', 'rogw/tranp/implements/cpp/**/*.py', 'rogw/tranp/module/*.py', 'rogw/tranp/syntax/node/*.py', 'rogw/tranp/transpiler/*.py', 'rogw/tranp/view/*.py']

IDENT_ATTRS = {'tokens', 'domain_name', 'fullyname', 'tokens_without_this', 'module_path', 'scope', 'namespace', 'dsn', 'name_by_self'}
NOT_IDENT_BASES = {'full_path', '_full_path'}

# frozen triage: unanchored sinks on name-carrying values that are correct as written, one reason each
EXEMPT = {
	'rogw/tranp/syntax/node/definition/accessible.py:to_accessor': "Python's own _/__ naming convention is spelling-defined; the property's renaming excludes it (fresh names keep the underscore class)",
	'rogw/tranp/dsn/dsn.py:DSN.relativefy:split:origin': 'guarded by the anchored startswith(f"{starts}{delimiter}") test on the line before; every caller passes grammar-tag paths rooted at file_input (Entrypoint.whole_by, EntryPath.relativefy, ClassDomainNaming.__namespace)',
	'rogw/tranp/semantics/finder.py:SymbolFinder.__allow_scope:lencmp:node.scope': 'scope.dsn is by construction (SymbolFinder.__make_scopes) a dotted prefix of node.scope, so the length comparison is equivalent to equality of the two scopes',
	'rogw/tranp/implements/cpp/transpiler/py2cpp.py:Py2Cpp.proc_move_assign_single:prefix:node.value.calls.tokens': 'compares with the tranp-reserved decorator path Embed.static; members of the reserved Embed namespace are not user identifiers',
	'rogw/tranp/implements/cpp/transpiler/py2cpp.py:Py2Cpp.on_import:prefix:node.import_path.tokens': 'module paths are file-system locations matched against configured include directory prefixes (entries end with "/" in example/config.yml); the renaming of the property covers identifiers inside modules, not module file names',
}


def attr_taint(e: ast.Attribute):
	if e.attr in IDENT_ATTRS:
		return {'ident'}
	return None


def param_taint(f, p: ast.arg):
	rel, q = f.module.relpath, f.qualname
	ann = unparse(p.annotation) if p.annotation is not None else ''
	if rel in ('rogw/tranp/dsn/dsn.py', 'rogw/tranp/dsn/module.py') and ann in ('str', '') and p.arg not in ('cls', 'self', 'delimiter'):
		return {'ident'}
	if rel == 'rogw/tranp/semantics/reflection/helper/naming.py' and ann == 'str':
		return {'ident'}
	if rel.endswith('py2cpp.py') and q.startswith('Py2Cpp.on_') and p.arg not in ('self', 'node') and ann in ('str', 'list[str]'):
		return {'rendered'} if ann == 'str' else {'rendered[]'}
	if p.arg in ('tokens', 'fullyname', 'domain_name', 'scope', 'namespace', 'module_path', 'symbol_name', 'import_path', 'var_name', 'class_name') and ann in ('str', ''):
		return {'ident'}
	return None


def call_taint(t: Taint, e: ast.Call):
	name = attr_chain(e.func) or ''
	if name.startswith(('DSN.', 'ModuleDSN.')):
		out = set()
		for a in e.args:
			out |= t.of(a)
		if name.split('.')[-1] in ('elements', 'expanded', 'expand_elements'):
			return {l if l.endswith('[]') else l + '[]' for l in out}
		return out
	if name.endswith('.query_raw'):
		return {'ident'}
	return None


def files_for(idx: SourceIndex, tier: str) -> list[str]:
	files = list(ANCHOR_FILES)
	if tier == 'thorough':
		for g in THOROUGH_EXTRA_GLOBS:
			for p in idx.glob(g):
				if p not in files:
					files.append(p)
	else:
		files.append('rogw/tranp/syntax/node/definition/accessible.py')
	return files


def run(rep: Report, tier: str) -> None:
	idx = SourceIndex()
	r = rep.rule('C08/anchored-name-tests', 'every prefix/suffix/substring/split/replace/regex/length test on an identifier-carrying string is separator-anchored or triaged', floor=12)
	inv = rep.rule('C08/string-op-inventory', 'inventory of all string-structure operations in the scanned files (tainted or not), so the lint cannot go blind', floor=30, armed=False)
	used = set()
	tainted_sites: list[Site] = []
	for rel in files_for(idx, tier):
		m = idx.mod(rel)
		rep.consulted(rel)
		for q, f in m.functions.items():
			if '#' in q:
				continue
			t = Taint(f, attr_taint, param_taint, call_taint)
			for s in find_sites(f, t):
				inv.ok(s.key, (rel, s.node.lineno), fragment=s.text)
				if not s.labels:
					continue
				# receivers that are grammar-tag paths even though an attribute name matched
				base = unparse(s.recv) if s.recv is not None else ''
				if any(b in base for b in NOT_IDENT_BASES):
					continue
				tainted_sites.append(s)
				where = (rel, s.node.lineno)
				if s.anchored:
					r.ok(s.key, where, fragment=s.text)
					continue
				# triage keys name the function, the kind of test and the alias-expanded receiver (not the local spelling of the expression)
				xk = f'{rel}:{q}:{s.kind}:{Expander(f).src(s.recv) if s.recv is not None else ""}'
				ex = next((k for k in EXEMPT if xk == k or (k.count(':') == 1 and xk.startswith(k + ':'))), None)
				if ex is None and f.cls is not None and f.name.startswith('_') and not f.name.endswith('__') and isinstance(s.recv, ast.Name) and s.recv.id in f.params():
					# a test moved into a private helper keeps the triage of the methods it was extracted from: the receiver is the helper's parameter,
					# so the key is rebuilt at every call site with the (alias-expanded) argument
					pos = [a.arg for a in f.node.args.posonlyargs + f.node.args.args]
					pos = pos[1:] if pos and pos[0] in ('self', 'cls') else pos
					ckeys = []
					for defs_ in f.cls.methods.values():
						for g in defs_:
							if g is f:
								continue
							for c_ in ast.walk(g.node):
								if isinstance(c_, ast.Call) and isinstance(c_.func, ast.Attribute) and c_.func.attr == f.name and isinstance(c_.func.value, ast.Name) and c_.func.value.id in ('self', 'cls'):
									i_ = pos.index(s.recv.id) if s.recv.id in pos else -1
									arg = c_.args[i_] if 0 <= i_ < len(c_.args) else next((kw.value for kw in c_.keywords if kw.arg == s.recv.id), None)
									ckeys.append(f'{rel}:{g.qualname}:{s.kind}:{Expander(g).src(arg) if arg is not None else "?"}')
					if ckeys and all(k in EXEMPT for k in ckeys):
						ex = ckeys[0]
				if ex is not None:
					used.add(ex)
					r.ok(s.key, where, message=f'exempt: {EXEMPT[ex]}', fragment=s.text)
					continue
				r.violate(s.key, where, f'[{xk}] {s.kind} test `{s.text}` on a name-carrying string ({", ".join(sorted(s.labels))}) is not anchored on a separator: its outcome changes under a consistent renaming of user identifiers (a name that merely starts/ends with or contains the compared text matches)', s.text)
	for k in sorted(set(EXEMPT) - used):
		if tier == 'thorough' or not k.startswith('rogw/tranp/syntax/node/definition/accessible.py'):
			r.note(f'triage entry matches no site any more: {k}')
	rep.extra_coverage['tainted_sites'] = len(tainted_sites)
	rep.extra_coverage['tainted_by_kind'] = {k: sum(1 for s in tainted_sites if s.kind == k) for k in sorted({s.kind for s in tainted_sites})}
