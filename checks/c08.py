"""C08 — consistent renaming commutes with transpilation: anchoring lint over identifier-carrying strings (frozen triage)."""
from __future__ import annotations

import ast

from vlib.anchoring import Site, Taint, find_sites
from vlib.core import AnalysisError, Report
from vlib.norm import Expander
from vlib.srcindex import SourceIndex, attr_chain, const_str, unparse, walk_no_nested

EXPLANATION = (
	'Decides the mechanism the property names: no decision in the pipeline may depend on a prefix/suffix/substring/length relation of user-chosen identifiers. '
	'An intraprocedural taint pass marks name-carrying strings (node .tokens/.domain_name/.fullyname/.scope/.namespace/.module_path, every str parameter of DSN/ModuleDSN helpers, '
	'rendered fragments received by Py2Cpp handlers, and values derived from them); every startswith/endswith/find/count/in/split/replace/regex/len-compare/slice-by-len on a tainted value must be '
	'anchored on a separator (the compared text ends/begins with a non-identifier character, or consists only of such), or be listed in the frozen triage table with a reason. '
	'Unanchored, unlisted sites are violations. Decides this structural clause, not transpile(r(P)) == r(transpile(P)) itself.'
)
ASSUMPTIONS = ['taint is intraprocedural with attribute/parameter sources; a name reaching a string test through an untracked container is not seen',
	'grammar-tag paths (full_path, EntryPath) are not name-carrying: tags and [index] elements only']
TRUSTED_BASE = ['CPython ast', 'vlib/anchoring.py']

ANCHOR_FILES = [
	'rogw/tranp/semantics/finder.py', 'rogw/tranp/dsn/dsn.py', 'rogw/tranp/dsn/module.py', 'rogw/tranp/syntax/node/node.py',
	'rogw/tranp/syntax/node/definition/statement_compound.py', 'rogw/tranp/syntax/node/definition/primary.py',
	'rogw/tranp/semantics/reflection/helper/naming.py', 'rogw/tranp/implements/cpp/transpiler/py2cpp.py',
]
THOROUGH_EXTRA_GLOBS = ['rogw/tranp/syntax/node/definition/*.py', 'rogw/tranp/semantics/**/*.py', 'rogw/tranp/implements/cpp/**/*.py', 'rogw/tranp/module/*.py', 'rogw/tranp/syntax/node/*.py', 'rogw/tranp/transpiler/*.py', 'rogw/tranp/view/*.py']

IDENT_ATTRS = {'tokens', 'domain_name', 'fullyname', 'tokens_without_this', 'module_path', 'scope', 'namespace', 'dsn', 'name_by_self'}
NOT_IDENT_BASES = {'full_path', '_full_path'}

# frozen triage: unanchored sinks on name-carrying values that are correct as written, one reason each
EXEMPT = {
	'rogw/tranp/dsn/dsn.py:DSN.relativefy:split:origin': 'guarded by the anchored startswith(f"{starts}{delimiter}") test on the line before; every caller passes grammar-tag paths rooted at file_input (Entrypoint.whole_by, EntryPath.relativefy, ClassDomainNaming.__namespace)',
	'rogw/tranp/semantics/finder.py:SymbolFinder.__allow_scope:lencmp:node.scope': 'scope.dsn is by construction (SymbolFinder.__make_scopes) a dotted prefix of node.scope, so the length comparison is equivalent to equality of the two scopes',
	'rogw/tranp/implements/cpp/transpiler/py2cpp.py:Py2Cpp.proc_move_assign_single:prefix:node.value.calls.tokens': 'compares with the tranp-reserved decorator path Embed.static; members of the reserved Embed namespace are not user identifiers',
	'rogw/tranp/implements/cpp/transpiler/py2cpp.py:Py2Cpp.on_import:prefix:node.import_path.tokens': 'module paths are file-system locations matched against configured include directory prefixes (entries end with "/" in example/config.yml); the renaming of the property covers identifiers inside modules, not module file names',
}


def attr_taint(e: ast.Attribute):
	if e.attr in IDENT_ATTRS:
		return {'ident'}
	return None


def param_taint(f, p: ast.arg):
	rel, q = f.module.relpath, f.qualname
	ann = unparse(p.annotation) if p.annotation is not None else ''
	if rel in ('rogw/tranp/dsn/dsn.py', 'rogw/tranp/dsn/module.py') and ann in ('str', '') and p.arg not in ('cls', 'self', 'delimiter'):
		return {'ident'}
	if rel == 'rogw/tranp/semantics/reflection/helper/naming.py' and ann == 'str':
		return {'ident'}
	if rel.endswith('py2cpp.py') and q.startswith('Py2Cpp.on_') and p.arg not in ('self', 'node') and ann in ('str', 'list[str]'):
		return {'rendered'} if ann == 'str' else {'rendered[]'}
	if p.arg in ('tokens', 'fullyname', 'domain_name', 'scope', 'namespace', 'module_path', 'symbol_name', 'import_path', 'var_name', 'class_name') and ann in ('str', ''):
		return {'ident'}
	return None


def call_taint(t: Taint, e: ast.Call):
	name = attr_chain(e.func) or ''
	if name.startswith(('DSN.', 'ModuleDSN.')):
		out = set()
		for a in e.args:
			out |= t.of(a)
		if name.split('.')[-1] in ('elements', 'expanded', 'expand_elements'):
			return {l if l.endswith('[]') else l + '[]' for l in out}
		return out
	if name.endswith('.query_raw'):
		return {'ident'}
	return None


def files_for(idx: SourceIndex, tier: str) -> list[str]:
	files = list(ANCHOR_FILES)
	if tier == 'thorough':
		for g in THOROUGH_EXTRA_GLOBS:
			for p in idx.glob(g):
				if p not in files:
					files.append(p)
	else:
		files.append('rogw/tranp/syntax/node/definition/accessible.py')
	return files


def run(rep: Report, tier: str) -> None:
	idx = SourceIndex()
	r = rep.rule('C08/anchored-name-tests', 'every prefix/suffix/substring/split/replace/regex/length test on an identifier-carrying string is separator-anchored or triaged', floor=12)
	inv = rep.rule('C08/string-op-inventory', 'inventory of all string-structure operations in the scanned files (tainted or not), so the lint cannot go blind', floor=30, armed=False)
	used = set()
	tainted_sites: list[Site] = []
	for rel in files_for(idx, tier):
		m = idx.mod(rel)
		rep.consulted(rel)
		for q, f in m.functions.items():
			if '#' in q:
				continue
			t = Taint(f, attr_taint, param_taint, call_taint)
			for s in find_sites(f, t):
				inv.ok(s.key, (rel, s.node.lineno), fragment=s.text)
				if not s.labels:
					continue
				# receivers that are grammar-tag paths even though an attribute name matched
				base = unparse(s.recv) if s.recv is not None else ''
				if any(b in base for b in NOT_IDENT_BASES):
					continue
				tainted_sites.append(s)
				where = (rel, s.node.lineno)
				if s.anchored:
					r.ok(s.key, where, fragment=s.text)
					continue
				# triage keys name the function, the kind of test and the alias-expanded receiver (not the local spelling of the expression)
				xk = f'{rel}:{q}:{s.kind}:{Expander(f).src(s.recv) if s.recv is not None else ""}'
				ex = next((k for k in EXEMPT if xk == k or (k.count(':') == 1 and xk.startswith(k + ':'))), None)
				if ex is None and f.cls is not None and f.name.startswith('_') and not f.name.endswith('__') and isinstance(s.recv, ast.Name) and s.recv.id in f.params():
					# a test moved into a private helper keeps the triage of the methods it was extracted from: the receiver is the helper's parameter,
					# so the key is rebuilt at every call site with the (alias-expanded) argument
					pos = [a.arg for a in f.node.args.posonlyargs + f.node.args.args]
					pos = pos[1:] if pos and pos[0] in ('self', 'cls') else pos
					ckeys = []
					for defs_ in f.cls.methods.values():
						for g in defs_:
							if g is f:
								continue
							for c_ in ast.walk(g.node):
								if isinstance(c_, ast.Call) and isinstance(c_.func, ast.Attribute) and c_.func.attr == f.name and isinstance(c_.func.value, ast.Name) and c_.func.value.id in ('self', 'cls'):
									i_ = pos.index(s.recv.id) if s.recv.id in pos else -1
									arg = c_.args[i_] if 0 <= i_ < len(c_.args) else next((kw.value for kw in c_.keywords if kw.arg == s.recv.id), None)
									ckeys.append(f'{rel}:{g.qualname}:{s.kind}:{Expander(g).src(arg) if arg is not None else "?"}')
					if ckeys and all(k in EXEMPT for k in ckeys):
						ex = ckeys[0]
				if ex is not None:
					used.add(ex)
					r.ok(s.key, where, message=f'exempt: {EXEMPT[ex]}', fragment=s.text)
					continue
				r.violate(s.key, where, f'[{xk}] {s.kind} test `{s.text}` on a name-carrying string ({", ".join(sorted(s.labels))}) is not anchored on a separator: its outcome changes under a consistent renaming of user identifiers (a name that merely starts/ends with or contains the compared text matches)', s.text)
	for k in sorted(set(EXEMPT) - used):
		r.note(f'triage entry matches no site any more: {k}')
	rule_accessor(rep, idx)
	rule_templates(rep)
	rule_merge(rep, idx)
	rule_scope_visibility(rep, idx)
	rule_member_lookup_scope(rep, idx)
	rule_import_alias(rep, idx)
	rule_relatives_by_identity(rep, idx, tier)
	rule_identifier_classes(rep, idx)
	rule_declarations_compared_as_nodes(rep, idx)
	rep.extra_coverage['tainted_sites'] = len(tainted_sites)
	rep.extra_coverage['tainted_by_kind'] = {k: sum(1 for s in tainted_sites if s.kind == k) for k in sorted({s.kind for s in tainted_sites})}


# ---- visibility from spelling: the one place where the spelling of a name is *meant* to decide, and exactly as Python defines it -----------------

SAMPLES = {
	'__init__': 'public', '__x__': 'public',
	'__hits': 'private', '__cache__hits': 'private', '__do__bump': 'private', '__a_': 'private',
	'_x': 'protected', '_x__': 'protected', '_': 'protected',
	'x': 'public', 'x__': 'public', 'x__y__': 'public', 'a_b': 'public',
}


def _eval_str_atom(a: ast.AST, name_param: str, value: str, consts: dict[str, ast.AST]):
	"""truth of a recognised predicate over the name for one sample spelling (constants folded with CPython's own str/re), or None"""
	import re as _re
	if isinstance(a, ast.BoolOp):
		vs = [_eval_str_atom(v, name_param, value, consts) for v in a.values]
		if any(v is None for v in vs):
			return None
		return all(vs) if isinstance(a.op, ast.And) else any(vs)
	if isinstance(a, ast.UnaryOp) and isinstance(a.op, ast.Not):
		v = _eval_str_atom(a.operand, name_param, value, consts)
		return None if v is None else not v
	if isinstance(a, ast.Call) and isinstance(a.func, ast.Attribute) and isinstance(a.func.value, ast.Name) and a.func.value.id == name_param and len(a.args) == 1:
		arg = a.args[0]
		cv = const_str(arg)
		if cv is None and isinstance(arg, ast.Tuple) and all(const_str(e) is not None for e in arg.elts):
			cv = tuple(const_str(e) for e in arg.elts)
		if cv is not None and a.func.attr in ('startswith', 'endswith'):
			return getattr(value, a.func.attr)(cv)
	if isinstance(a, ast.Compare) and len(a.ops) == 1 and isinstance(a.ops[0], ast.In) and const_str(a.left) is not None and unparse(a.comparators[0]) == name_param:
		return const_str(a.left) in value
	if isinstance(a, ast.Call) and isinstance(a.func, ast.Attribute) and a.func.attr in ('match', 'fullmatch', 'search'):
		pat = None
		if attr_chain(a.func) in ('re.match', 're.fullmatch', 're.search') and len(a.args) == 2 and unparse(a.args[1]) == name_param:
			pat = const_str(a.args[0])
		elif isinstance(a.func.value, ast.Name) and a.func.value.id in consts and len(a.args) == 1 and unparse(a.args[0]) == name_param:
			c = consts[a.func.value.id]
			if isinstance(c, ast.Call) and attr_chain(c.func) == 're.compile' and c.args:
				pat = const_str(c.args[0])
		if pat is not None:
			try:
				return getattr(_re, a.func.attr)(pat, value) is not None
			except _re.error:
				return None
	if isinstance(a, ast.Compare) and len(a.ops) == 1 and isinstance(a.ops[0], (ast.IsNot, ast.Is)) and unparse(a.comparators[0]) == 'None':
		inner = _eval_str_atom(a.left, name_param, value, consts)
		if inner is None:
			return None
		return inner if isinstance(a.ops[0], ast.IsNot) else not inner
	return None


def rule_accessor(rep: Report, idx: SourceIndex) -> None:
	from vlib.match import X, atoms, nodes
	r = rep.rule('C08/visibility-follows-python-convention', 'to_accessor classifies a member name exactly as Python does (dunder -> public, other __name -> private, _name -> protected, else public), decided per sample spelling from the conditions guarding each return', floor=10)
	m = idx.mod('rogw/tranp/syntax/node/definition/accessible.py')
	rep.consulted(m.relpath)
	f = m.functions.get('to_accessor')
	if f is None:
		raise AnalysisError('accessible.py:to_accessor vanished')
	fx = X(f)
	pname = f.params()[0]
	consts = {n.targets[0].id: n.value for n in m.tree.body if isinstance(n, ast.Assign) and len(n.targets) == 1 and isinstance(n.targets[0], ast.Name)}
	rets = [(n, const_str(n.value)) for n in nodes(fx, ast.Return)]
	rets.sort(key=lambda t: (t[0].lineno, t[0].col_offset))
	if not rets or any(v is None for _, v in rets):
		r.skip('shape', f.where, 'to_accessor no longer returns constant access modifiers')
		r.floor = 1
		return
	for sample, want in SAMPLES.items():
		got = None
		undecidable = False
		for n, v in rets:
			truth = []
			for a, pol in atoms(fx, n):
				t = _eval_str_atom(a, pname, sample, consts)
				if t is None:
					undecidable = True
					break
				truth.append(t == pol)
			if undecidable:
				break
			if all(truth):
				got = v
				break
		if undecidable or got is None:
			r.skip(f'name:{sample}', f.where, 'a condition of to_accessor is not a recognised predicate over the name')
			continue
		r.check(got == want, f'name:{sample}', f.where, f'to_accessor classifies `{sample}` as {got}; in Python it is {want} (only names that both start and end with two underscores are special): a visibility-preserving renaming of the member would move it between the C++ access sections', sample)


# ---- templates: textual substitution of a name inside rendered code must respect identifier boundaries --------------------------------------

TEMPLATE_EXEMPT = {
	'statement/import:import_dir': 'include-directory prefix of a module *path* (configured include_dirs, entries end with "/"); module file names are outside the renaming of the property, same triage as Py2Cpp.on_import',
}


TEMPLATE_PREFIX_EXEMPT = {
	"flow/if/if:condition.startswith('std::is_same_v')": 'the compared text contains `::`; no Python identifier renders to C++ text beginning with std::is_same_v (emitted only by the isinstance/type-test templates)',
	"flow/if/else_if:condition.startswith('std::is_same_v')": 'same as flow/if/if',
}


def _flank_ok(parts: list, i: int) -> bool:
	"""the variable part i of a concatenated pattern is delimited on both sides by constant text that cannot be part of an identifier (or by a regexp word boundary)"""
	def edge(txt: str, side: str) -> bool:
		if not txt:
			return False
		if side == 'left':
			return txt.endswith('\\b') or not (txt[-1].isalnum() or txt[-1] == '_')
		return txt.startswith('\\b') or not (txt[0].isalnum() or txt[0] == '_')
	left = parts[i - 1] if i > 0 else None
	right = parts[i + 1] if i + 1 < len(parts) else None
	return bool(left is not None and left[0] == 'const' and edge(left[1], 'left') and right is not None and right[0] == 'const' and edge(right[1], 'right'))


def rule_templates(rep: Report) -> None:
	from vlib.templates import TemplateModel
	r = rep.rule('C08/template-name-substitution-anchored', 'a template that rewrites rendered code by replacing the text of a variable or a constant word (replace filter / reg_replace) delimits it on both sides by non-identifier text, a word boundary or a line anchor; otherwise listed with a reason', floor=3)
	tm = TemplateModel()
	n = tm.nodes

	def parts_of(e) -> list:
		if isinstance(e, n.Const) and isinstance(e.value, str):
			return [('const', e.value)]
		if isinstance(e, n.Concat):
			out = []
			for x in e.nodes:
				out.extend(parts_of(x))
			return out
		if isinstance(e, n.Add):
			return parts_of(e.left) + parts_of(e.right)
		return [('var', tm._src(e))]

	sites = 0
	for name in sorted(tm.asts):
		tree = tm.flat(name)
		cands = []
		for f in tree.find_all(n.Filter):
			if f.name == 'replace' and f.args:
				cands.append((f, f.args[0], 'replace'))
		for c_ in tree.find_all(n.Call):
			if isinstance(c_.node, n.Name) and c_.node.name == 'reg_replace' and c_.args:
				cands.append((c_, c_.args[0], 'reg_replace'))
		cands = [(node, alt, kind) for node, pat, kind in cands for alt in tm.alternatives(pat)]
		for node, pat, kind in cands:
			parts = parts_of(pat)
			merged: list = []
			for k_, v_ in parts:
				if k_ == 'const' and merged and merged[-1][0] == 'const':
					merged[-1] = ('const', merged[-1][1] + v_)
				else:
					merged.append((k_, v_))
			vars_ = [(i, v_) for i, (k_, v_) in enumerate(merged) if k_ == 'var']
			if not vars_:
				# a constant WORD (keyword) removed / rewritten in rendered code: an identifier that merely ends (begins) with the same letters is
				# rewritten too unless the open edge of the pattern is anchored (`^`, `\\b`) or is a non-identifier character
				text = ''.join(v_ for _, v_ in merged)
				if not any(ch.isalnum() or ch == '_' for ch in text):
					continue  # punctuation only (';' -> ',', '.' -> '/'): cannot cut into an identifier
				rep.consulted(tm.relpath(name))
				sites += 1
				key = f'{name}:{kind}({text!r})'
				where = (tm.relpath(name), getattr(node, 'lineno', 1))
				body = text
				left_anchor = right_anchor = False
				if kind == 'reg_replace':
					for a_ in ('^', '\\b', '\\A'):
						if body.startswith(a_):
							left_anchor, body = True, body[len(a_):]
					for a_ in ('$', '\\b', '\\Z'):
						if body.endswith(a_):
							right_anchor, body = True, body[:-len(a_)]
				left_open = bool(body) and (body[0].isalnum() or body[0] == '_') and not left_anchor
				right_open = bool(body) and (body[-1].isalnum() or body[-1] == '_') and not right_anchor
				if not left_open and not right_open:
					r.ok(key, where)
				elif key in TEMPLATE_EXEMPT:
					r.ok(key, where, message=f'exempt: {TEMPLATE_EXEMPT[key]}')
				else:
					r.violate(key, where, f'{kind}({text!r}, ...) rewrites rendered code wherever these letters occur: the {"left" if left_open else "right"} edge of the pattern is an identifier character with no anchor, so an identifier that merely {"ends" if left_open else "begins"} with them is cut (`n_return + 1` -> `n_+ 1`); renaming that variable changes the output beyond the renaming', text)
				continue
			rep.consulted(tm.relpath(name))
			for i, v_ in vars_:
				sites += 1
				key = f'{name}:{v_}'
				where = (tm.relpath(name), getattr(node, 'lineno', 1))
				if _flank_ok(merged, i):
					r.ok(key, where)
				elif key in TEMPLATE_EXEMPT:
					r.ok(key, where, message=f'exempt: {TEMPLATE_EXEMPT[key]}')
				else:
					shown = ' ~ '.join(repr(x[1]) if x[0] == 'const' else x[1] for x in merged)
					r.violate(key, where, f'{kind}({shown}, ...) rewrites rendered code wherever the TEXT of `{v_}` occurs: an identifier that merely contains it is rewritten too (`lambda e: e.value` -> `a.valua`), so a consistent renaming of the variable changes the output beyond the renaming', shown)
	# prefix / suffix tests on rendered text inside templates: the compared constant must end (prefix) / begin (suffix) with a non-identifier character
	rp = rep.rule('C08/template-prefix-tests-anchored', 'x.startswith(c) / x.endswith(c) in a template compares with a constant that is delimited at its open edge by a non-identifier character (`Iterator<`, ` self`), so a user identifier that merely starts/ends with the same letters does not match; otherwise listed with a reason', floor=15)
	for name in sorted(tm.asts):
		for c_ in tm.asts[name].find_all(n.Call):
			if not (isinstance(c_.node, n.Getattr) and c_.node.attr in ('startswith', 'endswith') and len(c_.args) == 1):
				continue
			a = c_.args[0]
			subject = tm._src(c_.node.node)
			key = f'{name}:{subject}.{c_.node.attr}({tm._src(a)})'
			where = (tm.relpath(name), getattr(c_, 'lineno', 1))
			if not (isinstance(a, n.Const) and isinstance(a.value, str) and a.value):
				rp.skip(key, where, 'compared text is not a constant')
				continue
			ch = a.value[-1] if c_.node.attr == 'startswith' else a.value[0]
			if not (ch.isalnum() or ch == '_'):
				rp.ok(key, where)
			elif key in TEMPLATE_PREFIX_EXEMPT:
				rp.ok(key, where, message=f'exempt: {TEMPLATE_PREFIX_EXEMPT[key]}')
			else:
				rp.violate(key, where, f'`{subject}.{c_.node.attr}({a.value!r})` also matches a user identifier that merely {"starts" if c_.node.attr == "startswith" else "ends"} with `{a.value}` (a class named {a.value}Box): renaming such a class changes which template branch renders it', a.value)
	# substring searches on a name: DecoratorHelper.any_args(x) is `join_args.find(x) != -1` (view/helper/decorator.py); with a variable argument it
	# matches every decorator argument that merely CONTAINS the text
	dh = SourceIndex().mod('rogw/tranp/view/helper/decorator.py')
	rep.consulted(dh.relpath)
	any_args = dh.cls('DecoratorHelper').method('any_args') if 'DecoratorHelper' in dh.classes else None
	is_substring = any_args is not None and any(isinstance(x, ast.Call) and isinstance(x.func, ast.Attribute) and x.func.attr in ('find', 'count', 'index') for x in ast.walk(any_args.node)) or (any_args is not None and any(isinstance(x, ast.Compare) and isinstance(x.ops[0], ast.In) for x in ast.walk(any_args.node)))
	rs = rep.rule('C08/template-substring-queries', 'no template asks a substring question about a rendered name: DecoratorHelper.any_args (a substring search over the joined decorator arguments) is called with constants only, or the site is listed', floor=1)
	n_calls = 0
	for name in sorted(tm.asts):
		for c_ in tm.asts[name].find_all(n.Call):
			if isinstance(c_.node, n.Getattr) and c_.node.attr == 'any_args' and c_.args:
				n_calls += 1
				a = c_.args[0]
				# the finding is keyed by WHAT is searched (an element of which list), not by the spelling of the loop variable
				what = tm._src(a)
				if isinstance(a, n.Name):
					for lp in tm.asts[name].find_all(n.For):
						if any(isinstance(t, n.Name) and t.name == a.name for t in [lp.target] + list(lp.target.find_all(n.Name))):
							what = f'each {tm._src(lp.iter)}'
				key = f'{name}:any_args({what})'
				where = (tm.relpath(name), getattr(c_, 'lineno', 1))
				if isinstance(a, n.Const) or not is_substring:
					rs.ok(key, where)
				else:
					rs.violate(key, where, f'`{tm._src(c_.node.node)}.any_args({tm._src(a)})` searches the text of `{tm._src(a)}` INSIDE the joined decorator arguments: `@Embed.ignore(A_Ext)` also ignores the base class `A` (`class C(A, A_Ext)` is emitted as `class C {{`), so renaming a class changes which bases are emitted', tm._src(a))
	if not n_calls:
		rs.skip('any_args-calls', (tm.relpath('class/class'), 1), 'no template calls any_args any more')
	rep.extra_coverage['template_substitution_sites'] = sites


def rule_merge(rep: Report, idx: SourceIndex) -> None:
	"""VarsCollector._merged decides whether an assignment in a nested block declares a new variable: it does not when SOME already collected declaration of
	the same name lives in an enclosing scope. The search must range over every collected declaration. Looking up one representative per name (a dict
	keyed by the bare name, first / last wins) makes the answer depend on an unrelated binding that merely has the same spelling: renaming either
	binding changes which statements are declarations."""
	from vlib.match import inlined_bodies2, may_reach, nodes as nodes_
	r = rep.rule('C08/declaration-merge-searches-all', 'in VarsCollector._merged the collected declaration whose scope is compared with the added variable ranges over all collected declarations (loop / comprehension over the collected mapping), never one representative selected by name', floor=1)
	m = idx.mod('rogw/tranp/syntax/node/definition/statement_compound.py')
	rep.consulted(m.relpath)
	f = m.func('VarsCollector._merged')
	if f is None:
		r.skip('compared-declaration', (m.relpath, 1), 'VarsCollector._merged vanished')
		return
	collected = f.params()[1] if f.params()[0] in ('cls', 'self') else f.params()[0]
	aliases = {collected} | {st.targets[0].id for st in f.node.body if isinstance(st, ast.Assign) and len(st.targets) == 1 and isinstance(st.targets[0], ast.Name) and isinstance(st.value, ast.Name) and st.value.id == collected}
	# the comparison may live in a same-class helper (`cls._relationed(decl_vars, add_var)`): it is judged where it is written, with the helper's
	# parameter that receives the collected mapping
	from vlib.norm import helper_closure
	def _has_cmp(g) -> bool:
		return sum(1 for c_ in ast.walk(g.node) if isinstance(c_, ast.Call) and unparse(c_.func).endswith('ModuleDSN.expanded')) >= 2
	if not _has_cmp(f):
		for g in helper_closure(f):
			if g is f or not _has_cmp(g):
				continue
			for c_ in ast.walk(f.node):
				if isinstance(c_, ast.Call) and isinstance(c_.func, ast.Attribute) and c_.func.attr == g.name and isinstance(c_.func.value, ast.Name) and c_.func.value.id in ('self', 'cls'):
					gp = [p_ for p_ in g.params() if p_ not in ('self', 'cls')]
					got = {gp[i] for i, a in enumerate(c_.args) if i < len(gp) and isinstance(a, ast.Name) and a.id in aliases}
					if got:
						f, aliases = g, got
						break
			if f is g:
				break
	bases: dict[str, ast.Name] = {}
	for body, chain in inlined_bodies2(f, 2):
		for c_ in nodes_(body, ast.Call):
			if unparse(c_.func).endswith('ModuleDSN.expanded') and c_.args and isinstance(c_.args[0], ast.Attribute) and c_.args[0].attr == 'scope' and isinstance(c_.args[0].value, ast.Name):
				bases.setdefault(c_.args[0].value.id, c_.args[0].value)
	if len(bases) < 2:
		r.skip('compared-declaration', f.where, f'_merged (and helpers) no longer compares ModuleDSN.expanded(<added>.scope) with ModuleDSN.expanded(<collected>.scope): {sorted(bases)}')
		return
	# locate each name's binding inside _merged itself
	decided = False
	for name in sorted(bases):
		at = (bases[name].lineno, bases[name].col_offset)
		uses = [n for n in ast.walk(f.node) if isinstance(n, ast.Name) and n.id == name and isinstance(n.ctx, ast.Load) and (n.lineno, n.col_offset) == at]
		if not uses:
			continue
		binds = may_reach(f.node, uses[0]) or []
		comp = [g for g in ast.walk(f.node) if isinstance(g, ast.comprehension) and any(isinstance(t, ast.Name) and t.id == name for t in ast.walk(g.target))]
		its = [b.iter for b in binds if isinstance(b, (ast.For, ast.AsyncFor))] + [g.iter for g in comp]
		if any(unparse(it).split('.')[0] not in aliases for it in its) and its:
			continue  # the added side: iterates the other mapping
		if its and all(unparse(it).split('.')[0] in aliases and unparse(it).endswith(('.values()', '.items()')) for it in its):
			decided = True
			r.ok('compared-declaration', f.where, message=f'`{name}` ranges over {sorted({unparse(it) for it in its})}')
			continue
		picks = [b for b in binds if isinstance(b, (ast.Assign, ast.AnnAssign)) and isinstance(b.value, (ast.Call, ast.Subscript))]
		sel = [b for b in picks if (isinstance(b.value, ast.Call) and isinstance(b.value.func, ast.Attribute) and b.value.func.attr in ('get', 'pop', 'setdefault')) or isinstance(b.value, ast.Subscript) or (isinstance(b.value, ast.Call) and unparse(b.value.func) in ('next', 'min', 'max'))]
		if sel:
			decided = True
			r.violate('compared-declaration', (m.relpath, sel[0].lineno), f'_merged compares the added variable with ONE collected declaration, `{unparse(sel[0])[:100]}`: when two unrelated bindings share a spelling (a loop-local `t`, then a function-level `t`), the representative is the wrong one, the nested assignment `t = 1` becomes a new declaration (`int t = 1;` shadows the outer variable); renaming either binding changes the output', unparse(sel[0])[:120])
	if not decided:
		r.skip('compared-declaration', f.where, f'binding of the compared declaration not recognised ({sorted(bases)})')
	# the search over the collected declarations may stop early only on a POSITIVE scope comparison: a break that follows the name filter alone makes the
	# first declaration with that spelling decide (a loop-local `t` collected before the function-level `t`)
	from vlib.fold import enclosing_loop
	from vlib.match import atoms as atoms_, expand_use
	from vlib.match import split_tuple_assigns
	fs = split_tuple_assigns(f.node)
	for lp in nodes_(fs, ast.For):
		if unparse(lp.iter).split('.')[0] not in aliases or not unparse(lp.iter).endswith(('.values()', '.items()')):
			continue
		for brk in nodes_(lp, (ast.Break, ast.Return)):
			if isinstance(brk, ast.Break) and enclosing_loop(fs, brk) is not lp:
				continue
			inside = [(a, p_) for a, p_ in atoms_(fs, brk) if any(a is x for x in ast.walk(lp))]
			scope_tests = [(a, p_) for a, p_ in inside if 'ModuleDSN.expanded' in unparse(expand_use(fs, a)) or '.scope' in unparse(expand_use(fs, a))]
			if scope_tests:
				r.ok('search-stops-on-match-only', (m.relpath, brk.lineno))
			else:
				r.violate('search-stops-on-match-only', (m.relpath, brk.lineno), f'the search over the collected declarations ends at `{unparse(brk)}` under {[(unparse(a)[:50], p_) for a, p_ in inside]} — no scope comparison: the FIRST collected declaration with the same spelling decides alone; with a loop-local `t` collected before the function-level `t`, a later `t = v` in a nested block is taken for a new declaration (`int t = v;` shadows the outer variable and the function returns the stale value)', unparse(brk))


def rule_identifier_classes(rep: Report, idx: SourceIndex) -> None:
	"""The post-processing regexps of the C++ back end re-read identifiers out of rendered code (class variable names, parameter names, member names in
	`this->x`). A Python identifier may contain upper- and lower-case letters, digits and `_`: a hand-written character class that lists `a-z` without
	`A-Z` (or the reverse) and is not compiled with IGNORECASE matches a name or not depending on its letter case, so renaming `_lim` to `_Lim` changes
	what the pattern extracts (here: the access specifier of the member falls back to public)."""
	import re._parser as sre
	r = rep.rule('C08/regexp-identifier-classes-case-complete', 'every character class in the constant regexps of the C++ back end that contains a letter range contains both cases (or \\w), unless the pattern is compiled with IGNORECASE', floor=10)
	n_pat = 0
	for rel in ('rogw/tranp/implements/cpp/transpiler/py2cpp.py', 'rogw/tranp/implements/cpp/view/cpp_view_helper.py'):
		m = idx.mod(rel)
		rep.consulted(rel)
		for c_ in ast.walk(m.tree):
			if not (isinstance(c_, ast.Call) and attr_chain(c_.func) in ('re.compile', 're.sub', 're.search', 're.match', 're.fullmatch', 're.split', 're.findall') and c_.args):
				continue
			pat = c_.args[0]
			text = None
			if isinstance(pat, ast.Constant) and isinstance(pat.value, str):
				text = pat.value
			elif isinstance(pat, ast.JoinedStr):
				text = ''.join(v.value if isinstance(v, ast.Constant) else 'X' for v in pat.values)  # interpolated parts stand for one word character
			if text is None:
				continue
			n_pat += 1
			flags = ' '.join(unparse(a) for a in c_.args[1:]) + ' '.join(unparse(kw.value) for kw in c_.keywords)
			key = f'{rel}:{text[:40]}'
			try:
				tree = sre.parse(text)
			except Exception as e:
				r.skip(key, (rel, c_.lineno), f'pattern not parseable: {e}')
				continue
			bad = []

			def scan(seq):
				for op, av in seq:
					if op is sre.IN:
						ranges = [(a, b) for o2, (a, b) in [(o, v) for o, v in av if o is sre.RANGE]]
						has_word = any(o is sre.CATEGORY and v in (sre.CATEGORY_WORD, sre.CATEGORY_NOT_WORD) for o, v in av)
						lower = any(a <= ord('a') and b >= ord('z') for a, b in ranges)
						upper = any(a <= ord('A') and b >= ord('Z') for a, b in ranges)
						if (lower != upper) and not has_word:
							bad.append('[a-z] without [A-Z]' if lower else '[A-Z] without [a-z]')
					elif op in (sre.MAX_REPEAT, sre.MIN_REPEAT):
						scan(av[2])
					elif op is sre.SUBPATTERN:
						scan(av[3])
					elif op is sre.BRANCH:
						for b in av[1]:
							scan(b)
					elif op in (sre.ASSERT, sre.ASSERT_NOT):
						scan(av[1])
			scan(list(tree))
			ignore = 'IGNORECASE' in flags or 're.I' in flags or text.startswith('(?i')
			r.check(not bad or ignore, key, (rel, c_.lineno), f'the pattern `{text[:70]}` has a character class with {bad[0] if bad else ""}: an identifier is matched or not depending on its letter case (`_lim` matches, `_Lim` does not), so a consistent renaming changes what is extracted from the rendered code', text[:100])
	if n_pat == 0:
		r.skip('patterns', None, 'no constant regexp found in the C++ back end')


def rule_scope_visibility(rep: Report, idx: SourceIndex) -> None:
	"""SymbolFinder.__allow_scope answers, for ONE candidate scope, whether a name used at `node` may be looked up there. For a class scope the answer is
	"only from directly inside that class's body" (not from its methods, not from a class nested in it): it relates the position of the node to the
	position of THAT class. A decision computed from the node's path alone (e.g. relative to the innermost enclosing class) gives the same answer for
	every enclosing class scope: the body of a nested class then sees the members of all outer classes, and which binding a bare name resolves to
	depends on whether an outer class happens to have a member of that spelling."""
	from vlib.match import expand_use, nodes
	r = rep.rule('C08/class-scope-visibility-relative-to-the-class', 'every non-constant decision SymbolFinder.__allow_scope returns for a class scope is computed from the examined scope (its class / path) as well as from the node', floor=1)
	m = idx.mod('rogw/tranp/semantics/finder.py')
	rep.consulted(m.relpath)
	f = m.func('SymbolFinder.__allow_scope')
	if f is None:
		r.skip('__allow_scope', (m.relpath, 1), 'SymbolFinder.__allow_scope vanished')
		return
	params = [p_ for p_ in f.params() if p_ not in ('self', 'cls')]
	if len(params) != 3:
		r.skip('__allow_scope', f.where, f'unexpected parameters {params}')
		return
	_, node_p, scope_p = params
	n_dec = 0
	from vlib.norm import helper_closure
	helpers = {g.name: g for g in helper_closure(f) if g is not f}
	for ret in nodes(f.node, ast.Return):
		v = ret.value
		if v is None or isinstance(v, ast.Constant):
			continue
		e = expand_use(f.node, v, depth=5)
		# may-dependence closure over every assignment of the function (tuple and starred targets included): a superset of what the value depends on
		names = {x.id for x in ast.walk(e) if isinstance(x, ast.Name)}
		grew = True
		while grew:
			grew = False
			for a in nodes(f.node, (ast.Assign, ast.AnnAssign, ast.AugAssign)):
				if getattr(a, 'value', None) is None:
					continue
				tgts = a.targets if isinstance(a, ast.Assign) else [a.target]
				tnames = {x.id for t in tgts for x in ast.walk(t) if isinstance(x, ast.Name)}
				if tnames & names:
					src = {x.id for x in ast.walk(a.value) if isinstance(x, ast.Name)}
					if not src <= names:
						names |= src
						grew = True
		if node_p not in names:
			continue  # decisions about the scope alone (kind of scope, presence in the table)
		n_dec += 1
		# a same-class helper that receives the scope (or something derived from it) counts as looking at it
		r.check(scope_p in names, f'return@{unparse(v)[:40]}', (m.relpath, ret.lineno), f'__allow_scope decides `{unparse(v)[:80]}` from `{node_p}` alone (after substituting locals: `{unparse(e)[:120]}`), without the examined scope `{scope_p}`: every enclosing class scope gets the same answer, so a bare name in the body of a nested class is looked up in the outer classes first and resolves to `Outer.<name>` whenever such a member exists (renaming that member changes the inferred type)', unparse(ret))
	if n_dec == 0:
		r.skip('__allow_scope', f.where, 'no decision of __allow_scope is computed from the node position')


def rule_member_lookup_scope(rep: Report, idx: SourceIndex) -> None:
	"""SymbolFinder.find_by_symbolic serves two lookups: a bare name (prop_name == '') is searched from the innermost scope outwards; a MEMBER of a
	class (`prop_name` given for a class node) exists in that class's own namespace only. Handing both the same outward scope list searches
	`<class name>.<member>` in every enclosing scope: a class nested in another class is answered by a module-level class that merely has the same
	spelling (`Outer.A.v` typed from `A.v`), before the base classes are tried. The scope list must therefore depend on `prop_name`."""
	from vlib.match import atoms as atoms_, nodes
	r = rep.rule('C08/member-lookup-stays-in-the-class-namespace', 'in SymbolFinder.find_by_symbolic the scope list handed to the search depends on prop_name (a member lookup does not walk the scopes enclosing the class)', floor=1)
	m = idx.mod('rogw/tranp/semantics/finder.py')
	f = m.func('SymbolFinder.find_by_symbolic')
	if f is None:
		r.skip('find_by_symbolic', (m.relpath, 1), 'SymbolFinder.find_by_symbolic vanished')
		return
	params = [p_ for p_ in f.params() if p_ not in ('self', 'cls')]
	prop_p = params[2] if len(params) >= 3 else None
	searches = [c_ for c_ in nodes(f.node, ast.Call) if isinstance(c_.func, ast.Attribute) and '__find_raw' in c_.func.attr and len(c_.args) >= 2]
	if prop_p is None or not searches:
		r.skip('find_by_symbolic', f.where, 'find_by_symbolic no longer hands a scope list to __find_raw / __find_raw_for_type')
		return
	for c_ in searches:
		sc = c_.args[1]
		names = {x.id for x in ast.walk(sc) if isinstance(x, ast.Name)}
		guards: list[ast.AST] = []
		grew = True
		while grew:
			grew = False
			for a in nodes(f.node, (ast.Assign, ast.AnnAssign, ast.AugAssign)):
				if getattr(a, 'value', None) is None:
					continue
				tgts = a.targets if isinstance(a, ast.Assign) else [a.target]
				if {x.id for t in tgts for x in ast.walk(t) if isinstance(x, ast.Name)} & names:
					src = {x.id for x in ast.walk(a.value) if isinstance(x, ast.Name)}
					ctl = {x.id for g, _ in atoms_(f.node, a) for x in ast.walk(g) if isinstance(x, ast.Name)}
					if not (src | ctl) <= names:
						names |= src | ctl
						grew = True
		r.check(prop_p in names, f'{c_.func.attr.lstrip("_")}:scopes', (m.relpath, c_.lineno), f'find_by_symbolic searches `{unparse(c_.args[2]) if len(c_.args) > 2 else "?"}` in `{unparse(sc)[:60]}`, a scope list that does not depend on `{prop_p}`: the member of a class is looked up like a bare name, from the scope of the class outwards, so for a class nested in a class a module-level class of the same spelling answers first (`class A: v: int`, `class Outer: class A(Base)` with Base.v: str -> `Outer.A.v` is typed int; renaming the unrelated module-level class changes the result)', unparse(c_))
	_member_scope_depths(r, m, f)


def _member_scope_depths(rep_rule, m, f) -> None:
	"""...and the list is the class's own namespace ALONE. find_by_symbolic and __make_scopes are evaluated (vlib/dsneval) on a class two scopes deep:
	each candidate scope `module.join(*elems[:i])` is represented by its prefix length i, the visibility filter is dropped (it can only remove), and the
	search call is replaced by the scope list it receives. A member lookup must search [2] (the innermost scope), a bare name [2, 1, 0]."""
	import copy, types
	from vlib import dsneval
	cls = f.cls
	g = cls.method('__make_scopes') if cls is not None else None
	if g is None:
		rep_rule.skip('member:own-namespace-only', f.where, 'SymbolFinder.__make_scopes vanished: the scope list is not evaluated')
		return

	class T(ast.NodeTransformer):
		def visit_ListComp(self, n: ast.ListComp):
			self.generic_visit(n)
			if len(n.generators) == 1 and isinstance(n.generators[0].target, ast.Name):
				n.generators[0].ifs = []
				tv = n.generators[0].target.id
				# `<dsn>.join(*elems[:i])` -> i
				if any(isinstance(x, ast.Starred) and isinstance(x.value, ast.Subscript) and isinstance(x.value.slice, ast.Slice) and x.value.slice.lower is None and isinstance(x.value.slice.upper, ast.Name) and x.value.slice.upper.id == tv for x in ast.walk(n.elt)):
					n.elt = ast.Name(id=tv, ctx=ast.Load())
			return n

		def visit_Call(self, n: ast.Call):
			self.generic_visit(n)
			if isinstance(n.func, ast.Attribute) and '__find_raw' in n.func.attr and len(n.args) >= 2:
				return n.args[1]
			return n
	fns = {}
	for name, fn in (('find_by_symbolic', f), ('__make_scopes', g)):
		node = ast.fix_missing_locations(T().visit(copy.deepcopy(fn.node)))
		fns[name] = types.SimpleNamespace(node=node, is_property=False, cls=None, name=name)
	fake = types.SimpleNamespace(method=lambda n: fns.get(n), bases_resolved=[])
	params = [p_ for p_ in f.params() if p_ not in ('self', 'cls')]
	scope_attr = next((unparse(x) for x in ast.walk(g.node) if isinstance(x, ast.Attribute) and x.attr == 'scope'), None)
	expanded = next((unparse(x) for x in ast.walk(g.node) if isinstance(x, ast.Call) and unparse(x.func).endswith('.expanded')), None)
	if len(params) < 3 or expanded is None:
		rep_rule.skip('member:own-namespace-only', g.where, '__make_scopes no longer derives the scopes from ModuleDSN.expanded(<node>.scope)')
		return
	env = {expanded: ('m', ['A', 'B'])}
	for fn in (f, g):
		for x in ast.walk(fn.node):
			if isinstance(x, ast.Call) and isinstance(x.func, ast.Name) and x.func.id == 'isinstance' and len(x.args) == 2:
				env[unparse(x)] = unparse(x.args[1]).endswith('ClassDef')
	got = {}
	for label, prop in (('member', 'v'), ('bare-name', '')):
		args = ['<db>', '<node>', prop][:len(params)] + ['<x>'] * max(0, len(params) - 3)
		got[label] = dsneval.call_function(fake, 'find_by_symbolic', args, {}, 0, dict(env))
	if got['bare-name'] != [2, 1, 0] or not isinstance(got['member'], list):
		rep_rule.skip('member:own-namespace-only', f.where, f'the scope lists could not be evaluated (bare name: {got["bare-name"]!r}, member: {got["member"]!r})')
		return
	rep_rule.check(got['member'] == [2], 'member:own-namespace-only', f.where, f'for a class two scopes deep (m#A.B) a member lookup searches the scopes of prefix lengths {got["member"]} (2 = the class\'s own scope m#A.B, 1 = m#A, 0 = the module): the member inherited by a nested class is answered by a same-named class of an enclosing scope before the base classes are tried — `Holder.Item(Base).count` is typed from an unrelated outer `Item.count`', str(got['member']))


def rule_import_alias(rep: Report, idx: SourceIndex) -> None:
	"""`from m import C as K`: inside this module the class is called K, inside m it is called C. When a dotted name `K.AA` is followed through the import,
	the key looked up in m must be built from the ENTITY name. Every member of the ImportAsName node that reads `self.alias` (symbol, tokens, the
	domain name — derived from the node classes, not listed) yields the local spelling: a key built from it exists only when alias and entity are
	spelled alike, so the same program is accepted with `import C` and rejected with `import C as K`."""
	from vlib.match import deref, nodes
	from vlib.nodemodel import NodeModel
	r = rep.rule('C08/imported-key-uses-the-entity-name', 'SymbolFinder.__find_imported_raw builds the key in the imported module from a member of the import node that does not depend on its alias (entity_symbol), never from one that does (symbol / tokens / domain_name)', floor=1)
	m = idx.mod('rogw/tranp/semantics/finder.py')
	f = m.func('SymbolFinder.__find_imported_raw')
	nm = NodeModel(idx)
	ian = nm.by_name.get('ImportAsName')
	if f is None or ian is None:
		r.skip('__find_imported_raw', (m.relpath, 1), 'SymbolFinder.__find_imported_raw or the node class ImportAsName vanished')
		return
	# members of ImportAsName (through the MRO) whose value depends on `self.alias`
	dep = {'alias'}
	grew = True
	members = {name for c in idx.mro(ian) for name in c.methods}
	while grew:
		grew = False
		for name in members - dep:
			g = idx.lookup(ian, name)
			if g is None:
				continue
			reads = {x.attr for x in ast.walk(g.node) if isinstance(x, ast.Attribute) and isinstance(x.value, ast.Name) and x.value.id == 'self'}
			if reads & dep:
				dep.add(name)
				grew = True
	joins = [c_ for c_ in nodes(f.node, ast.Call) if unparse(c_.func).endswith(('ModuleDSN.full_join', 'ModuleDSN.full_joined')) and len(c_.args) >= 2 and isinstance(c_.args[0], ast.Attribute) and c_.args[0].attr == 'module_path']
	if not joins:
		r.skip('__find_imported_raw', f.where, 'no ModuleDSN.full_join(<imported module>, <name>) in __find_imported_raw')
		return
	for c_ in joins:
		name_e = deref(f.node, c_.args[1])
		chain = []
		x = name_e
		while isinstance(x, ast.Attribute):
			chain.append(x.attr)
			x = x.value
		chain.reverse()  # e.g. ['node', 'entity_symbol', 'tokens'] on import_raw, or ['entity_symbol', 'tokens'] on a local holding the node
		first = next((a for a in chain if a != 'node'), None)
		key = f'full_join:{unparse(name_e)[:40]}'
		if first is None:
			r.skip(key, (m.relpath, c_.lineno), 'name part of the imported key is not a member of the import node')
		elif first in dep:
			r.violate(key, (m.relpath, c_.lineno), f'the key in the imported module is built from `{unparse(name_e)}`; `{first}` of an ImportAsName depends on its alias ({sorted(dep - {"alias"})} do): for `from m import C as K` the dotted type `K.AA` is searched as `m#K.AA`, is not found, and the declaration ends in SymbolNotDefined although the same program with `import C` / `C.AA` transpiles — the outcome depends on the spelling of a local alias', unparse(c_))
		elif first == 'entity_symbol' or (first == 'types' and 'domain_name' in chain):
			r.ok(key, (m.relpath, c_.lineno))
		else:
			r.skip(key, (m.relpath, c_.lineno), f'`{unparse(name_e)[:60]}`: member `{first}` not classified')


def rule_relatives_by_identity(rep: Report, idx: SourceIndex, tier: str) -> None:
	"""Whether a node IS the `prop` / `receiver` / n-th child of its parent is a fact about positions in the tree: `parent.prop == node` (node equality is
	module path + full path). Deciding it by comparing the SPELLING of the node with the spelling of (a part of) its relative — `DSN.right(parent.domain_name, 1)
	== var.domain_name` — is true for every node spelled like the member: in `size.size` the receiver is taken for the property as well, and a closure
	that reads `size.size` no longer captures `size`. Renaming the variable changes the output."""
	from vlib.match import expand_use
	r = rep.rule('C08/relatives-compared-by-identity', 'no equality test compares a name string of a node with a name string of its own parent / child / sibling (reached from the same object through .parent, .prop, .receiver, ...): such roles are decided by node identity', floor=1)
	RELATIVES = {'parent', 'prop', 'receiver', 'symbol', 'value', 'var_type', 'calls', 'key', 'left', 'right'}
	n_cmp = n_bad = 0

	def objects(e: ast.AST) -> list[tuple[str, ...]]:
		"""attribute paths (root, attr, attr, ...) of the objects whose name strings occur in e; the last attribute (the name attribute itself) is dropped"""
		out = []
		for x in ast.walk(e):
			if isinstance(x, ast.Attribute) and x.attr in IDENT_ATTRS:
				chain = []
				y = x.value
				while isinstance(y, ast.Attribute):
					chain.append(y.attr)
					y = y.value
				if isinstance(y, ast.Name):
					out.append((y.id, *reversed(chain)))
		return out
	for rel in files_for(idx, tier):
		m = idx.mod(rel)
		for q, f in m.functions.items():
			if '#' in q:
				continue
			for c_ in [n for n in walk_no_nested(f.node) if isinstance(n, ast.Compare)]:
				if len(c_.ops) != 1 or not isinstance(c_.ops[0], (ast.Eq, ast.NotEq)):
					continue
				l, rr = expand_use(f.node, c_.left), expand_use(f.node, c_.comparators[0])
				lo, ro = objects(l), objects(rr)
				if not lo or not ro:
					continue
				n_cmp += 1
				related = [(a, b) for a in lo for b in ro if a != b and a[0] == b[0] and (a[:len(b)] == b or b[:len(a)] == a) and set((a[len(b):] or b[len(a):])) <= RELATIVES]
				if related:
					n_bad += 1
					a, b = related[0]
					r.violate(f'{q}:{unparse(c_)[:50]}', (rel, c_.lineno), f'{q} compares the name of `{".".join(a)}` with the name of `{".".join(b)}` — a node and its own relative — by spelling (`{unparse(c_)[:90]}`): the test also holds for an unrelated node that is merely spelled like the member (`size.size`, `item.item`), so which variables a closure captures, or which role a node gets, depends on the names the user chose', unparse(c_))
	if n_bad == 0:
		r.ok('name-equalities', None, message=f'{n_cmp} equality tests between name strings of nodes; none relates a node to its own relative')


def rule_declarations_compared_as_nodes(rep: Report, idx: SourceIndex) -> None:
	"""Two declarations are the same binding when they are the same NODE (module path + full path); their `domain_name` / `tokens` are spellings, and two
	distinct bindings may share one — the type parameter `T` of a class and the `T` of its base class or of a method that shadows it. An equality of
	two nodes' name strings in the inference layer conflates such bindings: selecting schema paths by `template.domain_name ==
	target_template.domain_name` binds `Sub[T](Base[T])`'s two T's together (`Sub(1)` becomes `Sub<int>`; renamed to U it stays `Sub<U>`), so the
	inferred types change by more than the renaming. Expected count on the tree: zero; the recogniser runs on a positive example on every run."""
	r = rep.rule('C08/declarations-compared-as-nodes', 'in rogw/tranp/semantics and the C++ transpiler no `==` / `!=` compares the domain_name / tokens of one node with the domain_name / tokens of another node', floor=0)

	def sites(tree: ast.AST):
		for n in ast.walk(tree):
			if not (isinstance(n, ast.Compare) and len(n.ops) == 1 and isinstance(n.ops[0], (ast.Eq, ast.NotEq))):
				continue
			a, b = n.left, n.comparators[0]
			if isinstance(a, ast.Attribute) and isinstance(b, ast.Attribute) and a.attr in ('domain_name', 'tokens') and b.attr == a.attr and unparse(a.value) != unparse(b.value):
				yield n
	fixture = ast.parse('def f(schema_templates, target_template):\n\treturn [p for p, t in schema_templates.items() if t.domain_name == target_template.domain_name]\n')
	if len(list(sites(fixture))) != 1:
		raise AnalysisError('C08/declarations-compared-as-nodes: the recogniser no longer matches its positive example')
	n_ = 0
	for rel in list(idx.all_py(('rogw/tranp/semantics',))) + ['rogw/tranp/implements/cpp/transpiler/py2cpp.py']:
		m = idx.mod(rel)
		for n in sites(m.tree):
			n_ += 1
			r.violate(f'{rel}:{unparse(n)[:60]}', (rel, n.lineno), f'`{unparse(n)[:90]}` decides that two declarations are the same by their spelling: distinct bindings with one name (the type parameter T of a class and the T of its base class, a method parameter shadowing a class parameter) are taken for each other — `class Sub[T](Base[T])`, `Sub(1)` is inferred Sub<int> while the same program with Sub\'s parameter renamed to U gives Sub<U>: the output changes by more than the renaming', unparse(n)[:100])
	if n_ == 0:
		r.ok('no-spelling-comparison', None, message='no equality of two nodes\' name strings in the inference layer')
