"""C06 — non-forced runs leave every output equal to a forced run: structural clauses of the meta header round trip
and of target selection."""
from __future__ import annotations

import ast

from vlib.core import AnalysisError, Report
from vlib.py2cpp_model import PY2CPP
from vlib.schema import dict_keys, returned_dicts, subscripted_keys, typeddict_keys
from vlib.srcindex import SourceIndex, attr_chain, const_str, unparse, walk_no_nested
from vlib.templates import TemplateModel

EXPLANATION = (
	'Decides: (a) header field wiring is the identity — the keys MetaHeader.to_json writes equal the keys from_json reads; following raw[k] -> constructor parameter -> attribute -> to_json value for k\' gives k == k\' for every field; '
	'every attribute set in __init__ is serialised (so identity/__eq__, which hash to_json(), cover every field); the producers of the nested records return dict literals whose keys equal the TypedDicts; '
	'(b) the written and parsed forms agree — to_header_str emits Tag + separator + json, try_from_content skips len(Tag)+n with n inside the separator, the entrypoint template prints meta_header on its first output line, '
	'and the header embedded by Py2Cpp.on_entrypoint is built from the same two sources (module_meta_factory, transpiler meta) that Runner.can_transpile compares against; '
	'(c) the path the old header is read from is the path the output is written to, the non-forced branch filters with can_transpile and the forced branch takes every module. '
	'Dependency-driven staleness, injectivity of the output_dirs mapping and untouched mtimes are not decided.'
)
ASSUMPTIONS = ['the header hashes the module source only (documented mechanism); staleness through dependencies is outside this check', 'output path injectivity depends on configuration values']
TRUSTED_BASE = ['CPython ast', 'jinja2 parser as reader of block/entrypoint.j2']

HEADER = 'rogw/tranp/data/meta/header.py'
TYPES = 'rogw/tranp/data/meta/types.py'
TRANSPILE = 'rogw/tranp/bin/transpile.py'
PROVIDER = 'rogw/tranp/providers/module.py'
DUMMY = 'rogw/tranp/app/dummy.py'


def run(rep: Report, tier: str) -> None:
	idx = SourceIndex()
	h, t, tr, pv = idx.mod(HEADER), idx.mod(TYPES), idx.mod(TRANSPILE), idx.mod(PROVIDER)
	rep.consulted(HEADER, TYPES, TRANSPILE, PROVIDER, PY2CPP)
	mh = h.cls('MetaHeader')
	init, to_json, from_json = mh.method('__init__'), mh.method('to_json'), mh.method('from_json')
	to_hdr, try_from = mh.method('to_header_str'), mh.method('try_from_content')
	for f, nme in ((init, '__init__'), (to_json, 'to_json'), (from_json, 'from_json'), (to_hdr, 'to_header_str'), (try_from, 'try_from_content')):
		if f is None:
			raise AnalysisError(f'MetaHeader.{nme} vanished')

	# ---- (a) field wiring ----------------------------------------------------------------------------------------
	ra = rep.rule('C06/header-field-wiring', 'to_json keys == from_json keys; raw[k] -> ctor parameter -> attribute -> to_json value for k\' gives k == k\'; every attribute set in __init__ is serialised', floor=6)
	dicts = [n for n in ast.walk(to_json.node) if isinstance(n, ast.Dict)]
	if len(dicts) != 1:
		raise AnalysisError('MetaHeader.to_json no longer builds exactly one dict literal')
	wkeys = dict_keys(dicts[0])
	wvals = {const_str(k): v for k, v in zip(dicts[0].keys, dicts[0].values)}
	rkeys = subscripted_keys(from_json.node, 'raw')
	ra.check(set(wkeys) == rkeys, 'keys', to_json.where, f'to_json writes {sorted(k for k in wkeys if k)} but from_json reads {sorted(rkeys)}')
	# ctor call in from_json: cls(raw[k0], raw[k1], raw[k2]) -> params
	ctor = next((n for n in ast.walk(from_json.node) if isinstance(n, ast.Call) and isinstance(n.func, ast.Name) and n.func.id == 'cls'), None)
	params = init.params()[1:]
	# param -> attribute
	p2attr: dict[str, str] = {}
	attrs_set: set[str] = set()
	for n in walk_no_nested(init.node):
		if isinstance(n, ast.Assign) and isinstance(n.targets[0], ast.Attribute) and isinstance(n.targets[0].value, ast.Name) and n.targets[0].value.id == 'self':
			attrs_set.add(n.targets[0].attr)
			for x in ast.walk(n.value):
				if isinstance(x, ast.Name) and x.id in params:
					p2attr[x.id] = n.targets[0].attr
	attr2key = {}
	for k, v in wvals.items():
		if isinstance(v, ast.Attribute) and isinstance(v.value, ast.Name) and v.value.id == 'self':
			attr2key[v.attr] = k
	if ctor is None:
		ra.undecided('from_json:ctor', from_json.where, 'from_json no longer calls cls(...)')
	else:
		bound = {}
		for i, a in enumerate(ctor.args):
			if i < len(params):
				bound[params[i]] = a
		for kw in ctor.keywords:
			bound[kw.arg] = kw.value
		for pname, arg in bound.items():
			ks = subscripted_keys(arg, 'raw')
			k = next(iter(ks)) if len(ks) == 1 else None
			back = attr2key.get(p2attr.get(pname, ''))
			ra.check(k is not None and k == back, f'field:{pname}', (HEADER, ctor.lineno), f'raw[{k!r}] is passed as `{pname}`, stored in self.{p2attr.get(pname)}, and written back under key {back!r}: the header would not read back to the same value')
	for a in sorted(attrs_set):
		ra.check(a in attr2key, f'serialised:{a}', init.where, f'self.{a} is set in __init__ but not written by to_json: identity/__eq__ hash to_json() and would ignore it (a change of {a} would not trigger regeneration)')
	ident = mh.method('identity')
	eq = mh.method('__eq__')
	# __eq__ decides regeneration: it must cover every field, either through identity (hash of to_json(), which serialises every field) or field by field
	covered: set[str] = set()
	if eq is not None:
		for n in ast.walk(eq.node):
			if isinstance(n, ast.Compare) and len(n.ops) == 1 and isinstance(n.ops[0], (ast.Eq, ast.NotEq)):
				l, rgt = n.left, n.comparators[0]
				if isinstance(l, ast.Attribute) and isinstance(rgt, ast.Attribute) and isinstance(l.value, ast.Name) and isinstance(rgt.value, ast.Name) and l.attr == rgt.attr and {l.value.id, rgt.value.id} == {'self', 'other'}:
					covered.add(l.attr)
				if isinstance(l, ast.Call) and isinstance(rgt, ast.Call) and unparse(l.func).endswith('.to_json') and unparse(rgt.func).endswith('.to_json'):
					covered.add('identity')
	if 'identity' in covered:
		ok_ident = ident is not None and 'self.to_json()' in unparse(ident.node)
		ra.check(ok_ident, 'eq-covers-all-fields', (ident or mh).where, 'MetaHeader.identity is no longer derived from to_json(), so __eq__ (identity comparison) does not cover the serialised fields')
	else:
		missing = sorted(attrs_set - covered)
		ra.check(eq is not None and not missing, 'eq-covers-all-fields', (eq or mh).where, f'MetaHeader.__eq__ compares {sorted(covered)} only and ignores {missing}: a header that differs only in {missing} is treated as up to date, so the non-forced run skips a module the forced run would regenerate')

	# nested records
	rn = rep.rule('C06/nested-record-keys', 'producers of the nested records return dict literals whose keys equal the TypedDicts ModuleMeta / TranspilerMeta', floor=3)
	tds = typeddict_keys(t.tree)
	def producer(rel, qual, td):
		m = idx.mod(rel)
		rep.consulted(rel)
		f = m.functions.get(qual)
		if f is None:
			rn.violate(f'{rel}:{qual}', (rel, 1), f'producer {qual} vanished')
			return
		ds = [n for n in ast.walk(f.node) if isinstance(n, ast.Dict)]
		ds = [d for d in ds if all(const_str(k) is not None for k in d.keys) and d.keys]
		if not ds:
			rn.undecided(f'{rel}:{qual}', f.where, 'no dict literal returned')
			return
		for d in ds:
			rn.check(set(dict_keys(d)) == set(tds.get(td, {})), f'{rel}:{qual}', (rel, d.lineno), f'{qual} returns keys {sorted(dict_keys(d))}; TypedDict {td} declares {sorted(tds.get(td, {}))}')
	producer(PROVIDER, 'module_meta_factory.<locals>.handler', 'ModuleMeta')
	producer(DUMMY, 'make_dummy_module_meta_factory', 'ModuleMeta')
	producer(PY2CPP, 'Py2Cpp.meta', 'TranspilerMeta')
	# the hash in ModuleMeta is the hash of the module's own source file
	hf = pv.functions.get('module_meta_factory.<locals>.handler')
	if hf is not None:
		src = unparse(hf.node)
		rn.check("'hash': sources.hash(filepath)" in src and 'module_path_to_filepath(target_module_path.path' in src, 'module-hash-source', hf.where, 'ModuleMeta.hash is no longer sources.hash(<file of the module>)')

	# ---- (b) written vs parsed form ------------------------------------------------------------------------------------
	rb = rep.rule('C06/header-text-roundtrip', 'to_header_str and try_from_content agree on tag and separator; the entrypoint template prints meta_header on its first line; embedded and compared headers come from the same sources', floor=6)
	tag = mh.class_attrs.get('Tag')
	tagv = const_str(tag) if tag is not None else None
	rb.check(bool(tagv) and '\n' not in tagv and '}' not in tagv, 'tag', mh.where, f'MetaHeader.Tag = {tagv!r}')
	# f'{self.Tag}: {self.to_json()}'
	js = next((n for n in ast.walk(to_hdr.node) if isinstance(n, ast.JoinedStr)), None)
	sep = None
	if js is not None and len(js.values) == 3 and isinstance(js.values[1], ast.Constant) and 'Tag' in unparse(js.values[0]) and 'to_json' in unparse(js.values[2]):
		sep = js.values[1].value
	if sep is None:
		rb.undecided('separator', to_hdr.where, 'to_header_str is no longer f"{Tag}<sep>{json}"')
	else:
		# json_begin = header_begin + len(Tag) + n
		skip = None
		for n in ast.walk(try_from.node):
			if isinstance(n, ast.Assign) and unparse(n.targets[0]) == 'json_begin':
				v = n.value
				if isinstance(v, ast.BinOp) and isinstance(v.op, ast.Add) and isinstance(v.right, ast.Constant) and 'len(' in unparse(v.left) and 'Tag' in unparse(v.left):
					skip = v.right.value
				elif 'len(' in unparse(v) and 'Tag' in unparse(v):
					skip = 0
		if skip is None:
			rb.undecided('skip', try_from.where, 'json_begin is no longer header_begin + len(Tag) + n')
		else:
			rb.check(0 <= skip <= len(sep) and sep[skip:].strip() == '' and sep[:skip].strip() in ('', ':'), 'skip-inside-separator', try_from.where, f'try_from_content skips len(Tag)+{skip} but the writer separates tag and JSON with {sep!r}: the JSON slice would start inside the JSON or before the separator\'s non-blank part')
		src = unparse(try_from.node)
		rb.check('content.find(MetaHeader.Tag)' in src or 'content.find(cls.Tag)' in src, 'find-tag', try_from.where, 'try_from_content no longer searches for MetaHeader.Tag')
		rb.check("content.find('\\n', json_begin)" in src and "content.rfind('}', json_begin, line_break)" in src, 'line-bounded', try_from.where, 'the JSON slice is no longer bounded by the end of the header line')
	tm = TemplateModel()
	ep = 'block/entrypoint'
	rep.consulted(tm.relpath(ep))
	if not tm.parses(ep):
		rb.violate('entrypoint-template', (tm.relpath(ep), 1), 'block/entrypoint.j2 missing or unparseable')
	else:
		n = tm.nodes
		first = tm.asts[ep].body[0] if tm.asts[ep].body else None
		line1 = []
		if isinstance(first, n.Output):
			for e in first.nodes:
				if isinstance(e, n.TemplateData):
					if '\n' in e.data:
						line1.append(('text', e.data.split('\n')[0]))
						break
					line1.append(('text', e.data))
				elif isinstance(e, n.Name):
					line1.append(('var', e.name))
				else:
					line1.append(('expr', ''))
		rb.check(('var', 'meta_header') in line1 and all(k != 'expr' for k, _ in line1), 'entrypoint-first-line', (tm.relpath(ep), 1), f'the first output line of block/entrypoint.j2 is {line1}; the header must be printed there (try_from_content reads up to the first line break after the tag)')
	# embedded header vs compared header: same constructor arguments (module meta factory of the module path, transpiler meta)
	py = idx.mod(PY2CPP)
	oe = py.func('Py2Cpp.on_entrypoint')
	emb = [n for n in ast.walk(oe.node) if isinstance(n, ast.Call) and attr_chain(n.func) == 'MetaHeader']
	ct = tr.func('Runner.can_transpile')
	cmp_ = [n for n in ast.walk(ct.node) if isinstance(n, ast.Call) and attr_chain(n.func) == 'MetaHeader']
	ok = len(emb) == 1 and len(cmp_) == 1 and len(emb[0].args) == 2 and len(cmp_[0].args) == 2
	if ok:
		a0, a1 = unparse(emb[0].args[0]), unparse(emb[0].args[1])
		b0, b1 = unparse(cmp_[0].args[0]), unparse(cmp_[0].args[1])
		ok = a0 == 'self.module_meta_factory(node.module_path)' and b0 == 'self.module_meta_factory(module_path.path)' and a1 == 'self.meta' and b1 == 'self.transpiler.meta'
	rb.check(ok, 'same-sources', oe.where, 'the header embedded by on_entrypoint and the header Runner.can_transpile compares against are no longer built from (module_meta_factory(module path), transpiler meta)')
	rb.check("'meta_header': meta_header.to_header_str()" in unparse(oe.node), 'embedded-form', oe.where, 'on_entrypoint no longer passes meta_header.to_header_str() to the template')
	rb.check('new_meta != old_meta' in unparse(ct.node) and 'if not old_meta' in unparse(ct.node), 'compare', ct.where, 'can_transpile no longer regenerates when the old header is missing or differs')

	# ---- (c) read path == write path -----------------------------------------------------------------------------------------
	rule_paths(rep, idx)
	rc = rep.rule('C06/read-path-is-write-path', 'the old header is read from the path the output is written to; non-forced runs filter with can_transpile, forced runs take every module', floor=4)
	tl = tr.func('Runner.try_load_meta_header')
	ri = tr.func('Runner._run_impl')
	read_path = [unparse(n.value) for n in ast.walk(tl.node) if isinstance(n, ast.Assign) and unparse(n.targets[0]) == 'filepath']
	write_path = [unparse(n.args[0]) for n in ast.walk(ri.node) if isinstance(n, ast.Call) and attr_chain(n.func) == 'Writer' and n.args]
	rc.check(read_path == ['self.output_filepath(module_path)'] and write_path == ['self.output_filepath(module_path)'], 'same-path', tl.where, f'header is read from {read_path} but the output is written to {write_path}')
	rc.check('self.sources.exists(filepath)' in unparse(tl.node) and 'MetaHeader.try_from_content(self.sources.load(filepath))' in unparse(tl.node), 'read-existing', tl.where, 'try_load_meta_header no longer parses the existing output file')
	sel = next((n for n in ast.walk(ri.node) if isinstance(n, ast.IfExp) and 'force' in unparse(n.test)), None)
	if sel is None:
		rc.undecided('target-selection', ri.where, 'target selection is no longer `all if force else filtered`')
	else:
		rc.check(unparse(sel.test) == 'self.config.force' and unparse(sel.body) == 'self.module_paths', 'forced-all', ri.where, f'forced branch takes `{unparse(sel.body)}` when `{unparse(sel.test)}`')
		rc.check(isinstance(sel.orelse, ast.ListComp) and 'self.can_transpile(module_path)' in unparse(sel.orelse) and 'for module_path in self.module_paths' in unparse(sel.orelse), 'non-forced-filter', ri.where, f'non-forced branch is `{unparse(sel.orelse)}`')
	loop = next((n for n in ast.walk(ri.node) if isinstance(n, ast.For)), None)
	rc.check(loop is not None and 'self.transpiler.transpile(self.by_entrypoint(module_path))' in unparse(loop) and 'writer.put(content)' in unparse(loop) and 'writer.flush()' in unparse(loop), 'write-each-target', ri.where, 'each selected module is no longer transpiled and written')


# ---- (d) output path mapping: each rule maps distinct module files to distinct outputs ---------------------------------------------

def rule_paths(rep: Report, idx: SourceIndex) -> None:
	r = rep.rule('C06/output-path-injective-per-rule', 'every branch of Runner.fetch_output_path joins the output directory with the file path itself or with the path minus its *leading* matched prefix (an injective transformation), so distinct modules matched by one rule never share an output file', floor=3)
	m = idx.mod(TRANSPILE)
	f = m.func('Runner.fetch_output_path')
	from vlib.flow import parent_map
	pm = parent_map(f.node)
	rets = [n for n in ast.walk(f.node) if isinstance(n, ast.Return)]
	if len(rets) < 3:
		r.undecided('returns', f.where, f'fetch_output_path has {len(rets)} returns; expected glob rule, prefix rule, fallback')
	for ret in rets:
		v = ret.value
		key = f'fetch_output_path:{unparse(v)[:70]}'
		if not (isinstance(v, ast.Call) and attr_chain(v.func) == 'os.path.join' and len(v.args) == 2):
			r.undecided(key, (TRANSPILE, ret.lineno), 'return is not os.path.join(<dir>, <path>)')
			continue
		p = v.args[1]
		src = unparse(p)
		test = None
		cur = ret
		while id(cur) in pm:
			par = pm[id(cur)]
			if isinstance(par, ast.If) and any(cur is s_ for s_ in par.body):
				test = unparse(par.test)
				break
			cur = par
		if src in ('filepath', '_filepath'):
			r.ok(key, (TRANSPILE, ret.lineno))
		elif isinstance(p, ast.Subscript) and isinstance(p.slice, ast.Slice) and p.slice.upper is None and p.slice.lower is not None and unparse(p.value) in ('filepath', '_filepath') and unparse(p.slice.lower) == 'len(condition)':
			r.check(test is not None and '_filepath.startswith(condition)' in test, key, (TRANSPILE, ret.lineno), f'the leading len(condition) characters are cut although the branch does not establish that the path starts with `condition` (test: {test})')
		elif isinstance(p, ast.Call) and isinstance(p.func, ast.Attribute) and p.func.attr == 'removeprefix':
			r.ok(key, (TRANSPILE, ret.lineno))
		elif isinstance(p, ast.Call) and isinstance(p.func, ast.Attribute) and p.func.attr in ('replace', 'strip', 'lstrip', 'rstrip', 'split'):
			r.violate(key, (TRANSPILE, ret.lineno), f'`{src}` is not injective on file paths ({p.func.attr} affects every occurrence / a character set, not just the matched leading prefix): two modules such as src/lib/util.py and src/lib/src/util.py map to one output file, and forced vs non-forced runs then diverge', src)
		else:
			r.undecided(key, (TRANSPILE, ret.lineno), f'cannot classify the path transformation `{src}`')
