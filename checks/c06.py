"""C06 — non-forced runs leave every output equal to a forced run: structural clauses of the meta header round trip
and of target selection."""
from __future__ import annotations

import ast

from vlib.core import AnalysisError, Report
from vlib.flow import parent_map
from vlib.match import FI, calls, closure, closure_fi, concat_parts, facts_through, has_call, nodes
from vlib.py2cpp_model import PY2CPP
from vlib.schema import dict_keys, returned_dicts, subscripted_keys, typeddict_keys
from vlib.srcindex import SourceIndex, attr_chain, const_str, unparse, walk_no_nested
from vlib.templates import TemplateModel

EXPLANATION = (
	'Decides: (a) header field wiring is the identity — the keys MetaHeader.to_json writes equal the keys from_json reads; following raw[k] -> constructor parameter -> attribute -> to_json value for k\' gives k == k\' for every field; '
	'every attribute set in __init__ is serialised (so identity/__eq__, which hash to_json(), cover every field); the producers of the nested records return dict literals whose keys equal the TypedDicts; '
	'(b) the written and parsed forms agree — to_header_str emits Tag + separator + json, try_from_content skips len(Tag)+n with n inside the separator, the entrypoint template prints meta_header on its first output line, '
	'and the header embedded by Py2Cpp.on_entrypoint is built from the same two sources (module_meta_factory, transpiler meta) that Runner.can_transpile compares against; '
	'(c) the path the old header is read from is the path the output is written to, the non-forced branch filters with can_transpile and the forced branch takes every module. '
	'Dependency-driven staleness, injectivity of the output_dirs mapping and untouched mtimes are not decided.'
)
ASSUMPTIONS = ['the header hashes the module source only (documented mechanism); staleness through dependencies is outside this check', 'output path injectivity depends on configuration values']
TRUSTED_BASE = ['CPython ast', 'jinja2 parser as reader of block/entrypoint.j2']

HEADER = 'rogw/tranp/data/meta/header.py'
TYPES = 'rogw/tranp/data/meta/types.py'
TRANSPILE = 'rogw/tranp/bin/transpile.py'
PROVIDER = 'rogw/tranp/providers/module.py'
DUMMY = 'rogw/tranp/app/dummy.py'


def run(rep: Report, tier: str) -> None:
	idx = SourceIndex()
	rule_version_constants(rep, idx)
	h, t, tr, pv = idx.mod(HEADER), idx.mod(TYPES), idx.mod(TRANSPILE), idx.mod(PROVIDER)
	rep.consulted(HEADER, TYPES, TRANSPILE, PROVIDER, PY2CPP)
	mh = h.cls('MetaHeader')
	init, to_json, from_json = mh.method('__init__'), mh.method('to_json'), mh.method('from_json')
	to_hdr, try_from = mh.method('to_header_str'), mh.method('try_from_content')
	for f, nme in ((init, '__init__'), (to_json, 'to_json'), (from_json, 'from_json'), (to_hdr, 'to_header_str'), (try_from, 'try_from_content')):
		if f is None:
			raise AnalysisError(f'MetaHeader.{nme} vanished')

	# ---- (a) field wiring ----------------------------------------------------------------------------------------
	ra = rep.rule('C06/header-field-wiring', 'to_json keys == from_json keys; raw[k] -> ctor parameter -> attribute -> to_json value for k\' gives k == k\'; every attribute set in __init__ is serialised', floor=6)
	tj = FI(to_json)
	dicts = [a for c in calls(tj, 'dumps') for a in c.args[:1] if isinstance(a, ast.Dict)]
	if len(dicts) != 1:
		raise AnalysisError('MetaHeader.to_json no longer json.dumps exactly one dict literal')
	wkeys = dict_keys(dicts[0])
	wvals = {const_str(k): v for k, v in zip(dicts[0].keys, dicts[0].values)}
	fj = FI(from_json)
	ctor = next((n for n in nodes(fj, ast.Call) if isinstance(n.func, ast.Name) and n.func.id in ('cls', 'MetaHeader')), None)

	def loaded_key(e: ast.AST) -> str | None:
		"""e is <json.loads(...)>[<const>]"""
		if isinstance(e, ast.Subscript) and has_call(e.value, 'loads'):
			return const_str(e.slice)
		if isinstance(e, ast.Call) and isinstance(e.func, ast.Attribute) and e.func.attr == 'get' and has_call(e.func.value, 'loads') and e.args:
			return const_str(e.args[0])
		return None

	rkeys = {loaded_key(n) for n in nodes(fj) if loaded_key(n)}
	ra.check(set(wkeys) == rkeys, 'keys', to_json.where, f'to_json writes {sorted(k for k in wkeys if k)} but from_json reads {sorted(rkeys)}')
	params = init.params()[1:]
	# param -> attribute
	p2attr: dict[str, str] = {}
	attrs_set: set[str] = set()
	for n in walk_no_nested(init.node):
		tgt = n.targets[0] if isinstance(n, ast.Assign) else n.target if isinstance(n, ast.AnnAssign) and n.value is not None else None
		if isinstance(tgt, ast.Attribute) and isinstance(tgt.value, ast.Name) and tgt.value.id == 'self':
			attrs_set.add(tgt.attr)
			for x in ast.walk(n.value):
				if isinstance(x, ast.Name) and x.id in params:
					p2attr[x.id] = tgt.attr
	attr2key = {}
	for k, v in wvals.items():
		if isinstance(v, ast.Attribute) and isinstance(v.value, ast.Name) and v.value.id == 'self':
			attr2key[v.attr] = k
	if ctor is None:
		ra.skip('from_json:ctor', from_json.where, 'from_json no longer calls cls(...)')
	else:
		bound = {}
		for i, a in enumerate(ctor.args):
			if i < len(params):
				bound[params[i]] = a
		for kw in ctor.keywords:
			bound[kw.arg] = kw.value
		for pname, arg in bound.items():
			k = loaded_key(arg)
			back = attr2key.get(p2attr.get(pname, ''))
			if k is None:
				ra.skip(f'field:{pname}', (HEADER, ctor.lineno), f'constructor argument `{unparse(arg)}` is not a key of the loaded JSON object')
			else:
				ra.check(k == back, f'field:{pname}', (HEADER, ctor.lineno), f'raw[{k!r}] is passed as `{pname}`, stored in self.{p2attr.get(pname)}, and written back under key {back!r}: the header would not read back to the same value')
	for a in sorted(attrs_set):
		ra.check(a in attr2key, f'serialised:{a}', init.where, f'self.{a} is set in __init__ but not written by to_json: identity/__eq__ hash to_json() and would ignore it (a change of {a} would not trigger regeneration)')
	ident = mh.method('identity')
	eq = mh.method('__eq__')
	# __eq__ decides regeneration: it must cover every field, either through identity (hash of to_json(), which serialises every field) or field by field
	covered: set[str] = set()
	if eq is not None:
		for n in nodes(FI(eq), ast.Compare):
			if len(n.ops) == 1 and isinstance(n.ops[0], (ast.Eq, ast.NotEq)):
				l, rgt = n.left, n.comparators[0]
				if isinstance(l, ast.Attribute) and isinstance(rgt, ast.Attribute) and isinstance(l.value, ast.Name) and isinstance(rgt.value, ast.Name) and l.attr == rgt.attr and l.value.id != rgt.value.id and 'self' in (l.value.id, rgt.value.id):
					covered.add(l.attr)
				if isinstance(l, ast.Call) and isinstance(rgt, ast.Call) and unparse(l.func).endswith('.to_json') and unparse(rgt.func).endswith('.to_json'):
					covered.add('identity')
	if 'identity' in covered:
		ok_ident = ident is not None and has_call(FI(ident), 'self.to_json')
		ra.check(ok_ident, 'eq-covers-all-fields', (ident or mh).where, 'MetaHeader.identity is no longer derived from to_json(), so __eq__ (identity comparison) does not cover the serialised fields')
	else:
		missing = sorted(attrs_set - covered)
		ra.check(eq is not None and not missing, 'eq-covers-all-fields', (eq or mh).where, f'MetaHeader.__eq__ compares {sorted(covered)} only and ignores {missing}: a header that differs only in {missing} is treated as up to date, so the non-forced run skips a module the forced run would regenerate')

	# nested records
	rn = rep.rule('C06/nested-record-keys', 'producers of the nested records return dict literals whose keys equal the TypedDicts ModuleMeta / TranspilerMeta', floor=3)
	tds = typeddict_keys(t.tree)
	def producer(rel, qual, td):
		m = idx.mod(rel)
		rep.consulted(rel)
		f = m.functions.get(qual)
		if f is None:
			rn.violate(f'{rel}:{qual}', (rel, 1), f'producer {qual} vanished')
			return
		ds = [n for n in ast.walk(f.node) if isinstance(n, ast.Dict)]
		ds = [d for d in ds if all(const_str(k) is not None for k in d.keys) and d.keys]
		if not ds:
			rn.skip(f'{rel}:{qual}', f.where, 'no dict literal returned')
			return
		for d in ds:
			rn.check(set(dict_keys(d)) == set(tds.get(td, {})), f'{rel}:{qual}', (rel, d.lineno), f'{qual} returns keys {sorted(dict_keys(d))}; TypedDict {td} declares {sorted(tds.get(td, {}))}')
	producer(PROVIDER, 'module_meta_factory.<locals>.handler', 'ModuleMeta')
	producer(DUMMY, 'make_dummy_module_meta_factory', 'ModuleMeta')
	producer(PY2CPP, 'Py2Cpp.meta', 'TranspilerMeta')
	# the hash in ModuleMeta is the hash of the module's own source file
	hf = pv.functions.get('module_meta_factory.<locals>.handler')
	if hf is not None:
		hx = FI(hf)
		param = hf.params()[0] if hf.params() else ''
		hv = [v for d in nodes(hx, ast.Dict) for k, v in zip(d.keys, d.values) if const_str(k) == 'hash']
		if not hv:
			rn.skip('module-hash-source', hf.where, 'the module meta handler no longer returns a dict literal with a `hash` key')
		for v in hv:
			is_hash = isinstance(v, ast.Call) and unparse(v.func).endswith('.hash') and v.args
			to_file = is_hash and has_call(v.args[0], 'module_path_to_filepath') and any(isinstance(x, ast.Name) and x.id == param for x in ast.walk(v.args[0]))
			# the hashed file is THE file of the module: selected by equality, never by a prefix/suffix/substring relation between paths
			loose = [unparse(x)[:80] for x in ast.walk(v.args[0]) if (isinstance(x, ast.Call) and isinstance(x.func, ast.Attribute) and x.func.attr in ('startswith', 'endswith', 'find', 'rfind', 'count'))
				or (isinstance(x, ast.Compare) and len(x.ops) == 1 and isinstance(x.ops[0], (ast.In, ast.NotIn)) and not isinstance(x.comparators[0], (ast.List, ast.Tuple, ast.Set, ast.Dict, ast.Name, ast.Attribute)))] if is_hash else []
			rn.check(not loose, 'module-hash-source:exact', hf.where, f'the file whose hash goes into the header is selected with `{loose[:1]}`: a prefix/substring relation between file paths also matches a sibling (vector.py / vector_ext.py), so the header of one module records the hash of another and an edit never triggers regeneration', unparse(v)[:200])
			covers_own = any(isinstance(x, ast.Call) and unparse(x.func).endswith('.hash') and x.args and has_call(x.args[0], 'module_path_to_filepath') and any(isinstance(y, ast.Name) and y.id == param for y in ast.walk(x.args[0])) for x in ast.walk(v))
			rn.check(bool(is_hash and to_file) or covers_own, 'module-hash-source', hf.where, f'ModuleMeta.hash must cover sources.hash(<file of the module `{param}`>): `{unparse(v)[:160]}`', unparse(v)[:200])
			# the output of a module depends on the modules it imports (inferred types, signatures): the recorded hash must change when one of them changes
			deps = any((isinstance(x, ast.Attribute) and x.attr in ('imports', 'dependencies')) or (isinstance(x, ast.Call) and isinstance(x.func, ast.Attribute) and x.func.attr in ('identity', 'dependencies', 'imports')) for b_ in closure_fi(hf) for x in ast.walk(b_))
			rn.check(deps, 'module-hash-covers-imports', hf.where, 'the hash recorded in the header is the hash of the module\'s own file only: after an edit of an imported module (`def get(self) -> int` becomes `-> str`) a non-forced run leaves the importer\'s output as it was (`int x = a.get();`) while a forced run writes `std::string x = a.get();`', unparse(v)[:160])

	# ---- (b) written vs parsed form ------------------------------------------------------------------------------------
	rb = rep.rule('C06/header-text-roundtrip', 'to_header_str and try_from_content agree on tag and separator; the entrypoint template prints meta_header on its first line; embedded and compared headers come from the same sources', floor=6)
	tag = mh.class_attrs.get('Tag')
	tagv = const_str(tag) if tag is not None else None
	rb.check(bool(tagv) and '\n' not in tagv and '}' not in tagv, 'tag', mh.where, f'MetaHeader.Tag = {tagv!r}')
	# Tag + sep + to_json()
	th = FI(to_hdr)
	ret = next((n.value for n in nodes(th, ast.Return) if n.value is not None), None)
	parts = concat_parts(ret) if ret is not None else []
	sep = None
	if len(parts) == 3 and parts[0][0] == 'expr' and parts[1][0] == 'const' and parts[2][0] == 'expr' and unparse(parts[0][1]).endswith('Tag') and has_call(parts[2][1], 'to_json'):
		sep = parts[1][1]
	tf = FI(try_from)
	cparam = try_from.params()[1] if len(try_from.params()) > 1 else 'content'
	slices = [n for n in nodes(tf, ast.Subscript) if isinstance(n.slice, ast.Slice) and unparse(n.value) == cparam and n.slice.lower is not None]
	if sep is None:
		rb.skip('separator', to_hdr.where, 'to_header_str is no longer Tag + <separator> + to_json()')
	elif not slices:
		rb.skip('skip', try_from.where, 'try_from_content no longer slices the JSON text out of the content')
	else:
		low = slices[0].slice.lower
		terms = [('expr', t) if k == 'expr' else ('const', t) for k, t in _sum_terms(low)]
		consts = [t for k, t in terms if k == 'const']
		exprs = [unparse(t) for k, t in terms if k == 'expr']
		has_find = any('find(' in e and 'Tag' in e for e in exprs)
		has_len = any(e.startswith('len(') and 'Tag' in e for e in exprs)
		if not (has_find and has_len and len(exprs) == 2 and all(isinstance(c, int) for c in consts)):
			rb.skip('skip', try_from.where, f'the JSON slice no longer starts at find(Tag) + len(Tag) + n: `{unparse(low)[:120]}`')
		else:
			skip = sum(consts)
			rb.check(0 <= skip <= len(sep) and sep[skip:].strip() == '' and sep[:skip].strip() in ('', ':'), 'skip-inside-separator', try_from.where, f'try_from_content skips len(Tag)+{skip} but the writer separates tag and JSON with {sep!r}: the JSON slice would start inside the JSON or before the separator\'s non-blank part')
			rb.ok('find-tag', try_from.where)
		up = slices[0].slice.upper
		if up is not None and any(c.args and const_str(c.args[0]) == '\n' for c in calls(up, ('find', 'index'))):
			closing = [c for c in calls(up, ('rfind', 'rindex')) if c.args and const_str(c.args[0]) == '}']
			rb.check(bool(closing) and sum(t for k, t in _sum_terms(up) if k == 'const' and isinstance(t, int)) == 1, 'line-bounded', try_from.where, f'the JSON slice must end just after the last `}}` before the end of the header line: `{unparse(up)[:160]}`')
		else:
			rb.skip('line-bounded', try_from.where, 'the JSON slice is no longer bounded by the first line break after the tag')
	# an output whose header line cannot be decoded (file cut off, a key missing) has NO header: try_from_content must answer None for it, like for a
	# missing tag, so that the module is regenerated — a decode error that escapes aborts the non-forced run while a forced run succeeds
	pmap = parent_map(try_from.node)
	decodes = [c_ for c_ in walk_no_nested(try_from.node) if isinstance(c_, ast.Call) and isinstance(c_.func, ast.Attribute) and c_.func.attr in ('from_json', 'loads')]
	if not decodes:
		rb.skip('damaged-header-is-no-header', try_from.where, 'try_from_content no longer calls from_json / json.loads')
	for c_ in decodes:
		caught: set[str] = set()
		cur = c_
		while id(cur) in pmap:
			par = pmap[id(cur)]
			if isinstance(par, ast.Try) and any(cur is s_ for s_ in par.body):
				for h in par.handlers:
					names = ['BaseException'] if h.type is None else [unparse(x).split('.')[-1] for x in (h.type.elts if isinstance(h.type, ast.Tuple) else [h.type])]
					returns_none = any(isinstance(x, ast.Return) and (x.value is None or (isinstance(x.value, ast.Constant) and x.value.value is None)) for x in ast.walk(h))
					if returns_none:
						caught |= set(names)
			cur = par
		decode_ok = bool(caught & {'ValueError', 'JSONDecodeError', 'Exception', 'BaseException'})
		key_ok = bool(caught & {'KeyError', 'LookupError', 'Exception', 'BaseException'})
		rb.check(decode_ok and key_ok, 'damaged-header-is-no-header', (HEADER, c_.lineno), f'`{unparse(c_)[:60]}` runs outside a handler that answers None for ' + ('an undecodable text' if not decode_ok else 'a header that lacks a key') + f' (caught and turned into None: {sorted(caught)}): an output file whose header line is cut off makes the non-forced run stop with the decode error and write nothing, while `run -f` regenerates it — files_after(run) != files_after(run -f)', unparse(c_)[:100])
	tm = TemplateModel()
	ep = 'block/entrypoint'
	rep.consulted(tm.relpath(ep))
	if not tm.parses(ep):
		rb.violate('entrypoint-template', (tm.relpath(ep), 1), 'block/entrypoint.j2 missing or unparseable')
	else:
		n = tm.nodes
		first = tm.asts[ep].body[0] if tm.asts[ep].body else None
		line1 = []
		if isinstance(first, n.Output):
			for e in first.nodes:
				if isinstance(e, n.TemplateData):
					if '\n' in e.data:
						line1.append(('text', e.data.split('\n')[0]))
						break
					line1.append(('text', e.data))
				elif isinstance(e, n.Name):
					line1.append(('var', e.name))
				else:
					line1.append(('expr', ''))
		rb.check(('var', 'meta_header') in line1 and all(k != 'expr' for k, _ in line1), 'entrypoint-first-line', (tm.relpath(ep), 1), f'the first output line of block/entrypoint.j2 is {line1}; the header must be printed there (try_from_content reads up to the first line break after the tag)')
	# embedded header vs compared header: same constructor arguments (module meta factory of the module path, transpiler meta)
	py = idx.mod(PY2CPP)
	oe = py.func('Py2Cpp.on_entrypoint')
	oex = FI(oe)
	emb = [c for c in nodes(oex, ast.Call) if attr_chain(c.func) == 'MetaHeader']
	ct = tr.func('Runner.can_transpile')
	ctx = FI(ct)
	cmp_ = [c for c in nodes(ctx, ast.Call) if attr_chain(c.func) == 'MetaHeader']
	if not emb or not cmp_:
		rb.skip('same-sources', oe.where, 'on_entrypoint / can_transpile no longer construct MetaHeader(...) directly')
	else:
		def shape(c: ast.Call) -> tuple:
			a = list(c.args) + [kw.value for kw in c.keywords]
			first = a[0] if a else None
			return (len(a), isinstance(first, ast.Call) and unparse(first.func).endswith('module_meta_factory'), unparse(a[1]).endswith('meta') if len(a) > 1 else False)
		mpath_e = unparse(emb[0].args[0].args[0]) if emb[0].args and isinstance(emb[0].args[0], ast.Call) and emb[0].args[0].args else ''
		mpath_c = unparse(cmp_[0].args[0].args[0]) if cmp_[0].args and isinstance(cmp_[0].args[0], ast.Call) and cmp_[0].args[0].args else ''
		ok = shape(emb[0]) == shape(cmp_[0]) == (2, True, True) and mpath_e.endswith('.module_path') and mpath_c.endswith('.path') and unparse(emb[0].args[1]) == 'self.meta' and unparse(cmp_[0].args[1]).endswith('transpiler.meta')
		rb.check(ok, 'same-sources', oe.where, f'the header embedded by on_entrypoint `{unparse(emb[0])}` and the header Runner.can_transpile compares against `{unparse(cmp_[0])}` must both be built from (module_meta_factory(module path), transpiler meta)')
	mhv = [v for d in nodes(oex, ast.Dict) for k, v in zip(d.keys, d.values) if const_str(k) == 'meta_header']
	if not mhv:
		rb.skip('embedded-form', oe.where, 'on_entrypoint no longer passes a `meta_header` template variable in a dict literal')
	for v in mhv:
		rb.check(isinstance(v, ast.Call) and unparse(v.func).endswith('.to_header_str') and attr_chain(v.func.value.func if isinstance(v.func.value, ast.Call) else v.func.value) == 'MetaHeader', 'embedded-form', oe.where, f'on_entrypoint must pass MetaHeader(...).to_header_str() to the template: `{unparse(v)[:120]}`')
	# regenerate when the old header is missing or differs: can_transpile is evaluated as a boolean function of M (an old header was loaded),
	# D (the regenerated header differs from it) and whatever other conditions it consults (free)
	rule_decision(rb, ct)

	# ---- (c) read path == write path -----------------------------------------------------------------------------------------
	rule_paths(rep, idx)
	rc = rep.rule('C06/read-path-is-write-path', 'the old header is read from the path the output is written to; non-forced runs filter with can_transpile, forced runs take every module', floor=4)
	tl = tr.func('Runner.try_load_meta_header')
	ri = tr.func('Runner._run_impl')
	tlx = FI(tl)
	reads = [c.args[0] for c in calls(tlx, ('sources.load', 'sources.exists')) if c.args]
	writes = [c.args[0] for fn in closure_fi(ri) for c in nodes(fn, ast.Call) if attr_chain(c.func) == 'Writer' and c.args]
	if not reads or not writes:
		rc.skip('same-path', tl.where, 'no sources.load(...) in try_load_meta_header or no Writer(...) in _run_impl')
	else:
		is_out = lambda e: isinstance(e, ast.Call) and unparse(e.func) == 'self.output_filepath' and len(e.args) == 1 and isinstance(e.args[0], ast.Name)
		rc.check(all(is_out(e) for e in reads) and all(is_out(e) for e in writes), 'same-path', tl.where, f'header is read from {[unparse(e) for e in reads]} but the output is written to {[unparse(e) for e in writes]}: both must be self.output_filepath(<module path>)')
	# the loader resolves a relative path against several base directories (env paths) while Writer resolves it against the cwd only: the two sites
	# address the same file for every configuration only if Runner.output_filepath hands out an absolute path
	fl = idx.mod('rogw/tranp/app/loader.py')
	rep.consulted(fl.relpath)
	rs = fl.cls('FileLoader').method('__resolve_filepath') if 'FileLoader' in fl.classes else None
	multi_base = rs is not None and any(isinstance(n, (ast.For, ast.comprehension)) and 'env_paths' in unparse(n.iter) for n in ast.walk(rs.node))
	of = tr.func('Runner.output_filepath')
	orets = [n.value for n in nodes(FI(of), ast.Return) if n.value is not None]
	if multi_base and orets:
		rc.check(all(isinstance(v, ast.Call) and attr_chain(v.func) in ('os.path.abspath', 'os.path.realpath') for v in orets), 'output-path-absolute', of.where, f'Runner.output_filepath returns `{unparse(orets[0])[:100]}`: the header is read through FileLoader (relative paths are searched under every env path, e.g. the tranp root) but written through Writer (relative to the cwd); unless the path is made absolute the old header can be read from another directory than the one written to, and a non-forced run skips a module whose output does not exist')
	else:
		rc.skip('output-path-absolute', of.where, 'FileLoader no longer searches several base directories (or output_filepath has no return value)')
	parsed = [c for c in calls(tlx, 'MetaHeader.try_from_content') if c.args and has_call(c.args[0], 'sources.load')]
	if parsed:
		rc.ok('read-existing', tl.where)
	else:
		rc.skip('read-existing', tl.where, 'try_load_meta_header no longer parses sources.load(<output file>) with MetaHeader.try_from_content')
	filt = []
	for fn in closure(ri):
		for n in nodes(fn, (ast.ListComp, ast.GeneratorExp, ast.If, ast.Call)):
			if isinstance(n, (ast.ListComp, ast.GeneratorExp)) and any(has_call(i, 'can_transpile') for g in n.generators for i in g.ifs):
				filt.append((fn, n))
			elif isinstance(n, ast.If) and has_call(n.test, 'can_transpile'):
				filt.append((fn, n))
			elif isinstance(n, ast.Call) and unparse(n.func) == 'filter' and n.args and 'can_transpile' in unparse(n.args[0]):
				filt.append((fn, n))
	if not filt:
		rc.skip('non-forced-filter', ri.where, '_run_impl (and helpers) no longer filter the module paths with can_transpile')
	for fn, n in filt:
		fs = facts_through(ri, fn, n)
		force = [(t, p) for t, p in fs if t.endswith('config.force')]
		if isinstance(n, ast.If) and not force:
			force = [(t, p) for t, p in ((unparse(a), q) for a, q in _test_atoms(n.test)) if t.endswith('config.force')]
		rc.check(bool(force) and all(p is False for _, p in force), 'non-forced-filter', ri.where, f'the can_transpile filter must apply exactly when config.force is false (conditions at the filter: {fs})', unparse(n)[:160])
	loops = [n for fn in closure(ri) for n in nodes(fn, ast.For) if has_call(n, 'transpile') and not has_call(n.iter, 'transpile')]
	if not loops:
		rc.skip('write-each-target', ri.where, '_run_impl no longer loops over the selected modules')
	for lp in loops:
		rc.check(has_call(lp, 'transpiler.transpile') and any(attr_chain(c.func) == 'Writer' for c in nodes(lp, ast.Call)) and has_call(lp, 'put') and has_call(lp, 'flush'), 'write-each-target', ri.where, 'each selected module must be transpiled and written (Writer(...).put(content) + flush())')


def _sum_terms(e: ast.AST) -> list[tuple[str, object]]:
	"""terms of a `+` chain: ('const', int) | ('expr', node)"""
	if isinstance(e, ast.BinOp) and isinstance(e.op, ast.Add):
		return _sum_terms(e.left) + _sum_terms(e.right)
	if isinstance(e, ast.Constant) and isinstance(e.value, int):
		return [('const', e.value)]
	return [('expr', e)]


def _test_atoms(test: ast.AST) -> list[tuple[ast.AST, bool]]:
	"""atoms that must hold for the test to be true"""
	from vlib.match import conjuncts
	return conjuncts(test, True)


# ---- (d) output path mapping: each rule maps distinct module files to distinct outputs ---------------------------------------------

def rule_paths(rep: Report, idx: SourceIndex) -> None:
	r = rep.rule('C06/output-path-injective-per-rule', 'every branch of Runner.fetch_output_path joins the output directory with the file path itself or with the path minus its *leading* matched prefix (an injective transformation), so distinct modules matched by one rule never share an output file', floor=3)
	m = idx.mod(TRANSPILE)
	f = m.func('Runner.fetch_output_path')
	from vlib.match import X, facts
	fx = X(f)
	param = f.params()[1] if len(f.params()) > 1 else 'filepath'
	# names that denote the file path itself: the parameter and single-assignment locals derived from it by a separator replacement
	same = {param}
	for n in ast.walk(f.node):
		if isinstance(n, ast.Assign) and isinstance(n.targets[0], ast.Name) and isinstance(n.value, ast.Call) and unparse(n.value.func) == f'{param}.replace' and 'os.sep' in unparse(n.value):
			same.add(n.targets[0].id)
	rets = [n for n in ast.walk(fx) if isinstance(n, ast.Return)]
	if len(rets) < 3:
		r.skip('returns', f.where, f'fetch_output_path has {len(rets)} returns; expected glob rule, prefix rule, fallback')
	for ret in rets:
		v = ret.value
		key = f'fetch_output_path:{unparse(v)[:70]}'
		if not (isinstance(v, ast.Call) and attr_chain(v.func) == 'os.path.join' and len(v.args) == 2):
			r.skip(key, (TRANSPILE, ret.lineno), 'return is not os.path.join(<dir>, <path>)')
			continue
		p = v.args[1]
		src = unparse(p)
		known = facts(fx, ret)
		if src in same:
			r.ok(key, (TRANSPILE, ret.lineno))
		elif isinstance(p, ast.Subscript) and isinstance(p.slice, ast.Slice) and p.slice.upper is None and p.slice.lower is not None and unparse(p.value) in same and isinstance(p.slice.lower, ast.Call) and unparse(p.slice.lower.func) == 'len' and len(p.slice.lower.args) == 1:
			cut = unparse(p.slice.lower.args[0])
			r.check(any(pol and any(t == f'{nm}.startswith({cut})' for nm in same) for t, pol in known), key, (TRANSPILE, ret.lineno), f'the leading len({cut}) characters are cut although the branch does not establish that the path starts with `{cut}` (conditions: {known})')
		elif isinstance(p, ast.Call) and isinstance(p.func, ast.Attribute) and p.func.attr == 'removeprefix':
			r.ok(key, (TRANSPILE, ret.lineno))
		elif isinstance(p, ast.Call) and isinstance(p.func, ast.Attribute) and p.func.attr in ('replace', 'strip', 'lstrip', 'rstrip', 'split'):
			r.violate(key, (TRANSPILE, ret.lineno), f'`{src}` is not injective on file paths ({p.func.attr} affects every occurrence / a character set, not just the matched leading prefix): two modules such as src/lib/util.py and src/lib/src/util.py map to one output file, and forced vs non-forced runs then diverge', src)
		else:
			r.skip(key, (TRANSPILE, ret.lineno), f'cannot classify the path transformation `{src}`')


def rule_decision(rb, ct) -> None:
	"""can_transpile(M, D, others): for every valuation, M false -> True (no recorded header: regenerate) and M true, D true -> True (header differs:
	regenerate); M true, D false -> False for some valuation (otherwise nothing is ever left untouched). Comparing with an absent header is not an
	answer (MetaHeader.__eq__ refuses other types)."""
	import itertools
	loaded: set[str] = set()
	for n in ast.walk(ct.node):
		tgt = n.targets[0] if isinstance(n, ast.Assign) and len(n.targets) == 1 else n.target if isinstance(n, ast.AnnAssign) else None
		if isinstance(tgt, ast.Name) and n.value is not None and has_call(n.value, 'try_load_meta_header'):
			loaded.add(tgt.id)
	fi = FI(ct)

	def is_loaded(e: ast.AST) -> bool:
		return (isinstance(e, ast.Name) and e.id in loaded) or (isinstance(e, ast.Call) and unparse(e.func).endswith('try_load_meta_header'))

	class Unsupported(Exception):
		pass
	others: list[str] = []

	def ev(e: ast.AST, val: dict):
		"""True / False / 'raise'"""
		if isinstance(e, ast.Constant) and isinstance(e.value, bool):
			return e.value
		if isinstance(e, ast.UnaryOp) and isinstance(e.op, ast.Not):
			v = ev(e.operand, val)
			return v if v == 'raise' else (not v)
		if isinstance(e, ast.BoolOp):
			isand = isinstance(e.op, ast.And)
			for x in e.values:
				v = ev(x, val)
				if v == 'raise':
					return v
				if v != isand:
					return v
			return isand
		if isinstance(e, ast.IfExp):
			t = ev(e.test, val)
			return t if t == 'raise' else ev(e.body if t else e.orelse, val)
		if is_loaded(e):
			return val['M']
		if isinstance(e, ast.Compare) and len(e.ops) == 1:
			l, r_, op = e.left, e.comparators[0], e.ops[0]
			if isinstance(op, (ast.Is, ast.IsNot)) and ((is_loaded(l) and isinstance(r_, ast.Constant) and r_.value is None) or (is_loaded(r_) and isinstance(l, ast.Constant) and l.value is None)):
				return val['M'] == isinstance(op, ast.IsNot)
			if isinstance(op, (ast.Eq, ast.NotEq)) and (is_loaded(l) or is_loaded(r_)):
				other = r_ if is_loaded(l) else l
				if isinstance(other, ast.Constant) and other.value is None:
					return val['M'] == isinstance(op, ast.NotEq)
				if not val['M']:
					return 'raise'  # MetaHeader.__eq__ with None
				return val['D'] == isinstance(op, ast.NotEq)
		key = unparse(e)
		if key not in others:
			others.append(key)
		return val.get(key, False)

	def run(stmts: list[ast.stmt], val: dict):
		for st in stmts:
			if isinstance(st, ast.Return):
				return ev(st.value, val) if st.value is not None else False
			if isinstance(st, ast.If):
				t = ev(st.test, val)
				if t == 'raise':
					return t
				out = run(st.body if t else st.orelse, val)
				if out is not None:
					return out
			elif isinstance(st, (ast.Assign, ast.AnnAssign, ast.Expr, ast.Pass)):
				continue
			elif isinstance(st, ast.Raise):
				return 'raise'
			else:
				raise Unsupported(type(st).__name__)
		return None
	try:
		run(fi.body, {'M': False, 'D': False})  # discovers the free conditions
		run(fi.body, {'M': True, 'D': True})
		run(fi.body, {'M': True, 'D': False})
		if len(others) > 4:
			raise Unsupported(f'{len(others)} free conditions')
		table = {}
		for m_, d_ in ((False, False), (False, True), (True, True), (True, False)):
			for bits in itertools.product((False, True), repeat=len(others)):
				val = {'M': m_, 'D': d_, **dict(zip(others, bits))}
				table[(m_, d_, bits)] = run(fi.body, val)
	except Unsupported as e:
		rb.skip('decision', ct.where, f'can_transpile is no longer a straight-line decision over if/return ({e})')
		return
	if not loaded and not any(is_loaded(n) for n in ast.walk(fi)):
		rb.skip('decision', ct.where, 'can_transpile no longer loads the old header with try_load_meta_header')
		return
	def show(bits):
		return ', '.join(f'{k}={b}' for k, b in zip(others, bits)) or '-'
	bad_missing = [(k, v) for k, v in table.items() if not k[0] and v is not True]
	never_skips = not any(k[0] and not k[1] and v is False for k, v in table.items())
	rb.check(not bad_missing, 'decision:missing-header-regenerates', ct.where, f'can_transpile answers {bad_missing[0][1] if bad_missing else ""} when no header can be read from the existing output (other conditions: {show(bad_missing[0][0][2]) if bad_missing else ""}): an output without a readable header (hand-written, truncated, produced by a template without the meta line) is never regenerated by a non-forced run, while a forced run rewrites it', unparse(fi)[:200])
	bad_differs = [(k, v) for k, v in table.items() if k[0] and k[1] and v is not True]
	rb.check(not bad_differs, 'compare', ct.where, f'can_transpile must answer True when the regenerated header differs from the old one: answers {bad_differs[0][1] if bad_differs else ""} (other conditions: {show(bad_differs[0][0][2]) if bad_differs else ""})')
	rb.check(not never_skips, 'decision:unchanged-left-untouched', ct.where, 'can_transpile never answers False for a module whose recorded header equals the regenerated one: every run rewrites every output')


def rule_version_constants(rep: Report, idx: SourceIndex) -> None:
	"""The header records two versions — the application's and the transpiler's — so that a release of either regenerates every output. Each constant of
	data/version.py stands for one of them; a constant that no producer of a header field reads is a version whose bump changes no header (every
	output stays stale on a non-forced run, and a forced run records the old value again), and two header fields fed from ONE constant cannot tell the
	two releases apart."""
	r = rep.rule('C06/version-constants-recorded', 'every constant of Versions is read by a producer of a header field (MetaHeader for the application, ITranspiler.meta for the transpiler), and no two producers read the same one', floor=2)
	vm = idx.mod('rogw/tranp/data/version.py')
	vc = vm.cls('Versions')
	if vc is None:
		r.skip('Versions', (vm.relpath, 1), 'class Versions vanished')
		return
	consts = [k for k, v in vc.class_attrs.items() if isinstance(v, ast.Constant) and isinstance(v.value, str)]
	readers: dict[str, list[str]] = {k: [] for k in consts}
	for rel in idx.all_py(('rogw',)):
		if rel.startswith('rogw/tranp/test/') or rel == vm.relpath:
			continue
		m = idx.mod(rel)
		for q, f in m.functions.items():
			if '#' in q:
				continue
			for n in walk_no_nested(f.node):
				if isinstance(n, ast.Attribute) and isinstance(n.value, ast.Name) and n.value.id == 'Versions' and n.attr in readers:
					readers[n.attr].append(f'{rel}:{q}')
	if not consts:
		r.skip('Versions', vc.where, 'Versions declares no string constant')
	for k in consts:
		r.check(bool(readers[k]), f'Versions.{k}:recorded', vc.where, f'Versions.{k} is read nowhere: a release that bumps it changes no header, so a non-forced run regenerates nothing (and a forced run records the old value again) — files_after(run) != files_after(run -f) after the upgrade; the other constants are read by {dict((c, v[:1]) for c, v in readers.items() if v)}')
	by_site: dict[str, list[str]] = {}
	for k, sites in readers.items():
		for s_ in sites:
			by_site.setdefault(s_, []).append(k)
	producers = sorted({s_ for sites in readers.values() for s_ in sites})
	for k in consts:
		prod = {s_ for s_ in readers[k] if s_.endswith('.meta') or s_.startswith(('rogw/tranp/data/meta/', 'rogw/tranp/providers/module.py'))}  # printing a version (--version) is not recording it
		if len(prod) > 1:
			r.violate(f'Versions.{k}:one-producer', vc.where, f'Versions.{k} feeds {len(prod)} header producers ({sorted(prod)}): the application and the transpiler version of the header are then the same constant, and a release of one of them alone is not seen', str(sorted(set(readers[k]))))
		elif readers[k]:
			r.ok(f'Versions.{k}:one-producer', vc.where)
	rep.extra_coverage['version_constant_readers'] = {k: sorted(set(v)) for k, v in readers.items()}
