"""C18 — fragment splitting helpers respect bracket and quote nesting: the quote-awareness clause only."""
from __future__ import annotations

import ast

from vlib.core import AnalysisError, Report
from vlib.match import X, atoms, deref, nodes
from vlib.srcindex import SourceIndex, const_str, unparse

EXPLANATION = (
	'The laws of the statement (pieces rejoin to the fragment, no piece is unbalanced, last group = prefix + inside) are input/output relations of character-level scanners over all strings and are NOT decided. '
	'Decided is one necessary condition that is visible in the shape of the scanners: text between quotes is opaque. (1) the pair table lists the four bracket pairs and both quote characters as pairs; '
	'(2) BlockParser._skip_other_block changes its closer stack, while the top of the stack is a quote, only for that quote; (3) every scanner that counts the requested brackets or looks for the delimiter itself '
	'(_analyze_entry, break_separator, break_last_block) first hands foreign openers — a set that contains both quote characters — to _skip_other_block. Without (2) or (3) a bracket or delimiter inside a string literal is '
	'counted: break_separator(\'"(", x\', \',\') returns one piece and `raise E("bad (", s)` cannot be transpiled.'
)
ASSUMPTIONS = ['escaped quotes inside string literals (\\") are not modelled by the scanners and not by this check']
TRUSTED_BASE = ['CPython ast']

BLOCK = 'rogw/tranp/view/helper/block.py'
QUOTES = {'"', "'"}


def _token_set(fx: ast.AST, e: ast.AST, pairs: list[str], depth: int = 0) -> set[str] | None:
	"""characters of a token-set expression: a string constant, ''.join over cls._all_pair (whole pairs or pair[0]), possibly filtered"""
	if isinstance(e, ast.Name) and depth < 4:
		d = deref(fx, e)
		return None if d is e else _token_set(fx, d, pairs, depth + 1)
	if isinstance(e, ast.Constant) and isinstance(e.value, str):
		return set(e.value)
	if isinstance(e, ast.JoinedStr):
		return None
	if isinstance(e, ast.Call) and isinstance(e.func, ast.Attribute) and e.func.attr == 'join' and e.args:
		a = e.args[0]
		if isinstance(a, ast.Attribute) and a.attr == '_all_pair':
			return set(''.join(pairs))
		if isinstance(a, (ast.ListComp, ast.GeneratorExp)) and len(a.generators) == 1 and isinstance(a.generators[0].iter, ast.Attribute) and a.generators[0].iter.attr == '_all_pair':
			var = unparse(a.generators[0].target)
			elt = a.elt
			if unparse(elt) == var:
				chars = set(''.join(pairs))
			elif isinstance(elt, ast.Subscript) and unparse(elt.value) == var and isinstance(elt.slice, ast.Constant):
				chars = {p_[elt.slice.value] for p_ in pairs}
			else:
				return None
			# a filter such as `if pair != brackets` removes one BRACKET pair at most (the requested one); quote pairs stay unless the caller asks for quotes
			return chars
	return None


def run(rep: Report, tier: str) -> None:
	idx = SourceIndex()
	m = idx.mod(BLOCK)
	rep.consulted(BLOCK)
	bp = m.cls('BlockParser')
	if bp is None:
		raise AnalysisError('BlockParser vanished')

	r1 = rep.rule('C18/pair-table', 'BlockParser._all_pair lists (), [], {}, <> and both quote characters, each as a two-character pair', floor=1)
	tbl = bp.class_attrs.get('_all_pair')
	pairs = [const_str(e) for e in tbl.elts] if isinstance(tbl, (ast.List, ast.Tuple)) else None
	if not pairs or any(p_ is None for p_ in pairs):
		raise AnalysisError('BlockParser._all_pair is no longer a constant list of strings')
	r1.check(all(len(p_) == 2 for p_ in pairs) and {'()', '[]', '{}', '<>', '""', "''"} <= set(pairs), '_all_pair', (BLOCK, tbl.lineno), f'_all_pair = {pairs}: every bracket kind and both quote characters must be listed as pairs, or text in that kind of bracket / quote is scanned as if it were top level')

	r2 = rep.rule('C18/quoted-text-is-opaque', 'while the closer stack of _skip_other_block has a quote on top only that quote changes it; every scanner that counts brackets or looks for the delimiter first hands foreign openers, quotes included, to _skip_other_block', floor=4)
	sk = bp.method('_skip_other_block')
	if sk is None:
		r2.skip('_skip_other_block', bp.where, 'BlockParser._skip_other_block vanished: the scanners no longer share a skip helper')
	else:
		sx = X(sk)
		ops = [c_ for c_ in nodes(sx, ast.Call) if isinstance(c_.func, ast.Attribute) and c_.func.attr in ('append', 'pop')]
		if not ops:
			r2.skip('_skip_other_block:stack', sk.where, 'no closer stack (append / pop) found')
		for c_ in ops:
			known = atoms(sx, c_)
			def mentions_quotes(e: ast.AST, depth: int = 0) -> bool:
				for x in ast.walk(e):
					if isinstance(x, ast.Constant) and isinstance(x.value, str) and QUOTES <= set(x.value):
						return True
					if isinstance(x, ast.Name) and isinstance(x.ctx, ast.Load) and depth < 3:
						d_ = deref(sx, x)
						if d_ is not x and mentions_quotes(d_, depth + 1):
							return True
				return False
			quote_aware = any(mentions_quotes(a) for a, _ in known)
			r2.check(quote_aware, f'_skip_other_block:{c_.func.attr}', (BLOCK, c_.lineno), f'`{unparse(c_)[:50]}` runs under {[(unparse(a)[:50], p_) for a, p_ in known]}: nothing distinguishes "inside a quote", so a bracket between quotes is pushed on the closer stack and the skip runs to the end of the text (`"(", x` is never split at the comma)', unparse(c_)[:80])

	# scanners: loops that compare text[i] with the requested brackets or with the delimiter
	for name in ('_analyze_entry', 'break_separator', 'break_last_block'):
		f = bp.method(name)
		if f is None:
			r2.skip(name, bp.where, f'BlockParser.{name} vanished')
			continue
		fx = X(f)
		text_p = f.params()[1] if f.params()[0] in ('cls', 'self') else f.params()[0]
		loops = [lp for lp in nodes(fx, (ast.While, ast.For))]
		def res(e: ast.AST, depth: int = 0) -> ast.AST:
			"""a local name stands for its (single) definition, also when bound by a tuple assignment `a, b = x[0], x[1]`"""
			if isinstance(e, ast.Name) and depth < 3:
				d_ = deref(fx, e)
				if d_ is not e:
					return res(d_, depth + 1)
				for st in ast.walk(f.node):
					if isinstance(st, ast.Assign) and isinstance(st.targets[0], ast.Tuple) and isinstance(st.value, ast.Tuple) and len(st.targets[0].elts) == len(st.value.elts):
						for t_, v_ in zip(st.targets[0].elts, st.value.elts):
							if isinstance(t_, ast.Name) and t_.id == e.id:
								return res(v_, depth + 1)
			return e
		tests = []
		for lp in loops:
			for c_ in nodes(lp, ast.Compare):
				left, right = res(c_.left), res(c_.comparators[0])
				if isinstance(left, ast.Subscript) and unparse(left.value) == text_p and any(isinstance(x, ast.Subscript) and unparse(x.value) in ('brackets', 'delimiter') for x in ast.walk(right)):
					tests.append(c_)
		if not tests:
			r2.skip(name, f.where, f'{name} no longer compares {text_p}[i] with brackets[...] / delimiter[...] in a loop')
			continue
		skips = [c_ for lp in loops for c_ in nodes(lp, ast.Call) if unparse(c_.func).endswith('_skip_other_block')]
		ok = False
		why = 'no call of _skip_other_block in the scanning loop'
		for c_ in skips:
			trig = [a for a, p_ in atoms(fx, c_) if p_ and isinstance(a, ast.Compare) and len(a.ops) == 1 and isinstance(a.ops[0], ast.In) and isinstance(res(a.left), ast.Subscript) and unparse(res(a.left).value) == text_p]
			for a in trig:
				chars = _token_set(fx, a.comparators[0], pairs)
				if chars is None:
					why = f'token set `{unparse(a.comparators[0])[:40]}` not resolved'
				elif QUOTES <= chars:
					before = all((c_.lineno, c_.col_offset) < (t.lineno, t.col_offset) for t in tests)
					ok = before
					why = '' if before else 'the skip comes after the bracket / delimiter tests'
				else:
					why = f'the skip is triggered by {sorted(chars)}, which does not contain both quote characters'
		if ok:
			r2.ok(name, f.where)
		elif 'not resolved' in why:
			r2.skip(name, f.where, why)
		else:
			r2.violate(name, f.where, f'BlockParser.{name} tests {text_p}[i] against the requested brackets / the delimiter, but {why}: a bracket or delimiter inside a string literal is counted (`print("(")`, `f("a,b", c)`), so the fragment is cut inside the string', unparse(tests[0])[:80])
	rule_angle(rep, bp, pairs)


def rule_angle(rep: Report, bp, pairs) -> None:
	"""`<` and `>` are brackets in `std::vector<int>` and operators in `a < b`, `a << 2`, `p->x`, `a >= b`. A scanner that opens a block at every `<` never
	finds its end for a comparison: `a < b, c` is not split, and `for i in range(a if a < b else b, n)` cannot be transpiled. Wherever a scanner
	decides that a character opens or closes a foreign block, the decision for the angle brackets must look at the neighbouring characters (operators
	are rendered with blanks around them, template brackets are attached)."""
	from vlib.match import inline_predicates
	r = rep.rule('C18/angle-brackets-disambiguated', 'every place where a scanner of BlockParser treats a character as a foreign bracket (the stack arm of _skip_other_block, the skip triggers of the scanning loops) is conditioned on the neighbouring characters of that position, so that `<` / `>` used as operators are not brackets', floor=3)
	if not any(p_ == '<>' for p_ in pairs):
		r.ok('no-angle-pair', None, message='<> is not a bracket pair of the table: nothing to disambiguate')
		return

	def looks_at_neighbours(f, known) -> bool:
		expanded = inline_predicates(f, [(a, p_) for a, p_ in known], depth=2)
		for a, _ in expanded:
			for x in ast.walk(a):
				# a predicate helper of the class that receives the position: judged by what its body reads
				if isinstance(x, ast.Call) and isinstance(x.func, ast.Attribute) and isinstance(x.func.value, ast.Name) and x.func.value.id in ('cls', 'self') and f.cls is not None:
					g = f.cls.method(x.func.attr)
					if g is not None and any(isinstance(y, ast.Subscript) and isinstance(y.slice, ast.BinOp) and isinstance(y.slice.op, (ast.Add, ast.Sub)) and isinstance(y.slice.right, ast.Constant) for y in ast.walk(g.node)):
						return True
				if isinstance(x, ast.Subscript) and isinstance(x.slice, ast.BinOp) and isinstance(x.slice.op, (ast.Add, ast.Sub)) and isinstance(x.slice.right, ast.Constant) and x.slice.right.value in (1, 2):
					return True
				if isinstance(x, ast.Name):
					d_ = deref(f.node, x)
					if d_ is not x and any(isinstance(y, ast.Subscript) and isinstance(y.slice, ast.BinOp) for y in ast.walk(d_)):
						return True
		return False
	sk = bp.method('_skip_other_block')
	if sk is not None:
		sx = X(sk)
		ops = [c_ for c_ in nodes(sx, ast.Call) if isinstance(c_.func, ast.Attribute) and c_.func.attr in ('append', 'pop')]
		for c_ in ops:
			r.check(looks_at_neighbours(sk, atoms(sx, c_)), f'_skip_other_block:{c_.func.attr}', (BLOCK, c_.lineno), f'`{unparse(c_)[:50]}` changes the closer stack for every `<` / `>`, whatever stands next to it: a comparison `a < b` opens a block that never closes and the rest of the text is swallowed', unparse(c_)[:80])
	for name in ('_analyze_entry', 'break_separator'):
		f = bp.method(name)
		if f is None:
			continue
		fx = X(f)
		skips = [c_ for c_ in nodes(fx, ast.Call) if unparse(c_.func).endswith('_skip_other_block')]
		for c_ in skips:
			toks = [a for a, p_ in atoms(fx, c_) if p_ and isinstance(a, ast.Compare) and isinstance(a.ops[0], ast.In)]
			angle = any('<' in (_token_set(fx, a.comparators[0], pairs) or set()) for a in toks)
			if not angle:
				continue
			r.check(looks_at_neighbours(f, atoms(fx, c_)), f'{name}:skip-trigger', (BLOCK, c_.lineno), f'{name} starts skipping a foreign block at every `<`, whatever stands next to it: `a < b, c` is never split at the comma and `range(a if a < b else b, n)` is rejected', unparse(c_)[:80])
