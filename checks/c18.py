"""C18 — fragment splitting helpers respect bracket and quote nesting: the quote-awareness clause only."""
from __future__ import annotations

import ast

from vlib.core import AnalysisError, Report
from vlib.match import X, atoms, deref, nodes
from vlib.srcindex import SourceIndex, const_str, unparse

EXPLANATION = (
	'The laws of the statement (pieces rejoin to the fragment, no piece is unbalanced, last group = prefix + inside) are input/output relations of character-level scanners over all strings and are NOT decided. '
	'Decided is one necessary condition that is visible in the shape of the scanners: text between quotes is opaque. (1) the pair table lists the four bracket pairs and both quote characters as pairs; '
	'(2) BlockParser._skip_other_block changes its closer stack, while the top of the stack is a quote, only for that quote; (3) every scanner that counts the requested brackets or looks for the delimiter itself '
	'(_analyze_entry, break_separator, break_last_block) first hands foreign openers — a set that contains both quote characters — to _skip_other_block. Without (2) or (3) a bracket or delimiter inside a string literal is '
	'counted: break_separator(\'"(", x\', \',\') returns one piece and `raise E("bad (", s)` cannot be transpiled.'
)
ASSUMPTIONS = ['escaped quotes inside string literals (\\") are not modelled by the scanners and not by this check']
TRUSTED_BASE = ['CPython ast']

BLOCK = 'rogw/tranp/view/helper/block.py'
QUOTES = {'"', "'"}


def _token_set(fx: ast.AST, e: ast.AST, pairs: list[str], depth: int = 0) -> set[str] | None:
	"""characters of a token-set expression: a string constant, ''.join over cls._all_pair (whole pairs or pair[0]), possibly filtered"""
	if isinstance(e, ast.Name) and depth < 4:
		d = deref(fx, e)
		return None if d is e else _token_set(fx, d, pairs, depth + 1)
	if isinstance(e, ast.Constant) and isinstance(e.value, str):
		return set(e.value)
	if isinstance(e, (ast.Tuple, ast.List, ast.Set)) and e.elts and all(isinstance(x, ast.Constant) and isinstance(x.value, str) for x in e.elts):
		return set(''.join(x.value for x in e.elts))
	if isinstance(e, ast.Subscript) and isinstance(e.slice, ast.Slice) and depth < 4:
		# `''.join(cls._all_pair)[0::2]`: every second character of the joined two-character pairs = the openers ([1::2]: the closers)
		base = e.value
		while isinstance(base, ast.Name):
			d = deref(fx, base)
			if d is base:
				break
			base = d
		whole = isinstance(base, ast.Call) and isinstance(base.func, ast.Attribute) and base.func.attr == 'join' and base.args and isinstance(base.args[0], ast.Attribute) and base.args[0].attr == '_all_pair'
		lo, up, st = e.slice.lower, e.slice.upper, e.slice.step
		if whole and up is None and isinstance(st, ast.Constant) and st.value == 2 and (lo is None or (isinstance(lo, ast.Constant) and lo.value in (0, 1))):
			k = lo.value if lo is not None else 0
			return {p_[k] for p_ in pairs}
		return None
	if isinstance(e, ast.JoinedStr):
		return None
	if isinstance(e, ast.Call) and isinstance(e.func, ast.Attribute) and e.func.attr == 'join' and e.args:
		a = e.args[0]
		if isinstance(a, ast.Attribute) and a.attr == '_all_pair':
			return set(''.join(pairs))
		if isinstance(a, (ast.ListComp, ast.GeneratorExp)) and len(a.generators) == 1 and isinstance(a.generators[0].iter, ast.Attribute) and a.generators[0].iter.attr == '_all_pair':
			var = unparse(a.generators[0].target)
			elt = a.elt
			if unparse(elt) == var:
				chars = set(''.join(pairs))
			elif isinstance(elt, ast.Subscript) and unparse(elt.value) == var and isinstance(elt.slice, ast.Constant):
				chars = {p_[elt.slice.value] for p_ in pairs}
			else:
				return None
			# a filter such as `if pair != brackets` removes one BRACKET pair at most (the requested one); quote pairs stay unless the caller asks for quotes
			return chars
	return None


def run(rep: Report, tier: str) -> None:
	idx = SourceIndex()
	m = idx.mod(BLOCK)
	rep.consulted(BLOCK)
	bp = m.cls('BlockParser')
	if bp is None:
		raise AnalysisError('BlockParser vanished')

	r1 = rep.rule('C18/pair-table', 'BlockParser._all_pair lists (), [], {}, <> and both quote characters, each as a two-character pair', floor=1)
	tbl = bp.class_attrs.get('_all_pair')
	pairs = [const_str(e) for e in tbl.elts] if isinstance(tbl, (ast.List, ast.Tuple)) else None
	if not pairs or any(p_ is None for p_ in pairs):
		raise AnalysisError('BlockParser._all_pair is no longer a constant list of strings')
	r1.check(all(len(p_) == 2 for p_ in pairs) and {'()', '[]', '{}', '<>', '""', "''"} <= set(pairs), '_all_pair', (BLOCK, tbl.lineno), f'_all_pair = {pairs}: every bracket kind and both quote characters must be listed as pairs, or text in that kind of bracket / quote is scanned as if it were top level')

	r2 = rep.rule('C18/quoted-text-is-opaque', 'while the closer stack of _skip_other_block has a quote on top only that quote changes it; every scanner that counts brackets or looks for the delimiter first hands foreign openers, quotes included, to _skip_other_block', floor=4)
	sk = bp.method('_skip_other_block')
	if sk is None:
		r2.skip('_skip_other_block', bp.where, 'BlockParser._skip_other_block vanished: the scanners no longer share a skip helper')
	else:
		sx = X(sk)
		ops = [c_ for c_ in nodes(sx, ast.Call) if isinstance(c_.func, ast.Attribute) and c_.func.attr in ('append', 'pop')]
		if not ops:
			r2.skip('_skip_other_block:stack', sk.where, 'no closer stack (append / pop) found')
		for c_ in ops:
			known = atoms(sx, c_)
			def quote_chars(e: ast.AST, depth: int = 0) -> set[str]:
				"""quote characters among the string constants of one condition (`x in '"\''`, `x in ('"', "'")`), through locals"""
				out: set[str] = set()
				for x in ast.walk(e):
					if isinstance(x, ast.Constant) and isinstance(x.value, str):
						out |= QUOTES & set(x.value)
					if isinstance(x, ast.Name) and isinstance(x.ctx, ast.Load) and depth < 3:
						d_ = deref(sx, x)
						if d_ is not x:
							out |= quote_chars(d_, depth + 1)
				return out

			def mentions_quotes(e: ast.AST) -> bool:
				return QUOTES <= quote_chars(e)
			quote_aware = any(mentions_quotes(a) for a, _ in known)
			r2.check(quote_aware, f'_skip_other_block:{c_.func.attr}', (BLOCK, c_.lineno), f'`{unparse(c_)[:50]}` runs under {[(unparse(a)[:50], p_) for a, p_ in known]}: nothing distinguishes "inside a quote", so a bracket between quotes is pushed on the closer stack and the skip runs to the end of the text (`"(", x` is never split at the comma)', unparse(c_)[:80])

	# scanners: loops that compare text[i] with the requested brackets or with the delimiter
	for name in ('_analyze_entry', 'break_separator', 'break_last_block'):
		f = bp.method(name)
		if f is None:
			r2.skip(name, bp.where, f'BlockParser.{name} vanished')
			continue
		from vlib.match import inline_simple_calls
		fx = inline_simple_calls(f, X(f))  # one-expression helpers and guard-style predicates (`cls._at_separator(text, delimiter, i)`) read in place
		text_p = f.params()[1] if f.params()[0] in ('cls', 'self') else f.params()[0]
		loops = [lp for lp in nodes(fx, (ast.While, ast.For))]
		def res(e: ast.AST, depth: int = 0) -> ast.AST:
			"""a local name stands for its (single) definition, also when bound by a tuple assignment `a, b = x[0], x[1]`"""
			if isinstance(e, ast.Name) and depth < 3:
				d_ = deref(fx, e)
				if d_ is not e:
					return res(d_, depth + 1)
				for st in ast.walk(f.node):
					if isinstance(st, ast.Assign) and isinstance(st.targets[0], ast.Tuple) and isinstance(st.value, ast.Tuple) and len(st.targets[0].elts) == len(st.value.elts):
						for t_, v_ in zip(st.targets[0].elts, st.value.elts):
							if isinstance(t_, ast.Name) and t_.id == e.id:
								return res(v_, depth + 1)
			return e
		tests = []
		for lp in loops:
			for c_ in nodes(lp, ast.Compare):
				left, right = res(c_.left), res(c_.comparators[0])
				if isinstance(left, ast.Subscript) and unparse(left.value) == text_p and any(isinstance(x, ast.Subscript) and unparse(x.value) in ('brackets', 'delimiter') for x in ast.walk(right)):
					tests.append(c_)
			# the same test through a string method: `text.startswith(delimiter, i)` / `text.find(delimiter, i) == i`
			for c_ in nodes(lp, ast.Call):
				if isinstance(c_.func, ast.Attribute) and c_.func.attr in ('startswith', 'find') and unparse(c_.func.value) == text_p and c_.args and any(isinstance(x, ast.Name) and x.id in ('brackets', 'delimiter') for x in ast.walk(res(c_.args[0]))):
					tests.append(c_)
		if not tests:
			r2.skip(name, f.where, f'{name} no longer compares {text_p}[i] with brackets[...] / delimiter[...] in a loop')
			continue
		skips = [c_ for lp in loops for c_ in nodes(lp, ast.Call) if unparse(c_.func).endswith('_skip_other_block')]
		ok = False
		why = 'no call of _skip_other_block in the scanning loop'
		for c_ in skips:
			trig = [a for a, p_ in atoms(fx, c_) if p_ and isinstance(a, ast.Compare) and len(a.ops) == 1 and isinstance(a.ops[0], ast.In) and isinstance(res(a.left), ast.Subscript) and unparse(res(a.left).value) == text_p]
			for a in trig:
				chars = _token_set(fx, a.comparators[0], pairs)
				if chars is None:
					why = f'token set `{unparse(a.comparators[0])[:40]}` not resolved'
				elif QUOTES <= chars:
					before = all((c_.lineno, c_.col_offset) < (t.lineno, t.col_offset) for t in tests)
					ok = before
					why = '' if before else 'the skip comes after the bracket / delimiter tests'
				else:
					why = f'the skip is triggered by {sorted(chars)}, which does not contain both quote characters'
		if ok:
			r2.ok(name, f.where)
		elif 'not resolved' in why:
			r2.skip(name, f.where, why)
		else:
			r2.violate(name, f.where, f'BlockParser.{name} tests {text_p}[i] against the requested brackets / the delimiter, but {why}: a bracket or delimiter inside a string literal is counted (`print("(")`, `f("a,b", c)`), so the fragment is cut inside the string', unparse(tests[0])[:80])
	rule_angle(rep, bp, pairs)
	rule_callers(rep, idx)
	rule_nesting(rep, bp)
	rule_no_raw_bracket_search(rep, bp)
	rule_separator_flush(rep, bp)


def rule_angle(rep: Report, bp, pairs) -> None:
	"""`<` and `>` are brackets in `std::vector<int>` and operators in `a < b`, `a << 2`, `p->x`, `a >= b`. A scanner that opens a block at every `<` never
	finds its end for a comparison: `a < b, c` is not split, and `for i in range(a if a < b else b, n)` cannot be transpiled. Wherever a scanner
	decides that a character opens or closes a foreign block, the decision for the angle brackets must look at the neighbouring characters (operators
	are rendered with blanks around them, template brackets are attached)."""
	from vlib.match import inline_predicates
	r = rep.rule('C18/angle-brackets-disambiguated', 'every place where a scanner of BlockParser treats a character as a foreign bracket (the stack arm of _skip_other_block, the skip triggers of the scanning loops) is conditioned on the neighbouring characters of that position, so that `<` / `>` used as operators are not brackets', floor=3)
	if not any(p_ == '<>' for p_ in pairs):
		r.ok('no-angle-pair', None, message='<> is not a bracket pair of the table: nothing to disambiguate')
		return

	def looks_at_neighbours(f, known) -> bool:
		expanded = inline_predicates(f, [(a, p_) for a, p_ in known], depth=2)
		for a, _ in expanded:
			for x in ast.walk(a):
				# a predicate helper of the class that receives the position: judged by what its body reads
				if isinstance(x, ast.Call) and isinstance(x.func, ast.Attribute) and isinstance(x.func.value, ast.Name) and x.func.value.id in ('cls', 'self') and f.cls is not None:
					g = f.cls.method(x.func.attr)
					if g is not None and any(isinstance(y, ast.Subscript) and isinstance(y.slice, ast.BinOp) and isinstance(y.slice.op, (ast.Add, ast.Sub)) and isinstance(y.slice.right, ast.Constant) for y in ast.walk(g.node)):
						return True
				if isinstance(x, ast.Subscript) and isinstance(x.slice, ast.BinOp) and isinstance(x.slice.op, (ast.Add, ast.Sub)) and isinstance(x.slice.right, ast.Constant) and x.slice.right.value in (1, 2):
					return True
				if isinstance(x, ast.Name):
					d_ = deref(f.node, x)
					if d_ is not x and any(isinstance(y, ast.Subscript) and isinstance(y.slice, ast.BinOp) for y in ast.walk(d_)):
						return True
		return False
	sk = bp.method('_skip_other_block')
	if sk is not None:
		sx = X(sk)
		ops = [c_ for c_ in nodes(sx, ast.Call) if isinstance(c_.func, ast.Attribute) and c_.func.attr in ('append', 'pop')]
		for c_ in ops:
			r.check(looks_at_neighbours(sk, atoms(sx, c_)), f'_skip_other_block:{c_.func.attr}', (BLOCK, c_.lineno), f'`{unparse(c_)[:50]}` changes the closer stack for every `<` / `>`, whatever stands next to it: a comparison `a < b` opens a block that never closes and the rest of the text is swallowed', unparse(c_)[:80])
	for name in ('_analyze_entry', 'break_separator'):
		f = bp.method(name)
		if f is None:
			continue
		fx = X(f)
		skips = [c_ for c_ in nodes(fx, ast.Call) if unparse(c_.func).endswith('_skip_other_block')]
		for c_ in skips:
			toks = [a for a, p_ in atoms(fx, c_) if p_ and isinstance(a, ast.Compare) and isinstance(a.ops[0], ast.In)]
			angle = any('<' in (_token_set(fx, a.comparators[0], pairs) or set()) for a in toks)
			if not angle:
				continue
			r.check(looks_at_neighbours(f, atoms(fx, c_)), f'{name}:skip-trigger', (BLOCK, c_.lineno), f'{name} starts skipping a foreign block at every `<`, whatever stands next to it: `a < b, c` is never split at the comma and `range(a if a < b else b, n)` is rejected', unparse(c_)[:80])


# ---- decomposition by the callers: decorator arguments, parameter defaults -------------------------------------------------------------

DECORATOR = 'rogw/tranp/view/helper/decorator.py'
CPPVIEW = 'rogw/tranp/implements/cpp/view/cpp_view_helper.py'


def _label_pattern(pat: str) -> tuple[bool, bool] | None:
	"""(starts with a group of identifier characters directly followed by a literal `=`, that `=` is followed by a negative look-ahead for `=`)"""
	import re._parser as sre  # type: ignore
	import re._constants as K  # type: ignore
	try:
		items = list(sre.parse(pat))
	except Exception:
		return None
	while items and items[0][0] in (K.AT,):
		items.pop(0)
	while items and items[0][0] is K.MAX_REPEAT and items[0][1][2][0][0] is K.IN and all(k is K.CATEGORY and v is K.CATEGORY_SPACE for k, v in items[0][1][2][0][1]):
		items.pop(0)  # leading \s*
	if not items or items[0][0] is not K.SUBPATTERN:
		return None
	inner = list(items[0][1][3])
	ident = len(inner) == 1 and inner[0][0] is K.MAX_REPEAT and inner[0][1][0] >= 1 and all(
		(k is K.IN and all((kk is K.CATEGORY and vv in (K.CATEGORY_WORD, K.CATEGORY_DIGIT)) or (kk is K.LITERAL and (chr(vv).isalnum() or chr(vv) == '_')) or (kk is K.RANGE and chr(vv[0]).isalnum() and chr(vv[1]).isalnum()) for kk, vv in v))
		or (k is K.CATEGORY and v in (K.CATEGORY_WORD, K.CATEGORY_DIGIT)) for k, v in inner[0][1][2])
	rest = items[1:]
	while rest and rest[0][0] is K.MAX_REPEAT and rest[0][1][2][0][0] is K.IN and all(k is K.CATEGORY and v is K.CATEGORY_SPACE for k, v in rest[0][1][2][0][1]):
		rest.pop(0)
	if not ident or not rest or rest[0] != (K.LITERAL, ord('=')):
		return (False, False)
	la = len(rest) > 1 and rest[1][0] is K.ASSERT_NOT and list(rest[1][1][1]) == [(K.LITERAL, ord('='))]
	return (True, la)


def rule_callers(rep: Report, idx: SourceIndex) -> None:
	"""`Decorator and parameter text decomposed with these helpers reassembles to the original path, arguments, type, name and default`: after the
	top-level split by BlockParser the callers cut once more at `=`. (a) A decorator argument is `label=value` only when it STARTS with an identifier
	followed by one `=`: a test for any `=` in the piece cuts positional arguments inside their quotes / brackets / comparison operators, and a cut at
	the LAST `=` cuts inside the value. (b) A parameter's default is everything after the FIRST top-level `=`: keeping it only when the split gave two
	pieces drops a default that contains `==`, `<=`, ..."""
	r = rep.rule('C18/callers-cut-at-the-label-separator', 'DecoratorHelper._parse recognises a label by a leading identifier followed by a single `=` (anchored pattern or identifier test), never by the presence or the last position of `=`; Param.parse keeps everything after the first top-level `=` as the default', floor=2)
	dm = idx.mod(DECORATOR)
	rep.consulted(DECORATOR, CPPVIEW)
	f = dm.func('DecoratorHelper._parse')
	if f is None:
		r.skip('decorator-label', (DECORATOR, 1), 'DecoratorHelper._parse vanished')
	else:
		fx = f.node
		loops = [lp for lp in nodes(fx, ast.For) if any(isinstance(c_.func, ast.Attribute) and c_.func.attr == 'break_separator' for c_ in nodes(lp.iter, ast.Call))]
		if len(loops) != 1:
			r.skip('decorator-label', f.where, '_parse no longer loops over BlockParser.break_separator(join_args, ",")')
		else:
			lp = loops[0]
			tv = lp.target.elts[-1] if isinstance(lp.target, ast.Tuple) else lp.target
			av = unparse(tv)
			verdict = None
			for c_ in nodes(lp, ast.Call):
				fn = c_.func
				if isinstance(fn, ast.Attribute) and unparse(fn.value) == av and c_.args and const_str(c_.args[0]) == '=':
					if fn.attr in ('rpartition', 'rsplit', 'rfind', 'rindex'):
						verdict = ('bad', c_, f'_parse cuts a decorator argument at its LAST `=` (`{unparse(c_)}`): a value that contains `=` (`cond=a==b`, `key="a=b"`, `j=f(b=3)`) is cut in the middle, the label becomes `cond=a=` and arg_by("cond") fails')
						break
					if fn.attr in ('partition', 'split', 'find', 'index', 'count'):
						has_ident = any(isinstance(x, ast.Call) and isinstance(x.func, ast.Attribute) and x.func.attr == 'isidentifier' for x in nodes(lp, ast.Call))
						if not has_ident:
							verdict = ('bad', c_, f'_parse takes every piece that contains `=` for a labelled argument (`{unparse(c_)}`, no identifier test on the label): a positional argument with `=` inside quotes, brackets or a comparison (`Embed.alias("operator==")`) is cut in the middle and filed under the label `"operator`')
						elif verdict is None:
							verdict = ('ok', c_, '')
				if isinstance(fn, ast.Attribute) and unparse(fn.value) == 're' and fn.attr in ('fullmatch', 'match', 'search') and len(c_.args) >= 2 and unparse(c_.args[1]) == av:
					pat = const_str(deref(fx, c_.args[0]))
					lab = _label_pattern(pat) if pat is not None else None
					if lab is None or (fn.attr == 'search' and not (pat or '').startswith('^')):
						verdict = verdict or ('skip', c_, f'label pattern `{pat}` not read')
					elif not lab[0]:
						verdict = ('bad', c_, f'the label pattern `{pat}` does not start with an identifier group directly followed by `=`: the cut can fall inside quotes or brackets of a positional argument')
					elif not lab[1]:
						verdict = ('bad', c_, f'the label pattern `{pat}` accepts `name==...`: the positional comparison `a==b` is filed as label `a` with value `=b`')
					elif verdict is None:
						verdict = ('ok', c_, '')
			if any(isinstance(x, ast.Compare) and isinstance(x.ops[0], (ast.In, ast.NotIn)) and const_str(x.left) == '=' and unparse(x.comparators[0]) == av for x in nodes(lp, ast.Compare)) and (verdict is None or verdict[0] == 'ok'):
				if not any(isinstance(x, ast.Call) and isinstance(x.func, ast.Attribute) and x.func.attr == 'isidentifier' for x in nodes(lp, ast.Call)) and not any(isinstance(x.func, ast.Attribute) and unparse(x.func.value) == 're' for x in nodes(lp, ast.Call)):
					verdict = ('bad', lp, f"_parse takes every piece with `'=' in {av}` for a labelled argument: `=` inside quotes, brackets or a comparison cuts a positional argument")
			if verdict is None:
				r.skip('decorator-label', (DECORATOR, lp.lineno), 'the way _parse recognises a labelled argument is not one this check reads')
			elif verdict[0] == 'bad':
				r.violate('decorator-label', (DECORATOR, verdict[1].lineno), verdict[2], unparse(verdict[1])[:120])
			elif verdict[0] == 'skip':
				r.skip('decorator-label', (DECORATOR, verdict[1].lineno), verdict[2])
			else:
				r.ok('decorator-label', (DECORATOR, verdict[1].lineno))
	cm = idx.mod(CPPVIEW)
	pc = cm.cls('CppViewHelper')
	g = cm.func('CppViewHelper.Param.parse')
	if g is None:
		r.skip('parameter-default', (CPPVIEW, 1), 'CppViewHelper.Param.parse vanished')
		return
	gx = g.node
	par = [p_ for p_ in g.params() if p_ not in ('self', 'cls')][0]
	ctor = [c_ for c_ in nodes(gx, ast.Call) if isinstance(c_.func, ast.Name) and c_.func.id == 'cls' and len(c_.args) + len(c_.keywords) >= 3]
	splits = [c_ for c_ in nodes(gx, ast.Call) if isinstance(c_.func, ast.Attribute) and c_.func.attr == 'break_separator' and len(c_.args) >= 2 and const_str(c_.args[1]) == '=']
	if len(ctor) != 1 or not splits:
		r.skip('parameter-default', g.where, 'Param.parse no longer splits with break_separator(parameter, "=") and returns cls(type, name, default)')
		return
	dv = ctor[0].args[2] if len(ctor[0].args) >= 3 else next((k.value for k in ctor[0].keywords if k.arg == 'default_value'), None)
	from vlib.match import may_reach, split_tuple_assigns
	gs = split_tuple_assigns(gx)
	ctor_s = [c_ for c_ in nodes(gs, ast.Call) if isinstance(c_.func, ast.Name) and c_.func.id == 'cls' and len(c_.args) + len(c_.keywords) >= 3][0]
	dv = ctor_s.args[2] if len(ctor_s.args) >= 3 else next((k.value for k in ctor_s.keywords if k.arg == 'default_value'), None)
	defs_ = may_reach(gs, dv) if isinstance(dv, ast.Name) else [dv]
	defs_ = [getattr(d, 'value', d) if isinstance(d, (ast.Assign, ast.AnnAssign)) else d for d in defs_ or []]
	if not defs_:
		r.skip('parameter-default', g.where, 'definitions of the default value not found')
		return
	pieces = {t.id for a in nodes(gs, (ast.Assign, ast.AnnAssign)) if a.value is not None and any(x is s_ for s_ in splits for x in ast.walk(a.value)) or isinstance(a.value, ast.Call) and unparse(a.value) in {unparse(s_) for s_ in splits} for t in ([a.target] if isinstance(a, ast.AnnAssign) else a.targets) if isinstance(t, ast.Name)}
	verdict = None
	for d in defs_:
		def arms(x: ast.AST) -> list[ast.AST]:
			# (A if c else B) -> A, B;  (A if c else (p, q))[1] -> A[1], q
			if isinstance(x, ast.IfExp):
				return arms(x.body) + arms(x.orelse)
			if isinstance(x, ast.Subscript) and isinstance(x.slice, ast.Constant) and isinstance(x.slice.value, int):
				out = []
				for y in arms(x.value):
					if isinstance(y, ast.Tuple) and -len(y.elts) <= x.slice.value < len(y.elts):
						out.extend(arms(y.elts[x.slice.value]))
					else:
						out.append(ast.copy_location(ast.Subscript(value=y, slice=x.slice, ctx=ast.Load()), x) if y is not x.value else x)
				return out
			return [x]
		alts = arms(d)
		for e in alts:
			if isinstance(e, ast.Constant) and e.value == '':
				continue
			from vlib.match import expand_use
			where_e = e
			e = expand_use(gs, e) if any(x is e for x in ast.walk(gs)) else e  # locals such as `separator_at = parameter.index('=', ...)` stand for their values
			ast.copy_location(e, where_e)
			txt = unparse(e)
			one_piece = isinstance(e, ast.Subscript) and isinstance(e.slice, ast.Constant) and e.slice.value == 1 and (unparse(e.value) in pieces or unparse(e.value) in {unparse(s_) for s_ in splits})
			rest_join = isinstance(e, ast.Call) and isinstance(e.func, ast.Attribute) and e.func.attr == 'join' and const_str(e.func.value) == '=' and e.args and ('[1:]' in unparse(e.args[0]))
			tail = any(isinstance(x, ast.Subscript) and unparse(x.value) == par and isinstance(x.slice, ast.Slice) and x.slice.upper is None and x.slice.lower is not None and any(isinstance(y, ast.Call) and isinstance(y.func, ast.Attribute) and y.func.attr in ('index', 'find') and y.args and const_str(y.args[0]) == '=' for y in ast.walk(x.slice.lower)) for x in ast.walk(e))
			rtail = any(isinstance(y, ast.Call) and isinstance(y.func, ast.Attribute) and y.func.attr in ('rindex', 'rfind', 'rpartition', 'rsplit') and y.args and const_str(y.args[0]) == '=' for y in ast.walk(e))
			raw_first = any(isinstance(y, ast.Call) and isinstance(y.func, ast.Attribute) and unparse(y.func.value) == par and y.args and const_str(y.args[0]) == '=' and ((y.func.attr == 'partition') or (y.func.attr == 'split') or (y.func.attr in ('index', 'find') and len(y.args) == 1)) for y in ast.walk(e))
			if raw_first and not rtail:
				verdict = ('bad', e, f'the default is everything behind the FIRST `=` of the raw parameter text (`{txt[:70]}`), found without regard to brackets and quotes: for `std::enable_if_t<N == 1, int> n = 0` or `Opt<"k=v"> o = nullptr` the cut falls inside the type, so the default holds the rest of the type, the name and the real default (type and name come from the bracket-aware split and stay right, the three parts no longer reassemble)')
			elif rtail:
				verdict = ('bad', e, f'the default is cut at the LAST `=` of the parameter (`{txt[:70]}`): of `bool b = a == c` only `c` is kept')
			elif one_piece:
				verdict = ('bad', e, f'the default is the SECOND piece of break_separator(parameter, "=") alone (`{txt[:60]}`): a default that contains `=` outside brackets and quotes (`bool b = a == c`, `x <= 1`) gives more than two pieces and is dropped or truncated, so the declaration loses its default')
			elif tail or rest_join:
				verdict = verdict or ('ok', e, '')
			else:
				verdict = verdict or ('skip', e, f'default computed as `{txt[:70]}`')
	if verdict is None:
		r.skip('parameter-default', g.where, 'no non-empty default found')
	elif verdict[0] == 'bad':
		r.violate('parameter-default', (CPPVIEW, verdict[1].lineno), 'Param.parse: ' + verdict[2], unparse(verdict[1])[:120])
	elif verdict[0] == 'skip':
		r.skip('parameter-default', (CPPVIEW, verdict[1].lineno), verdict[2])
	else:
		r.ok('parameter-default', (CPPVIEW, verdict[1].lineno))


def rule_nesting(rep: Report, bp) -> None:
	"""`no piece is unbalanced`: the entry tree of BlockParser records for every nested block the position one past its closer. `_parse_block` consumes the
	closer (`index += 1; break`) and returns that position; `_parse` must resume exactly there — resuming one further loses a closer that directly
	follows the block, the enclosing block then runs on to the next closer and every piece from the third level on carries a bracket too many
	(`parse_bracket('x((a), (b, (c)))')` gave `(b, (c)))`). And the enumeration of the tree (`Entry.unders`) must reach every level."""
	from vlib.linear import linear
	from vlib.match import split_tuple_assigns
	r = rep.rule('C18/nested-blocks-end-at-their-closer', 'BlockParser._parse resumes after a nested block at the position _parse_block returned (closer consumed exactly once); Entry.unders enumerates all levels', floor=2)
	pb, ps = bp.method('_parse_block'), bp.method('_parse')
	if pb is None or ps is None:
		r.skip('resume-after-block', bp.where, 'BlockParser._parse / _parse_block vanished')
	else:
		# how far past the closer does _parse_block return?  `if text[i] == brackets[1]: i += k; break` ... `return i, entries`
		consumed = None
		for n in nodes(pb.node, ast.If):
			t = n.test
			if isinstance(t, ast.Compare) and isinstance(t.ops[0], ast.Eq) and unparse(t.comparators[0]).endswith('[1]') and any(isinstance(x, ast.Break) for x in n.body):
				incs = [x for x in n.body if isinstance(x, ast.AugAssign) and isinstance(x.op, ast.Add) and isinstance(x.value, ast.Constant)]
				consumed = sum(x.value.value for x in incs)
		psx = split_tuple_assigns(ps.node)
		site = None
		for a in nodes(psx, ast.Assign):
			if isinstance(a.value, ast.Subscript) and isinstance(a.value.value, ast.Call) and unparse(a.value.value.func).endswith('_parse_block') and isinstance(a.value.slice, ast.Constant) and a.value.slice.value == 0 and isinstance(a.targets[0], ast.Name):
				site = a
		if consumed is None or site is None:
			r.skip('resume-after-block', ps.where, '_parse_block no longer consumes the closer in an `if text[i] == brackets[1]: i += 1; break` arm, or _parse no longer takes its first result')
		else:
			endv = site.targets[0].id
			# the loop cursor: the variable of the `while <cursor> < len(text)` loop; its assignment from the block end
			loops = [lp for lp in nodes(psx, ast.While) if isinstance(lp.test, ast.Compare) and isinstance(lp.test.left, ast.Name)]
			cursor = loops[0].test.left.id if loops else None
			resumes = [a for a in nodes(psx, ast.Assign) if isinstance(a.targets[0], ast.Name) and a.targets[0].id == cursor and endv in {x.id for x in ast.walk(a.value) if isinstance(x, ast.Name)}]
			if not resumes:
				r.skip('resume-after-block', ps.where, f'no assignment of the cursor from the block end `{endv}` found')
			for a in resumes:
				terms, const = linear(a.value)
				if terms != {endv: 1}:
					r.skip('resume-after-block', (BLOCK, a.lineno), f'resume position `{unparse(a.value)}` is not the block end plus a constant')
				else:
					r.check(consumed + const == 1, 'resume-after-block', (BLOCK, a.lineno), f'_parse_block returns the position {consumed} past the closer and _parse resumes at `{unparse(a.value)}`: the character directly behind a nested block is skipped; when it is the closer of the enclosing block (`((a))`, `f(g(h(x)))`) that block runs on to the next closer, and the pieces of parse_bracket / the groups of parse_to_formatter are unbalanced from the third level on', unparse(a))
	m = bp.module
	en = m.cls('Entry')
	un = en.method('unders') if en else None
	if un is None:
		r.skip('unders-all-levels', bp.where, 'Entry.unders vanished')
	else:
		recursive = any(isinstance(c_.func, ast.Attribute) and c_.func.attr == 'unders' for c_ in nodes(un.node, ast.Call))
		worklist = any(isinstance(lp, ast.While) for lp in nodes(un.node, ast.While))
		r.check(recursive or worklist, 'unders-all-levels', un.where, 'Entry.unders yields the entries and their direct children only (no recursion, no work-list): blocks nested deeper than two levels are missing from parse_bracket and parse_pair', unparse(un.node)[-120:])


def rule_no_raw_bracket_search(rep: Report, bp) -> None:
	"""The consumers of the entry tree cut pieces out of the text by positions. The position of a block's OPENING bracket is known to the scanner only:
	the name in front of it may contain foreign groups and strings in which the requested bracket occurs (`std::function<void(int)>(a)`, `f["("](a)`).
	A `text.find(brackets[0], entry.begin)` takes the first such occurrence: the piece starts inside the name and is unbalanced
	(`CSP.new([cb] * n)` with a function-typed element was rendered `new std::vector<void(*)(int)>(*)(int)>(n, cb)`)."""
	r = rep.rule('C18/no-raw-bracket-search', 'no method of BlockParser locates a requested bracket with str.find / index / rfind over the scanned text (the scanner that skips foreign groups and strings is the only source of bracket positions)', floor=1)
	n_raw = 0
	for name, defs_ in bp.methods.items():
		for f in defs_:
			params = f.params()
			br = next((p_ for p_ in params if p_ == 'brackets'), None)
			if br is None:
				continue
			fx = X(f)
			for c_ in nodes(fx, ast.Call):
				if not (isinstance(c_.func, ast.Attribute) and c_.func.attr in ('find', 'index', 'rfind', 'rindex') and c_.args):
					continue
				a0 = unparse(c_.args[0])
				if a0 in (f'{br}[0]', f'{br}[1]'):
					n_raw += 1
					r.violate(f'{f.qualname}:{unparse(c_)[:40]}', (BLOCK, c_.lineno), f'{f.qualname} searches the text for the requested bracket with `{unparse(c_)[:70]}`: the first occurrence may lie inside a foreign group or a string of the block name (`std::vector<std::function<void(int)>>(size, x)`, `f["("](a)`), the piece then starts there and is unbalanced', unparse(c_))
	if n_raw == 0:
		r.ok('no-raw-search', bp.where, message='no str.find / index of a requested bracket in BlockParser')



def rule_separator_flush(rep: Report, bp) -> None:
	"""`the pieces rejoined with the delimiter give back the fragment`: break_separator records a piece at every cut and one more piece after the loop. When
	that last piece is only recorded if it is non-empty (`if begin < index`), a cut whose delimiter ENDS the text would vanish without a trace
	(`'a, b,'` -> ['a', 'b'], the same pieces as for `'a, b'`). So either the final piece is recorded unconditionally, or no cut may be made where the
	delimiter reaches the end of the text: the cut condition must imply index + len(delimiter) < len(text)."""
	from vlib.linear import linear
	r = rep.rule('C18/cuts-rejoin-to-the-fragment', 'in BlockParser.break_separator the piece after the last cut is recorded unconditionally, or every cut is conditioned on index + len(delimiter) < len(text)', floor=1)
	f = bp.method('break_separator')
	if f is None:
		r.skip('break_separator', bp.where, 'BlockParser.break_separator vanished')
		return
	text_p, delim_p = [p_ for p_ in f.params() if p_ not in ('cls', 'self')][:2]
	# helpers that only record a piece (`cls._push_block(blocks, text, begin, index)`) are read where they are called
	from vlib.match import merged_function, inline_simple_calls, inline_predicates
	import types
	f_orig = f
	try:
		merged = inline_simple_calls(f, merged_function(f, stmts=True))
		if any(isinstance(n, (ast.While, ast.For)) for n in merged.body):
			f = types.SimpleNamespace(node=merged, where=f_orig.where, params=f_orig.params, qualname=f_orig.qualname)
	except RecursionError:
		pass
	loop = next((n for n in f.node.body if isinstance(n, (ast.While, ast.For))), None)
	if loop is None:
		r.skip('break_separator', f.where, 'break_separator has no scanning loop at its top level')
		return
	cuts = [c_ for c_ in ast.walk(loop) if isinstance(c_, ast.Call) and isinstance(c_.func, ast.Attribute) and c_.func.attr == 'append' and any(isinstance(x, ast.Subscript) and unparse(x.value) == text_p and isinstance(x.slice, ast.Slice) for x in ast.walk(c_))]
	after = f.node.body[f.node.body.index(loop) + 1:]
	flushes = [(st, c_) for st in after for c_ in ast.walk(st) if isinstance(c_, ast.Call) and isinstance(c_.func, ast.Attribute) and c_.func.attr == 'append' and any(isinstance(x, ast.Subscript) and unparse(x.value) == text_p for x in ast.walk(c_))]
	if not cuts or not flushes:
		r.skip('break_separator', f.where, 'break_separator no longer appends text[begin:index] at a cut and once more after the loop')
		return
	def lin(e: ast.AST, depth: int = 0):
		"""linear form with single-assignment locals expanded (`delimiter_end = index + len(delimiter)`, `size = len(delimiter)`)"""
		terms, const = linear(e)
		out: dict[str, int] = {}
		for a, k in terms.items():
			v = None
			if a.isidentifier() and depth < 3:
				stores = [x for x in ast.walk(f.node) if isinstance(x, ast.Name) and x.id == a and isinstance(x.ctx, ast.Store)]
				defs_ = [x for x in ast.walk(f.node) if isinstance(x, ast.Assign) and len(x.targets) == 1 and isinstance(x.targets[0], ast.Name) and x.targets[0].id == a]
				augs = [x for x in ast.walk(f.node) if isinstance(x, ast.AugAssign) and isinstance(x.target, ast.Name) and x.target.id == a]
				if len(stores) == 1 and len(defs_) == 1 and not augs:
					v = defs_[0].value
			if v is not None:
				t2, c2 = lin(v, depth + 1)
				for a2, k2 in t2.items():
					out[a2] = out.get(a2, 0) + k * k2
				const += k * c2
			else:
				out[a] = out.get(a, 0) + k
		return {a: k for a, k in out.items() if k}, const

	# a piece is recorded at EVERY cut, the empty ones included (`,a` -> ['', 'a'], `a,,b` -> ['a', '', 'b']): the number of pieces is the number of cuts
	# plus one, which is what lets positional readers (decorator arguments by index) and the rejoin law count on them
	for c_ in cuts:
		sl = next(x for x in ast.walk(c_) if isinstance(x, ast.Subscript) and unparse(x.value) == text_p and isinstance(x.slice, ast.Slice))
		lo_n = {x.id for x in ast.walk(sl.slice.lower) if isinstance(x, ast.Name)} if sl.slice.lower is not None else set()
		hi_n = {x.id for x in ast.walk(sl.slice.upper) if isinstance(x, ast.Name)} if sl.slice.upper is not None else set()
		dropped = None
		for a, p_ in inline_predicates(f_orig, atoms(f.node, c_)):
			names_a = {x.id for x in ast.walk(a) if isinstance(x, ast.Name)}
			if isinstance(a, ast.Compare) and lo_n and hi_n and lo_n <= names_a and hi_n <= names_a and names_a <= (lo_n | hi_n):
				dropped = a
			elif unparse(a) == unparse(sl) or (isinstance(a, ast.Call) and isinstance(a.func, ast.Attribute) and unparse(a.func.value) == unparse(sl) and a.func.attr in ('strip', 'lstrip', 'rstrip')):
				dropped = a
		r.check(dropped is None, f'cut-records-empty-pieces:{unparse(sl)[:30]}', (BLOCK, c_.lineno), f'the piece `{unparse(sl)}` is recorded at a cut only under `{unparse(dropped) if dropped is not None else ""}`: empty pieces vanish — `,a` gives ["a"] and `a,,b` gives ["a", "b"], the same pieces as for `a` / `a,b`, so the pieces no longer rejoin to the fragment and positional arguments behind an empty one move down', unparse(c_)[:120])
	unconditional = any(st is c_ or (isinstance(st, ast.Expr) and st.value is c_) for st, c_ in flushes)
	if unconditional:
		r.ok('final-piece', f.where, message='the piece after the last cut is always recorded')
		return
	for c_ in cuts:
		implied = False
		for a, p_ in inline_predicates(f_orig, atoms(f.node, c_)):
			if not (p_ and isinstance(a, ast.Compare) and len(a.ops) == 1 and isinstance(a.ops[0], (ast.Lt, ast.LtE, ast.Gt, ast.GtE))):
				continue
			l_, r_ = (a.left, a.comparators[0]) if isinstance(a.ops[0], (ast.Lt, ast.LtE)) else (a.comparators[0], a.left)
			lt_, lc_ = lin(l_)
			rt_, rc_ = lin(r_)
			d = {k: lt_.get(k, 0) - rt_.get(k, 0) for k in set(lt_) | set(rt_)}
			d = {k: v for k, v in d.items() if v}
			dc = lc_ - rc_ + (1 if isinstance(a.ops[0], (ast.Lt, ast.Gt)) else 0)  # d + dc <= 0
			idx_names = [k for k, v in d.items() if v == 1 and k not in (f'len({delim_p})',)]
			if d.get(f'len({text_p})') == -1 and d.get(f'len({delim_p})') == 1 and len(idx_names) == 1 and len(d) == 3 and dc >= 1:
				implied = True
		r.check(implied, f'cut:{unparse(c_)[:40]}', (BLOCK, c_.lineno), f'a cut is made wherever the delimiter is found, also where it ends the text, while the piece after the last cut is only recorded when it is non-empty: `{text_p}` = "f(a, b), g[1, 2]," gives the pieces of "f(a, b), g[1, 2]" — the trailing delimiter is lost and the pieces no longer rejoin to the fragment (`Embed.alias("a,b", f(1, 2),)`, `T n =`, `a->b->`); conditions at the cut: {[(unparse(a)[:50], p_) for a, p_ in atoms(f.node, c_)][:4]}', unparse(c_)[:100])
