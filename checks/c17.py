"""C17 — folding constant expressions gives the value Python gives: finite dispatch analysis of LiteralEvaluator."""
from __future__ import annotations

import ast

from vlib.core import AnalysisError, Report
from vlib.flow import enclosing_tries, handler_raises, handler_types, parent_map, raised_name
from vlib.grammar import GrammarModel, ladder
from vlib.nodemodel import NodeModel
from vlib.guards import always_exits
from vlib.match import FI, X, atoms, closure, closure_fi, deref, facts, facts_through, guarded_through, has_call, nodes
from vlib.norm import helper_closure
from vlib.srcindex import SourceIndex, attr_chain, const_str, unparse, walk_no_nested

EXPLANATION = (
	'LiteralEvaluator is a finite dispatch over (node class, operator token, operand kinds). Decided: (1) in _calc/_bitwise every `op == tok` branch returns `left <OP> right` with <OP> the AST operator CPython parses for tok, '
	'operands in that order, and the chain ends in `assert False`; (2) routing: ArthmeticOps and BitwiseOps are disjoint and make up AllowOps, every branch token belongs to its list, true division and float operands are routed to _calc on float(...) '
	'before the int/int arm re-wraps in int(...), strings only concatenate, and every assert / dispatch is inside try..except AssertionError -> Errors.OperationNotAllowed; '
	'(3) for each handled operator node class the tokens the grammar can put there are either outside AllowOps (refused by on_terminal) or have an explicit branch; on_factor\'s default arm covers only tokens whose Python meaning is the identity; '
	'(4) literal decoding and cast emulation call the Python builtin of the same name. Numeric corner cases (ints beyond 2^53 through float()) and string escapes are not decided.'
)
ASSUMPTIONS = ['the evaluator computes with Python\'s own operators, so a branch with the right operator yields the right value; corner cases of float(int) for huge ints are not decided']
TRUSTED_BASE = ['CPython ast (operator classes parsed from the token)', 'vlib/grammar.py operator ladder']

EVAL = 'rogw/tranp/implements/transpiler/evaluator.py'


def _op_class(tok: str, unary: bool = False) -> str | None:
	try:
		e = ast.parse(f'{tok} a' if unary else f'a {tok} b', mode='eval').body
	except SyntaxError:
		return None
	if isinstance(e, ast.BinOp):
		return type(e.op).__name__
	if isinstance(e, ast.UnaryOp):
		return type(e.op).__name__
	return None


def _const_list(cls, name: str, depth: int = 0) -> list[str] | None:
	"""value of a class constant that is a list of string constants, or a concatenation (`A + B + [...]`, `[*A, *B]`) of such constants"""
	def val(v: ast.AST | None, d: int) -> list[str] | None:
		if d > 6 or v is None:
			return None
		if isinstance(v, (ast.List, ast.Tuple)):
			out: list[str] = []
			for e in v.elts:
				if isinstance(e, ast.Starred):
					inner = val(e.value, d + 1)
					if inner is None:
						return None
					out += inner
				else:
					c_ = const_str(e)
					if c_ is None:
						return None
					out.append(c_)
			return out
		if isinstance(v, ast.BinOp) and isinstance(v.op, ast.Add):
			a, b = val(v.left, d + 1), val(v.right, d + 1)
			return a + b if a is not None and b is not None else None
		if isinstance(v, ast.Name):
			return val(cls.class_attrs.get(v.id), d + 1)
		if isinstance(v, ast.Attribute) and isinstance(v.value, ast.Name) and v.value.id == cls.name:
			return val(cls.class_attrs.get(v.attr), d + 1)
		return None
	return val(cls.class_attrs.get(name), depth)


def _chain(f) -> tuple[list[tuple[str, ast.AST]], ast.AST | None]:
	"""[(token, body stmt)] of an if/elif chain on `op == tok`, and the final else body"""
	out = []
	cur = next((s for s in f.node.body if isinstance(s, ast.If)), None)
	last_else = None
	while isinstance(cur, ast.If):
		t = cur.test
		tok = None
		if isinstance(t, ast.Compare) and isinstance(t.ops[0], ast.Eq) and isinstance(t.left, ast.Name) and t.left.id in ('op', 'operator'):
			tok = const_str(t.comparators[0])
		out.append((tok, cur))
		if len(cur.orelse) == 1 and isinstance(cur.orelse[0], ast.If):
			cur = cur.orelse[0]
		else:
			last_else = cur.orelse
			cur = None
	return out, last_else


def run(rep: Report, tier: str) -> None:
	idx = SourceIndex()
	m = idx.mod(EVAL)
	rep.consulted(EVAL)
	c = m.cls('LiteralEvaluator')
	arth, bitw, allow = _const_list(c, 'ArthmeticOps'), _const_list(c, 'BitwiseOps'), _const_list(c, 'AllowOps')
	if arth is None or bitw is None or allow is None:
		raise AnalysisError('LiteralEvaluator.ArthmeticOps/BitwiseOps/AllowOps are no longer constant lists')

	# the evaluator is one instance for the whole run: it must not remember folded values (a value folded for one module/enum must not answer for another)
	r0 = rep.rule('C17/evaluator-stateless', 'LiteralEvaluator keeps no state besides its reflections and its procedure: no cache/memo/container attribute that could carry a folded value from one expression, enum or module to another', floor=2)
	init = c.method('__init__')
	allowed = {'_reflections', '_procedure'}
	attrs = {}
	for name_, defs_ in c.methods.items():
		for f_ in defs_:
			for n_ in ast.walk(f_.node):
				if isinstance(n_, (ast.Assign, ast.AnnAssign, ast.AugAssign)):
					for t_ in (n_.targets if isinstance(n_, ast.Assign) else [n_.target]):
						if isinstance(t_, ast.Attribute) and isinstance(t_.value, ast.Name) and t_.value.id == 'self':
							attrs.setdefault(t_.attr, []).append((f_, n_))
						if isinstance(t_, ast.Subscript) and isinstance(t_.value, ast.Attribute) and isinstance(t_.value.value, ast.Name) and t_.value.value.id == 'self':
							attrs.setdefault(t_.value.attr, []).append((f_, n_))
	for a_, sites_ in sorted(attrs.items()):
		f_, n_ = sites_[0]
		r0.check(a_ in allowed, f'attr:{a_}', (EVAL, n_.lineno), f'LiteralEvaluator stores `self.{a_}` ({unparse(n_)[:70]}): the evaluator lives for the whole run, so remembered values can answer for a same-named enum member of another module (or of a reloaded module) — folding must be a pure function of the expression', unparse(n_)[:100])
	for a_ in sorted(allowed - set(attrs)):
		r0.note(f'expected attribute {a_} not assigned any more')

	r1 = rep.rule('C17/branch-operator-agreement', 'in _calc/_bitwise each `op == tok` branch returns left <OP> right with the operator CPython parses for tok; the chain ends in assert False', floor=10)
	branch_tokens = {}
	for fname, ops in (('_calc', arth), ('_bitwise', bitw)):
		f = c.method(fname)
		if f is None:
			raise AnalysisError(f'LiteralEvaluator.{fname} vanished')
		branch_tokens[fname] = []
		fx = X(f)
		ps = f.params()[1:]
		if len(ps) != 3:
			raise AnalysisError(f'LiteralEvaluator.{fname} no longer takes (left, op, right)')
		pl, po, pr_ = ps

		def tok_of(node) -> tuple[str | None, list]:
			pos = [const_str(a.comparators[0]) for a, p_ in atoms(fx, node) if p_ and isinstance(a, ast.Compare) and len(a.ops) == 1 and isinstance(a.ops[0], ast.Eq) and unparse(a.left) == po]
			return (pos[0] if len(pos) == 1 else None), pos

		# table-driven form: `funcs[OPS.index(op)](left, right)` with funcs a list parallel to the class constant OPS, or `{tok: func}[op](left, right)`;
		# func is operator.<name> or `lambda a, b: a OP b`. Each (token, function) pair is one branch.
		OPERATOR_MODULE = {'or_': 'BitOr', 'and_': 'BitAnd', 'xor': 'BitXor', 'lshift': 'LShift', 'rshift': 'RShift', 'add': 'Add', 'sub': 'Sub', 'mul': 'Mult', 'truediv': 'Div', 'mod': 'Mod', 'floordiv': 'FloorDiv', 'pow': 'Pow'}
		table_rets = []
		for ret in nodes(fx, ast.Return):
			e = ret.value
			if not (isinstance(e, ast.Call) and isinstance(e.func, ast.Subscript) and [unparse(a) for a in e.args] == [pl, pr_]):
				continue
			tbl, key_e = deref(fx, e.func.value), e.func.slice
			pairs = None
			if isinstance(tbl, ast.Dict) and unparse(key_e) == po:
				pairs = [(const_str(k), v) for k, v in zip(tbl.keys, tbl.values)]
			elif isinstance(tbl, (ast.List, ast.Tuple)) and isinstance(key_e, ast.Call) and isinstance(key_e.func, ast.Attribute) and key_e.func.attr == 'index' and [unparse(a) for a in key_e.args] == [po]:
				keys_ = _const_list(c, unparse(key_e.func.value).split('.')[-1])
				if keys_ is not None:
					pairs = list(zip(keys_, tbl.elts)) if len(keys_) == len(tbl.elts) else [(None, None)]
			if pairs is None:
				continue
			table_rets.append(ret)
			if pairs == [(None, None)]:
				r1.violate(f'{fname}:table-length', (EVAL, ret.lineno), f'{fname} indexes a function table of {len(tbl.elts)} entries with the position of the operator in a list of {len(keys_)}: the two are not parallel', unparse(ret)[:140])
				continue
			for tok, fn_ in pairs:
				key = f'{fname}:{tok}'
				branch_tokens[fname].append(tok)
				want = _op_class(tok)
				got = None
				if isinstance(fn_, ast.Attribute) and unparse(fn_.value) in ('operator', 'op_') and fn_.attr in OPERATOR_MODULE:
					got = OPERATOR_MODULE[fn_.attr]
				elif isinstance(fn_, ast.Lambda) and len(fn_.args.args) == 2 and isinstance(fn_.body, ast.BinOp) and [unparse(fn_.body.left), unparse(fn_.body.right)] == [a.arg for a in fn_.args.args]:
					got = type(fn_.body.op).__name__
				r1.check(got == want, key, (EVAL, ret.lineno), f'the table entry for `{tok}` is `{unparse(fn_)[:50]}` ({got}); CPython evaluates `left {tok} right` as {want}(left, right): the function table and the operator list are out of step, so a different value is folded into the output', unparse(ret)[:140])
				r1.check(tok in ops, key + ':in-list', (EVAL, ret.lineno), f'{fname} has a table entry for `{tok}`, which is not in its operator list {ops}')
		if table_rets:
			guarded = any(isinstance(n, ast.Assert) and isinstance(n.test, ast.Compare) and isinstance(n.test.ops[0], ast.In) and unparse(n.test.left) == po for n in nodes(fx, ast.Assert)) or any(isinstance(n, ast.Raise) for n in nodes(fx, ast.Raise))
			r1.check(guarded, f'{fname}:else', f.where, f'{fname} looks the operator up in a table: an unknown operator must be refused with an assertion / raise (converted to OperationNotAllowed) before the lookup')
			continue
		for ret in nodes(fx, ast.Return):
			e = ret.value
			tok, pos = tok_of(ret)
			if not pos:
				r1.skip(f'{fname}:return@{unparse(e)[:30]}', (EVAL, ret.lineno), f'return `{unparse(e)}` is not under a single `{po} == <token>` condition')
				continue
			key = f'{fname}:{tok}'
			if tok is None:
				r1.skip(key, (EVAL, ret.lineno), f'return `{unparse(e)}` is under several operator conditions {pos}')
				continue
			branch_tokens[fname].append(tok)
			want = _op_class(tok)
			ok = isinstance(e, ast.BinOp) and type(e.op).__name__ == want and isinstance(e.left, ast.Name) and e.left.id == pl and isinstance(e.right, ast.Name) and e.right.id == pr_
			r1.check(ok, key, (EVAL, ret.lineno), f'branch for `{tok}` returns `{unparse(e)}`; CPython evaluates `left {tok} right` as {want}(left, right): a different value would be folded into the output', unparse(ret))
			r1.check(tok in ops, key + ':in-list', (EVAL, ret.lineno), f'{fname} has a branch for `{tok}`, which is not in its operator list {ops}')
		refusals = [n for n in nodes(fx, (ast.Assert, ast.Raise)) if not tok_of(n)[1] and (isinstance(n, ast.Raise) or (isinstance(n.test, ast.Constant) and n.test.value is False))]
		falls_off = not always_exits(fx.body)
		r1.check(bool(refusals) and not falls_off, f'{fname}:else', f.where, f'{fname} must refuse unknown operators with `assert False` (converted to OperationNotAllowed) instead of falling through (returning None)')

	r2 = rep.rule('C17/routing-partition', 'operator lists partition AllowOps; true division / float operands go to _calc on float(); int,int arithmetic is re-wrapped in int(); strings only concatenate; asserts are converted', floor=8)
	r2.check(not set(arth) & set(bitw), 'disjoint', c.where, f'ArthmeticOps and BitwiseOps overlap: {sorted(set(arth) & set(bitw))}')
	# as sets: a token listed twice (a separate row for the signs) allows nothing new; a token in neither row has no binary routing — what a unary one
	# does is the business of C17/grammar-exhaustive
	unary_only = {t for t in set(allow) - set(arth) - set(bitw) if _op_class(t) is None and _op_class(t, unary=True) is not None}
	r2.check(set(allow) - unary_only == set(arth) | set(bitw), 'allow-is-union', c.where, f'AllowOps {sorted(set(allow))} is not the union of ArthmeticOps and BitwiseOps {sorted(set(arth) | set(bitw))}')
	for fname, ops in (('_calc', arth), ('_bitwise', bitw)):
		missing = sorted(set(ops) - set(branch_tokens[fname]))
		if missing:
			r2.note(f'{fname} has no branch for allowed tokens {missing}: they are refused (safe), not folded')
	ob = c.method('_op_bin_each')
	if ob is None:
		raise AnalysisError('_op_bin_each vanished')
	members = helper_closure(ob, 2)
	members = [g for g in members if g.name not in ('_calc', '_bitwise', '_cat', '_allow_string')]
	arms: dict[str, list] = {'float': [], 'int': [], 'bitwise': [], 'cat': []}
	exact_arms: list = []  # int / int by Python's own true division (correctly rounded): operands handed over unconverted, result not re-wrapped
	for g in members:
		gx = X(g)
		for cl in nodes(gx, ast.Call):
			fnm = unparse(cl.func)
			if fnm == 'self._calc' and len(cl.args) == 3:
				floats = [isinstance(a, ast.Call) and unparse(a.func) == 'float' for a in (cl.args[0], cl.args[2])]
				fs_ = facts_through(ob, gx, cl)
				par_ = parent_map(gx).get(id(cl))
				if not any(floats) and ("op == '/'", True) in fs_ and sum(1 for t, p_ in fs_ if p_ and t.startswith('isinstance(') and t.endswith('int)')) >= 2 and not (isinstance(par_, ast.Call) and unparse(par_.func) == 'int'):
					exact_arms.append((g, gx, cl))
					continue
				# operands handed to _calc unconverted under the float-or-division test: Python's own mixed arithmetic converts exactly as float() would,
				# and divides two ints exactly — same arm, nothing to round twice
				unconverted = not any(floats) and any(p_ and ' or ' in t and 'float)' in t for t, p_ in fs_)
				arms['float' if all(floats) or unconverted else 'int'].append((g, gx, cl))
			elif fnm == 'self._bitwise':
				arms['bitwise'].append((g, gx, cl))
			elif fnm == 'self._cat':
				arms['cat'].append((g, gx, cl))

	def known(g, gx, node) -> list[tuple[str, bool]]:
		return facts_through(ob, gx, node)

	def has(fs, text_pred, pol) -> bool:
		return any(p_ == pol and text_pred(t) for t, p_ in fs)

	if not all(arms.values()):
		r2.skip('routing-arms', ob.where, f'_op_bin_each no longer routes to _calc(float..), int(_calc(..)), _bitwise and _cat (found {[k for k, v in arms.items() if v]})')
	for g, gx, cl in arms['float']:
		fs = known(g, gx, cl)
		# reached when a float operand OR true division: the disjunction is one atom
		disj = [t for t, p_ in fs if p_ and ' or ' in t and 'float)' in t]
		single = has(fs, lambda t: t.startswith('isinstance(') and t.endswith('float)'), True) or has(fs, lambda t: t.endswith("== '/'"), True)
		r2.check(any("== '/'" in t and t.count('float)') >= 2 for t in disj), 'float-arm-test', (EVAL, cl.lineno), f'the float() arm must take float operands OR true division (else int/int `/` would be truncated by int()): conditions {fs}')
		# ... but NOT int / int: float(a) / float(b) rounds twice (each operand, then the quotient) where CPython's int / int is correctly rounded
		# from the exact quotient: 14046286627791492475 / 8720394264201255075 is 1.610739859028388, through float() it is 1.6107398590283881
		# the arm is unreachable for (int, int, '/') when one of the conditions known here evaluates, under that assignment, to the opposite of its
		# recorded truth (`both_ints and op == '/'` recorded False after an early return; `not (isinstance(..int) and ...)`; ...)
		def _ev(e: ast.AST, depth: int = 0):
			if isinstance(e, ast.BoolOp):
				vs = [_ev(v, depth) for v in e.values]
				if isinstance(e.op, ast.And):
					return False if False in vs else (True if all(v is True for v in vs) else None)
				return True if True in vs else (False if all(v is False for v in vs) else None)
			if isinstance(e, ast.UnaryOp) and isinstance(e.op, ast.Not):
				v = _ev(e.operand, depth)
				return None if v is None else (not v)
			if isinstance(e, ast.Call) and unparse(e.func) == 'isinstance' and len(e.args) == 2 and unparse(e.args[0]) in ('left', 'right'):
				ts = [unparse(x) for x in (e.args[1].elts if isinstance(e.args[1], ast.Tuple) else [e.args[1]])]
				return 'int' in ts
			if isinstance(e, ast.Compare) and len(e.ops) == 1 and unparse(e.left) == 'op':
				rhs = e.comparators[0]
				if isinstance(rhs, ast.Constant):
					return {ast.Eq: rhs.value == '/', ast.NotEq: rhs.value != '/'}.get(type(e.ops[0]))
				if isinstance(e.ops[0], (ast.In, ast.NotIn)):
					member = '/' in arth if unparse(rhs).endswith('ArthmeticOps') else ('/' in bitw if unparse(rhs).endswith('BitwiseOps') else ('/' in [getattr(x, 'value', None) for x in rhs.elts] if isinstance(rhs, (ast.List, ast.Tuple, ast.Set)) else None))
					return None if member is None else (member if isinstance(e.ops[0], ast.In) else not member)
			if isinstance(e, ast.Name) and depth < 3:
				d_ = deref(g.node, e)
				return _ev(d_, depth + 1) if d_ is not e else None
			return None
		excluded = False
		for t, p_ in fs:
			try:
				v_ = _ev(ast.parse(t, mode='eval').body)
			except SyntaxError:
				v_ = None
			if v_ is not None and v_ != p_:
				excluded = True
		unconv = not any(isinstance(a, ast.Call) and unparse(a.func) == 'float' for a in (cl.args[0], cl.args[2]))
		r2.check(unconv or (bool(exact_arms) and excluded), 'int-division-is-exact', (EVAL, cl.lineno), f'true division of two ints reaches `{unparse(cl)[:60]}`: both operands are converted with float() first, so the quotient is rounded twice and differs from the value CPython computes for int / int (correctly rounded) as soon as an operand exceeds 2**53 — 14046286627791492475 / 8720394264201255075 folds to 1.6107398590283881, CPython: 1.610739859028388; int / int must be handed to Python\'s own `/` unconverted (conditions here: {fs})')
	for g, gx, cl in arms['int']:
		fs = known(g, gx, cl)
		pm_ = parent_map(gx)
		par = pm_.get(id(cl))
		wrapped = isinstance(par, ast.Call) and unparse(par.func) == 'int'
		r2.check(wrapped, 'int-arm-body', (EVAL, cl.lineno), f'int,int arithmetic must be re-wrapped: int(self._calc(...)) — found `{unparse(par if par is not None else cl)[:80]}`', unparse(cl))
		ints = sum(1 for t, p_ in fs if p_ and t.startswith('isinstance(') and t.endswith('int)'))
		r2.check(ints >= 2 and has(fs, lambda t: t.endswith("== '/'"), False) and has(fs, lambda t: t.endswith('ArthmeticOps') and ' in ' in t, True), 'int-arm-test', (EVAL, cl.lineno), f'the int() arm must be reached only for two ints, an arithmetic operator and never for `/`: conditions {fs}')
	for g, gx, cl in arms['bitwise']:
		fs = known(g, gx, cl)
		ints = sum(1 for t, p_ in fs if p_ and t.startswith('isinstance(') and t.endswith('int)'))
		r2.check(ints >= 2 and has(fs, lambda t: t.endswith('ArthmeticOps') and ' in ' in t, False), 'bitwise-arm-test', (EVAL, cl.lineno), f'_bitwise must be reached only for two ints and a non-arithmetic operator: conditions {fs}')
	for g, gx, cl in arms['cat']:
		fs = known(g, gx, cl)
		strs = sum(1 for t, p_ in fs if p_ and t.startswith('isinstance(') and t.endswith('str)'))
		r2.check(strs >= 2 and has(fs, lambda t: t.endswith("== '+'"), True), 'str-arm-test', (EVAL, cl.lineno), f'the string arm must require two strings and `+`: conditions {fs}')
	refuse = [n for g in members for n in nodes(X(g), ast.Assert) if isinstance(n.test, ast.Constant) and n.test.value is False]
	r2.check(bool(refuse), 'else-refuses', ob.where, 'every other operand combination must be refused (assert False)')

	def converts(t: ast.Try) -> bool:
		return any('AssertionError' in handler_types(h) and any(raised_name(x) == 'Errors.OperationNotAllowed' for x in handler_raises(h)) for h in t.handlers)

	for g in members:
		for n in walk_no_nested(g.node):
			if isinstance(n, ast.Assert) or (isinstance(n, ast.Call) and unparse(n.func) in ('self._calc', 'self._bitwise', 'self._cat')):
				r2.check(guarded_through(members, g, n, converts), f'converted:{unparse(n)[:40]}', (EVAL, n.lineno), f'`{unparse(n)[:60]}` is not inside try..except AssertionError -> Errors.OperationNotAllowed')

	# the chain is folded left to right, one operator per step
	from vlib import fold
	r5 = rep.rule('C17/chain-folded-left-to-right', '_op_bin_each folds [operand, operator, operand, ...] front to back (Python evaluates a same-level chain left to right: 10 - 3 - 2 == 5) with the operator of each step', floor=2)
	eparam = ob.params()[-1]
	back = fold.backward_consumers(ob.node, {eparam})
	r5.check(not back, 'front-to-back', ob.where, f'the element list is consumed from its end ({[unparse(b) for b in back][:3]}): the chain is then folded right to left, which changes the value for non-associative operators (10 - 3 - 2, 8 / 2 / 2, 100 >> 2 << 1)', unparse(back[0]) if back else '')
	steps = [c_ for g in members for c_ in ast.walk(g.node) if isinstance(c_, ast.Call) and unparse(c_.func) in ('self._calc', 'self._bitwise') and len(c_.args) == 3]
	in_loop = [(c_, fold.enclosing_loop(ob.node, c_)) for c_ in steps if any(c_ is x for x in ast.walk(ob.node))]
	helper_calls = [(c_, fold.enclosing_loop(ob.node, c_)) for c_ in ast.walk(ob.node) if isinstance(c_, ast.Call) and isinstance(c_.func, ast.Attribute) and any(g.name == c_.func.attr for g in members if g is not ob) and len(c_.args) >= 2]
	sites = [(c_, lp, c_.args[1]) for c_, lp in in_loop if lp is not None] + [(c_, lp, c_.args[1]) for c_, lp in helper_calls if lp is not None]
	if not sites:
		r5.skip('operator-per-step', ob.where, 'no per-step call inside a loop of _op_bin_each')
	for c_, lp, opx in sites:
		r5.check(fold.is_variant(lp, opx), f'operator-per-step:{unparse(c_)[:40]}', (EVAL, c_.lineno), f'`{unparse(c_)[:80]}` uses the operator `{unparse(opx)}`, which does not change from one step of the chain to the next', unparse(c_)[:100])
	# the accumulator is the LEFT operand of each step
	for c_, lp, opx in sites:
		acc = c_.args[0]
		accn = {x.id for x in ast.walk(acc) if isinstance(x, ast.Name)}
		pm_ = parent_map(ob.node)
		stmt = c_
		while id(stmt) in pm_ and not isinstance(stmt, ast.stmt):
			stmt = pm_[id(stmt)]
		tgt = unparse(stmt.targets[0]) if isinstance(stmt, ast.Assign) else None
		if tgt is not None:
			r5.check(tgt in accn, f'accumulator-is-left:{unparse(c_)[:40]}', (EVAL, c_.lineno), f'the result of a step is stored in `{tgt}` but the next step takes `{unparse(acc)}` as its left operand: the fold must carry the accumulated value on the left (left-associative)', unparse(stmt)[:100])

	# grammar exhaustiveness
	r3 = rep.rule('C17/grammar-exhaustive', 'for each handled operator class, every token the grammar admits there is refused (not in AllowOps) or has an explicit branch; on_factor\'s default arm covers only identity tokens', floor=12)
	gm = GrammarModel()
	nm = NodeModel(idx)
	rep.consulted(gm.relpath)
	t2c = nm.tag_to_classes()
	handled = {n[3:] for n in c.methods if n.startswith('on_')}
	for lv in ladder(gm):
		classes = t2c.get(lv.tag, [])
		if len(classes) != 1:
			continue
		cls_name = nm.classification(classes[0])
		if cls_name not in handled:
			continue
		h = c.method(f'on_{cls_name}')
		if lv.kind == 'binary':
			r3.check(has_call(closure(h), '_op_bin_each'), f'{cls_name}:delegates', h.where, f'on_{cls_name} no longer folds with _op_bin_each')
			for tok in lv.tokens:
				key = f'{cls_name}:{tok}'
				if tok not in allow:
					r3.ok(key, h.where, message='refused by on_terminal')
					continue
				fn = '_calc' if tok in arth else '_bitwise'
				r3.check(tok in branch_tokens[fn], key, h.where, f'`{tok}` is allowed and routed to {fn}, which has no branch for it (refused: safe) — but it is listed in the wrong operator list if the other function handles it: {tok in branch_tokens["_calc" if fn == "_bitwise" else "_bitwise"]}')
		elif lv.kind == 'prefix':
			# on_factor: explicit branches and default arm
			explicit = {}
			for n in ast.walk(h.node):
				if isinstance(n, ast.IfExp) and isinstance(n.test, ast.Compare) and isinstance(n.test.left, ast.Name) and n.test.left.id == 'operator':
					explicit[const_str(n.test.comparators[0])] = (n.body, n.orelse)
			if not explicit:
				r3.undecided(f'{cls_name}:shape', h.where, 'on_factor no longer has the shape `<expr> if operator == tok else value`')
			for tok in lv.tokens:
				key = f'{cls_name}:{tok}'
				if tok not in allow:
					r3.ok(key, h.where, message='refused by on_terminal')
					continue
				if tok in explicit:
					body = explicit[tok][0]
					ok = isinstance(body, ast.UnaryOp) and type(body.op).__name__ == _op_class(tok, unary=True) and isinstance(body.operand, ast.Name) and body.operand.id == 'value'
					r3.check(ok, key, h.where, f'unary `{tok}` is folded as `{unparse(body)}`; CPython applies {_op_class(tok, unary=True)}')
				else:
					defaults = {unparse(v[1]) for v in explicit.values()}
					r3.check(_op_class(tok, unary=True) == 'UAdd' and defaults == {'value'}, key, h.where, f'unary `{tok}` is allowed and falls into the default arm `{defaults}`, i.e. the operand is returned unchanged, but `{tok}x` is not the identity in Python')
	term = c.method('on_terminal')
	if term is None:
		raise AnalysisError('LiteralEvaluator.on_terminal vanished')
	tx = X(term)
	rets = [n for n in nodes(tx, ast.Return) if n.value is not None]
	gate = lambda n: any(p_ and isinstance(a, ast.Compare) and isinstance(a.ops[0], ast.In) and unparse(a.comparators[0]).endswith('AllowOps') for a, p_ in atoms(tx, n))
	r3.check(bool(rets) and all(gate(n) for n in rets) and any(isinstance(n, ast.Raise) for n in ast.walk(tx)), 'terminal-gate', term.where, 'on_terminal must return a token only when it is in AllowOps and refuse every other token')
	fb = c.method('on_fallback')
	r3.check(fb is not None and any(raised_name(n) == 'Errors.OperationNotAllowed' for b in closure_fi(fb) for n in nodes(b, ast.Raise)), 'fallback-refuses', fb.where if fb else c.where, 'on_fallback no longer refuses unknown node kinds')

	# literal decoding / casts
	r4 = rep.rule('C17/literal-decoding', 'literal handlers and cast emulation call the Python builtin of the same name (int base 16 only under the 0x prefix)', floor=6)
	oi = c.method('on_integer')
	ox = X(oi)
	ints = [cl for cl in nodes(ox, ast.Call) if unparse(cl.func) == 'int']
	hex_tests: list = []
	# decided by evaluation (vlib/dsneval.py) on representatives of the two integer terminals the operator set admits — the handler may delegate to a
	# property of the node class (`node.as_int`), which is followed: the folded value must be the value CPython gives the literal text
	from vlib import dsneval
	lit_mod = idx.mod('rogw/tranp/syntax/node/definition/literal.py')
	evaluated_int = evaluated_float = False
	nparam = oi.params()[1] if len(oi.params()) > 1 else 'node'
	reps_i = ['12', '0', '7', '0x1F', '0X1f', '0xff', '1_000', '1_0']
	got_i = {t: dsneval.call_function(c, 'on_integer', [object()], {}, 0, {f'{nparam}.tokens': t, '__objects__': {nparam: (lit_mod.cls('Integer'), {'tokens': t})}}) for t in reps_i}
	if all(v is not dsneval.UNKNOWN for v in got_i.values()):
		evaluated_int = True
		for t, v in got_i.items():
			want = ast.literal_eval(t)
			shown = 'an exception (int() rejects the text)' if v is dsneval.RAISES else repr(v)
			r4.check(v is not dsneval.RAISES and v == want and type(v) is type(want), f'integer:{t}', oi.where, f'on_integer folds the literal `{t}` to {shown}; CPython evaluates it to {want!r}' + (': a decimal literal with digit separators is read in base 16 (`1_000 + 1` folds to 4097)' if '_' in t and v not in (want, dsneval.RAISES) else ''), f'{t} -> {shown}')
	of_ = c.method('on_float')
	fparam = of_.params()[1] if of_ is not None and len(of_.params()) > 1 else 'node'
	reps_f = ['1.5', '0.25', '1e5', '2E-3', '.5', '1.']
	got_f = {t: dsneval.call_function(c, 'on_float', [object()], {}, 0, {f'{fparam}.tokens': t, '__objects__': {fparam: (lit_mod.cls('Float'), {'tokens': t})}}) for t in reps_f} if of_ is not None else {}
	if got_f and all(v is not dsneval.UNKNOWN for v in got_f.values()):
		evaluated_float = True
		for t, v in got_f.items():
			want = ast.literal_eval(t)
			shown = 'an exception' if v is dsneval.RAISES else repr(v)
			r4.check(v is not dsneval.RAISES and v == want and type(v) is type(want), f'float:{t}', of_.where, f'on_float folds the literal `{t}` to {shown}; CPython evaluates it to {want!r}', f'{t} -> {shown}')
	if evaluated_int:
		ints = []
	elif not ints:
		r4.skip('integer', oi.where, 'on_integer no longer calls int(...)')
	for cl in ints:
		base = next((kw.value for kw in cl.keywords if kw.arg == 'base'), cl.args[1] if len(cl.args) > 1 else None)
		fs = facts(ox, cl)
		hexfact = []
		for a, p_ in atoms(ox, cl):
			a = deref(ox, a)
			if isinstance(a, ast.Call) and isinstance(a.func, ast.Attribute) and a.func.attr == 'startswith' and a.args:
				arg = a.args[0]
				prefixes = [const_str(e) for e in (arg.elts if isinstance(arg, ast.Tuple) else [arg])]
				if all(isinstance(x, str) and x.lower() == '0x' for x in prefixes):
					hexfact.append(p_)
					folded = any(isinstance(x, ast.Call) and isinstance(x.func, ast.Attribute) and x.func.attr in ('lower', 'casefold') for x in ast.walk(a.func.value))
					hex_tests.append((cl, folded or {'0x', '0X'} <= set(prefixes), unparse(a)))
		if base is not None:
			try:
				bv = ast.literal_eval(base)
			except Exception:
				bv = None
			r4.check(bv == 16 and hexfact == [True] and unparse(cl.args[0]).endswith('tokens'), 'integer:hex', (EVAL, cl.lineno), f'`{unparse(cl)}` must decode base 16 exactly under the 0x prefix (conditions {fs})')
		else:
			r4.check(hexfact in ([False], []) and unparse(cl.args[0]).endswith('tokens') and (hexfact == [False] or len(ints) == 1), 'integer:dec', (EVAL, cl.lineno), f'`{unparse(cl)}` must decode the literal text in base 10 when there is no 0x prefix (conditions {fs})')
	of = c.method('on_float')
	ofx = X(of)
	if not evaluated_float:
		r4.check(any(isinstance(n.value, ast.Call) and unparse(n.value.func) == 'float' and len(n.value.args) == 1 and unparse(n.value.args[0]).endswith('.tokens') for n in nodes(ofx, ast.Return) if n.value is not None), 'float', of.where, 'on_float no longer returns float(node.tokens)')
	fc = c.method('on_func_call')
	fcx = X(fc)
	seen_casts = set()
	for ret in nodes(fcx, ast.Return):
		if ret.value is None:
			continue
		names = [const_str(a.comparators[0]) for a, p_ in atoms(fcx, ret) if p_ and isinstance(a, ast.Compare) and len(a.ops) == 1 and isinstance(a.ops[0], ast.Eq) and const_str(a.comparators[0]) in ('int', 'float', 'str', 'bool')]
		if len(names) != 1:
			continue
		name = names[0]
		builtin_calls = {n.func.id for n in ast.walk(ret.value) if isinstance(n, ast.Call) and isinstance(n.func, ast.Name) and n.func.id in ('int', 'float', 'str', 'bool')}
		seen_casts.add(name)
		# `T(x)` for an x that already is a T is x itself: returning the argument under isinstance(argument, T) needs no builtin
		identity = not builtin_calls and unparse(ret.value) == f'{fc.params()[-1]}[0]' and any(p_ and isinstance(a, ast.Call) and unparse(a.func) == 'isinstance' and len(a.args) == 2 and unparse(a.args[0]) == unparse(ret.value) and unparse(a.args[1]) == name for a, p_ in atoms(fcx, ret))
		r4.check(builtin_calls == {name} or identity, f'cast:{name}', (EVAL, ret.lineno), f'the emulation of `{name}(...)` calls {sorted(builtin_calls)}', unparse(ret))
	# a cast arm converts arguments[0] only: it may be reached only for calls with exactly one argument (int('10', 2) is 2 in Python, not 10)
	for ret in nodes(fcx, ast.Return):
		if ret.value is None or not any(isinstance(x, ast.Subscript) and unparse(x) == f'{fc.params()[-1]}[0]' for x in ast.walk(ret.value)):
			continue
		known_ = atoms(fcx, ret)
		arity = any((isinstance(a, ast.Compare) and 'len(' in unparse(a) and unparse(a.comparators[0]) == '1' and ((isinstance(a.ops[0], ast.Eq) and p_) or (isinstance(a.ops[0], ast.NotEq) and not p_))) for a, p_ in known_)
		r4.check(arity, f'cast-arity:{unparse(ret.value)[:40]}', (EVAL, ret.lineno), f'`{unparse(ret)[:70]}` folds the first argument whatever else was passed: `int(\'10\', 2)` folds to 10 (Python: 2), `float(\'1.5\', 3)` to 1.5 (Python: TypeError); the arm must be guarded by len(arguments) == 1', unparse(ret)[:100])
	if not seen_casts:
		r4.skip('cast:?', fc.where, 'on_func_call no longer has `return <builtin>(...)` arms under `<callee name> == \'<builtin>\'`')
	# the content of a string literal is the text between its two quote characters: exactly one character is removed per side
	greedy = [n for defs_ in c.methods.values() for f_ in defs_ for n in ast.walk(f_.node) if isinstance(n, ast.Call) and isinstance(n.func, ast.Attribute) and n.func.attr in ('strip', 'lstrip', 'rstrip', 'replace') and n.args and isinstance(n.args[0], ast.Constant) and isinstance(n.args[0].value, str) and set(n.args[0].value) & set('"\'') and (n.func.attr != 'replace' or (len(n.args) > 1 and isinstance(n.args[1], ast.Constant) and n.args[1].value == ''))]
	for n in greedy:
		r4.violate(f'unquote:{unparse(n)[:40]}', (EVAL, n.lineno), f'`{unparse(n)}` removes EVERY quote character at the edges of the literal, not just the delimiters: `"\'" + "abc" + "\'"` folds to `abc` (CPython: \'abc\'), `int("\'5\'")` is accepted', unparse(n))
	slices_ = [n for defs_ in c.methods.values() for f_ in defs_ for n in ast.walk(f_.node) if isinstance(n, ast.Subscript) and isinstance(n.slice, ast.Slice) and unparse(n.slice) == '1:-1']
	r4.check(bool(slices_) or bool(greedy), 'unquote:delimiters-only', c.where, 'no `[1:-1]` un-quoting left in LiteralEvaluator (rule needs re-derivation)') if not slices_ and not greedy else r4.ok('unquote:delimiters-only', c.where) if not greedy else None
	# string concatenation: the folded literal is written between ONE pair of quotes (the left operand's); the body of an operand that was written with the
	# other quote character may contain that quote unescaped, so it cannot be pasted verbatim
	cat = c.method('_cat')
	if cat is None:
		r4.skip('concat:requoted', c.where, 'LiteralEvaluator._cat vanished')
	else:
		cx = FI(cat)
		from vlib.match import concat_parts
		lits = [(n, [v for k_, v in concat_parts(n.value) if k_ == 'expr']) for n in nodes(cx, ast.Return) if n.value is not None]
		lits = [(n, fv) for n, fv in lits if len(fv) >= 3 and unparse(fv[0]) == unparse(fv[-1])]
		if not lits:
			r4.skip('concat:requoted', cat.where, '_cat no longer builds the folded literal as delimiter + bodies + delimiter (f-string or + chain)')
		for js, fv in lits:
			delim = fv[0]
			owner = unparse(delim.value) if isinstance(delim, ast.Subscript) else None
			for body in fv[1:-1]:
				verbatim = isinstance(body, ast.Subscript) and isinstance(body.slice, ast.Slice) and unparse(body.slice) == '1:-1'
				if not verbatim:
					r4.ok(f'concat:requoted:{unparse(body)[:30]}', (EVAL, js.lineno))
					# the converter itself: whether a quote character in the body is escaped depends on the backslashes before it, so the conversion has
					# to walk the text and treat `\\x` as a unit. Global str.replace passes are context-free: replacing every `"` by `\\"` doubles the
					# backslash of a quote that was already escaped (`'a\\"b'` -> `"a\\\\"b"`: the literal ends after the backslash)
					conv = c.method(body.func.attr) if isinstance(body, ast.Call) and isinstance(body.func, ast.Attribute) and isinstance(body.func.value, ast.Name) and body.func.value.id in ('self', 'cls') else None
					if conv is not None:
						reps = [n for n in ast.walk(conv.node) if isinstance(n, ast.Call) and isinstance(n.func, ast.Attribute) and n.func.attr == 'replace' and len(n.args) >= 2 and any(isinstance(x, ast.Constant) and isinstance(x.value, str) and '\\' in x.value for a in n.args[:2] for x in ast.walk(a))]
						def _char(x: ast.AST) -> bool:
							# one character of the body: `body[i]`, or a local bound to it (`char = body[index]`)
							return isinstance(x, ast.Subscript) or (isinstance(x, ast.Name) and isinstance(deref(conv.node, x), ast.Subscript))
						scans = [n for n in ast.walk(conv.node) if isinstance(n, ast.Compare) and any(isinstance(x, ast.Constant) and x.value == '\\' for x in [n.left, *n.comparators]) and any(_char(x) for x in [n.left, *n.comparators])]
						key = f'concat:converter-escape-aware:{conv.name}'
						if reps:
							r4.violate(key, (EVAL, reps[0].lineno), f'{conv.qualname} re-escapes the body with `{unparse(reps[0])[:90]}`, a replace over the whole text: a quote that is already escaped gets a second backslash (`"x" + \'a\\"b\'` folds to `"xa\\\\"b"`, a literal that ends after the backslash), and an escaped backslash followed by a quote is mistaken for an escaped quote; the value differs from CPython\'s and is not refused', unparse(reps[0]))
						elif scans:
							r4.ok(key, (EVAL, scans[0].lineno))
						else:
							r4.skip(key, conv.where, f'{conv.qualname} neither walks the body testing for the backslash nor uses str.replace')
					continue
				x = unparse(body.value)
				same = x == owner or any(p_ and isinstance(a, ast.Compare) and len(a.ops) == 1 and isinstance(a.ops[0], ast.Eq) and {unparse(a.left), unparse(a.comparators[0])} == {f'{x}[0]', unparse(delim)} for a, p_ in atoms(cx, js))
				r4.check(same, f'concat:requoted:{x}', (EVAL, js.lineno), f'_cat writes the body of `{x}` verbatim between the quotes of `{owner}`: when the two literals use different quote characters the body may contain the new delimiter unescaped (`"a" + \'say "hi"\'` folds to `"asay "hi""`, not a literal of the Python value)', unparse(js)[:120])
	# a string operand is admitted (by _allow_string) as "one quote character, body, one quote character": a triple-quoted literal also starts and ends with a
	# quote character, but its delimiter is three characters long — un-quoting it with [1:-1] leaves two quote characters on each side of the body
	alw = c.method('_allow_string')
	if alw is None or cat is None:
		r4.skip('concat:single-character-delimiters', c.where, 'LiteralEvaluator._allow_string / _cat vanished')
	else:
		sp = alw.params()[1] if len(alw.params()) > 1 else 'string'
		one_char = any(isinstance(n, ast.Subscript) and isinstance(n.slice, ast.Slice) and unparse(n.slice) == '1:-1' for n in ast.walk(cat.node))
		triple_seen = [n for n in ast.walk(alw.node) if (isinstance(n, ast.Subscript) and isinstance(n.slice, ast.Slice) and unparse(n.slice) in (':3', '0:3', '-3:') and unparse(n.value) == sp)
			or (isinstance(n, ast.Call) and isinstance(n.func, ast.Attribute) and n.func.attr in ('startswith', 'endswith') and any(isinstance(x, ast.Constant) and isinstance(x.value, str) and len(x.value) == 3 and len(set(x.value)) == 1 and x.value[0] in '"\'' for a in n.args for x in ast.walk(a)))
			or (isinstance(n, ast.Subscript) and not isinstance(n.slice, ast.Slice) and unparse(n.value) == sp and unparse(n.slice) in ('1', '2', '-2', '-3'))]
		if not one_char:
			r4.skip('concat:single-character-delimiters', cat.where, '_cat no longer un-quotes its operands with [1:-1]')
		else:
			r4.check(bool(triple_seen), 'concat:single-character-delimiters', alw.where, f'_allow_string admits every text that starts and ends with a quote character and never looks at the second / third character: a triple-quoted literal passes, _cat removes ONE character per side, and `{chr(39) * 3}a{chr(39) * 3} + \'b\'` folds to `{chr(39) * 3}a{chr(39) * 2}b{chr(39)}` (py2cpp: "{chr(39) * 2}a{chr(39) * 2}b") while CPython evaluates \'ab\' — a different value, not a refusal')
	r4.check(any(raised_name(n) == 'Errors.OperationNotAllowed' for b in closure_fi(fc) for n in nodes(b, ast.Raise)), 'cast:other-refused', fc.where, 'calls other than the scalar casts are no longer refused')
	# the grammar admits the hexadecimal prefix in both cases (HEX_NUMBER matches `0X1F`): a case-sensitive prefix test sends `0X1F` to int(text, 10),
	# whose ValueError surfaces as Errors.Fatal — neither the value CPython computes nor the refusal the property names
	hexpat = gm.term_patterns.get('HEX_NUMBER')
	import re as _re
	try:
		admits_upper = hexpat is not None and _re.fullmatch(hexpat.to_regexp(), '0X1F') is not None
	except Exception:
		admits_upper = False
	if admits_upper:
		for cl, both, txt in hex_tests:
			r4.check(both, 'integer:hex-prefix-case', (EVAL, cl.lineno), f'on_integer recognises a hexadecimal literal by `{txt}` (lower-case prefix only) while the grammar terminal HEX_NUMBER admits `0X` as well: `A = 0X1F` is decoded in base 10, the ValueError ends the run with Errors.Fatal instead of the value 31', txt)
	rule_literalise(rep, idx)
	rule_member_refs_only(rep, idx)
	rule_member_lookup_exact(rep, idx)
	rule_str_cast_validates(rep, idx)
	rule_evaluator_member_refs(rep, idx)


def rule_literalise(rep: Report, idx: SourceIndex) -> None:
	"""`Enum.X.value` is literalised from the member's value expression: the evaluator folds it, except that a plain literal may be emitted as written
	(`0x10` stays hexadecimal). "As written" is the concatenated token text, which is a valid rendering of the VALUE only for a node that is one literal
	token: for any node class with operands (a unary sign over a group, a member reference, a cast) the token text drops parentheses and names and C++
	computes something else (`-(3 / 2)` -> `-3/2` == -1). Every site that chooses between `<value>.tokens` and `evaluator.exec(<value>)` must take the
	tokens only under a kind test whose classes are all Literal classes of the node model."""
	from vlib.match import atoms as atoms_
	PY2CPP = 'rogw/tranp/implements/cpp/transpiler/py2cpp.py'
	r = rep.rule('C17/literalised-as-written-only-for-literals', 'where Py2Cpp chooses between the token text of an enum value expression and the evaluator result, the token text is taken only under is_a(<Literal classes>) (a node with operands is always folded)', floor=1)
	rep.consulted(PY2CPP)
	nm = NodeModel(idx)
	lit = nm.by_name.get('Literal')
	m = idx.mod(PY2CPP)
	n_sites = 0
	for q, f in m.functions.items():
		execs = [c_ for c_ in walk_no_nested(f.node) if isinstance(c_, ast.Call) and (attr_chain(c_.func) or '').endswith('evaluator.exec') and c_.args]
		for ex in execs:
			subj = unparse(ex.args[0])
			raws = [n for n in walk_no_nested(f.node) if isinstance(n, ast.Attribute) and n.attr == 'tokens' and unparse(n.value) == subj and isinstance(n.ctx, ast.Load)]
			if not raws:
				n_sites += 1
				r.ok(f'{q}:always-folded', (PY2CPP, ex.lineno))
			for raw in raws:
				n_sites += 1
				key = f'{q}:{subj}.tokens'
				known = [(deref(f.node, a), p_) for a, p_ in atoms_(f.node, raw)]
				tests = [(a, p_) for a, p_ in known if isinstance(a, ast.Call) and ((isinstance(a.func, ast.Attribute) and a.func.attr == 'is_a' and unparse(a.func.value) == subj) or (isinstance(a.func, ast.Name) and a.func.id == 'isinstance' and a.args and unparse(a.args[0]) == subj))]
				pos = [a for a, p_ in tests if p_]
				if not pos or lit is None:
					r.skip(key, (PY2CPP, raw.lineno), f'the token text of `{subj}` is used under conditions that are no kind test on it: {[unparse(a)[:50] for a, _ in known][:4]}')
					continue
				bad = []
				for a in pos:
					specs = a.args if isinstance(a.func, ast.Attribute) else (list(a.args[1].elts) if isinstance(a.args[1], ast.Tuple) else [a.args[1]])
					for sp in specs:
						c_ = idx.resolve_class(m, sp)
						if c_ is None:
							bad.append((unparse(sp), 'unresolved'))
						elif lit not in idx.mro(c_):
							bad.append((c_.name, 'not a Literal class'))
				if any(w == 'unresolved' for _, w in bad):
					r.skip(key, (PY2CPP, raw.lineno), f'kind test names classes this check cannot resolve: {bad}')
				elif bad:
					r.violate(key, (PY2CPP, raw.lineno), f'{q} emits `{subj}.tokens` (the expression as written) when `{subj}` is a {"/".join(n for n, _ in bad)}: that node class has operands, its concatenated tokens drop parentheses and member names (`-(3 / 2)` is written `-3/2`, which C++ evaluates to -1 while Python gives -1.5; `-P` names a member that does not exist in C++), so the literalised value differs from the value CPython computes; only Literal nodes may bypass the evaluator', unparse(raw)[:100])
				else:
					r.ok(key, (PY2CPP, raw.lineno))
	if n_sites == 0:
		r.skip('evaluator-sites', (PY2CPP, 1), 'no call of evaluator.exec found in Py2Cpp')


def rule_member_refs_only(rep: Report, idx: SourceIndex, rule_id: str = 'C17/only-member-references-are-literalised') -> None:
	"""`<expr>.value` / `<expr>.name` can be replaced by a constant only when <expr> NAMES a member (`Color.red`): the constant is looked up by the last
	element of the receiver's spelling. For any other expression of enum type — a parameter `c: Color`, a field `obj.color` — the value is a run-time
	quantity; taking "an enum-typed receiver" as sufficient emits the constant of whichever member shares the spelling (`def f(c: Color): return c.value`
	with a member `c = 2` returns 2 for every argument) or fails with IndexError when none does — the output then depends on how a variable is spelled.
	The decision function must therefore test that the receiver is reached through the class object (or through the member's declaration), not only
	its type."""
	from vlib.match import atoms as atoms_, inline_simple_calls
	from vlib.norm import helper_closure
	PY2CPP = 'rogw/tranp/implements/cpp/transpiler/py2cpp.py'
	r = rep.rule(rule_id, 'Py2Cpp.is_relay_literalizer answers True for an enum-typed receiver only together with a test that the receiver is a member reference (its own receiver is a class object: type_is(type), or its declaration belongs to the enum)', floor=1)
	pm_ = idx.mod(PY2CPP)
	f = pm_.func('Py2Cpp.is_relay_literalizer')
	if f is None:
		r.skip('is_relay_literalizer', (PY2CPP, 1), 'Py2Cpp.is_relay_literalizer vanished')
		return
	members = helper_closure(f, 2)

	def is_member_test(e: ast.AST, depth: int = 0) -> bool:
		src = unparse(e)
		if 'type_is(type)' in src.replace(' ', '') or '.receiver.receiver' in src or '.decl' in src:
			return True
		if depth < 2:
			for c_ in ast.walk(e):
				if isinstance(c_, ast.Call) and isinstance(c_.func, ast.Attribute) and isinstance(c_.func.value, ast.Name) and c_.func.value.id == 'self':
					g = next((m_ for m_ in members if m_.name == c_.func.attr and m_ is not f), None)
					if g is not None and any(is_member_test(x, depth + 1) for x in ast.walk(g.node) if isinstance(x, (ast.Return, ast.If))):
						return True
		return False

	def mentions_enum(e: ast.AST) -> bool:
		return any(isinstance(x, ast.Attribute) and x.attr == 'Enum' for x in ast.walk(e))

	n_ = 0
	for ret in [x for x in ast.walk(f.node) if isinstance(x, ast.Return) and x.value is not None]:
		if isinstance(ret.value, ast.Constant) and ret.value.value is False:
			continue
		known = [(a, p_) for a, p_ in atoms_(f.node, ret)]
		# the returned expression itself is part of the decision (`return A and B and C`)
		parts = list(ret.value.values) if isinstance(ret.value, ast.BoolOp) and isinstance(ret.value.op, ast.And) else [ret.value]
		conds = [a for a, p_ in known if p_] + [deref(f.node, x) if isinstance(x, ast.Name) else x for x in parts]
		flat = []
		for c_ in conds:
			flat.extend(c_.values if isinstance(c_, ast.BoolOp) and isinstance(c_.op, ast.And) else [c_])
		negs = [a for a, p_ in known if not p_]
		# `if <not enum ...>: return False` in front: the enum test is known through a negated disjunction
		enum_arm = any(mentions_enum(c_) for c_ in flat) or any(mentions_enum(a) for a in negs)
		if not enum_arm:
			continue
		n_ += 1
		ok = any(is_member_test(c_) for c_ in flat)
		r.check(ok, f'enum-arm#{n_}', (PY2CPP, ret.lineno), f'is_relay_literalizer literalises `.value` / `.name` for EVERY receiver whose type is an enum (`{unparse(ret)[:90]}` under {[unparse(c_)[:50] for c_ in flat][:4]}): for a variable of enum type the constant is looked up by the spelling of the variable — `def f(c: Color): return c.value` emits the value of the member called `c` (2 for every argument; IndexError if there is none), `obj.color.name` emits "color"', unparse(ret)[:120])
	if n_ == 0:
		r.skip('is_relay_literalizer', f.where, 'no return of is_relay_literalizer is decided by an Enum test')


def rule_member_lookup_exact(rep: Report, idx: SourceIndex) -> None:
	"""`E.X.value` is folded from the value expression of the member NAMED X: Enum.var_value must pick the member whose name EQUALS the requested one.
	A suffix / prefix / substring test picks `READ` for `THREAD` (the first declared member that matches) and folds another member's value — a
	different value, silently. Also the name handed over must be the last element of the receiver (`DSN.right(<receiver>.domain_name, 1)`), not the
	dotted path."""
	r = rep.rule('C17/member-value-looked-up-by-whole-name', 'Enum.var_value selects the member by equality of its name with the requested name, and the evaluator / Py2Cpp request the last element of the receiver path', floor=2)
	m = idx.mod('rogw/tranp/syntax/node/definition/statement_compound.py')
	en = m.cls('Enum')
	f = en.method('var_value') if en else None
	if f is None:
		r.skip('Enum.var_value', (m.relpath, 1), 'Enum.var_value vanished')
		return
	p_ = f.params()[1] if len(f.params()) > 1 else 'var_name'
	tests = [n for n in ast.walk(f.node) if (isinstance(n, ast.Compare) and any(isinstance(x, ast.Name) and x.id == p_ for x in ast.walk(n))) or (isinstance(n, ast.Call) and isinstance(n.func, ast.Attribute) and n.func.attr in ('endswith', 'startswith', 'find', 'count', 'index') and (p_ in unparse(n)))]
	if not tests:
		r.skip('Enum.var_value', f.where, f'var_value no longer tests `{p_}` against the member names')
	for t in tests:
		exact = isinstance(t, ast.Compare) and len(t.ops) == 1 and isinstance(t.ops[0], ast.Eq)
		r.check(exact, f'Enum.var_value:{unparse(t)[:40]}', (m.relpath, t.lineno), f'Enum.var_value picks the member with `{unparse(t)[:80]}` — not an equality of names: with members READ = 1 ... THREAD = 9 the lookup of THREAD finds READ first (its name is a suffix) and `Access.THREAD.value` folds to 1', unparse(t)[:100])
	# the callers hand over the member name, i.e. the last path element of the receiver
	for rel, q in (('rogw/tranp/implements/transpiler/evaluator.py', 'LiteralEvaluator.on_relay'), ('rogw/tranp/implements/cpp/transpiler/py2cpp.py', 'Py2Cpp.on_relay')):
		g = idx.mod(rel).func(q)
		if g is None:
			r.skip(q, (rel, 1), f'{q} vanished')
			continue
		sites = [c_ for c_ in ast.walk(g.node) if isinstance(c_, ast.Call) and isinstance(c_.func, ast.Attribute) and c_.func.attr == 'var_value' and len(c_.args) == 1]
		if not sites:
			r.skip(q, g.where, f'{q} no longer calls Enum.var_value')
		for c_ in sites:
			a = deref(g.node, c_.args[0]) if isinstance(c_.args[0], ast.Name) else c_.args[0]
			last = isinstance(a, ast.Call) and unparse(a.func) == 'DSN.right' and len(a.args) == 2 and isinstance(a.args[1], ast.Constant) and a.args[1].value == 1
			last = last or (isinstance(a, ast.Attribute) and a.attr == 'tokens' and unparse(a.value).endswith('.prop'))
			r.check(last, f'{q}:member-name', (rel, c_.lineno), f'{q} asks Enum.var_value for `{unparse(a)[:60]}`, which is not the last element of the receiver path (DSN.right(<receiver>.domain_name, 1) / <receiver>.prop.tokens): a dotted name never equals a member name', unparse(c_)[:100])


def rule_str_cast_validates(rep: Report, idx: SourceIndex) -> None:
	"""Handlers that ignore a node (a member reference without `.value`, a non-enum variable) return '' — a str that is not a quoted literal. The `str`
	cast hands a str argument back unchanged; unless it checks the quoted form first (as the concatenation does with _allow_string), `X = str(E.A)`
	folds to '' where CPython evaluates 'E.A': a different value instead of a refusal. Decided propositionally: the return of the unchanged argument
	must be unreachable under {argument is a str, _allow_string(argument) is False}."""
	from vlib.match import path_conditions
	r = rep.rule('C17/str-cast-returns-only-quoted-literals', 'in LiteralEvaluator.on_func_call the `str` arm returns its str argument unchanged only where _allow_string(argument) is known to hold', floor=1)
	m = idx.mod(EVAL)
	f = m.func('LiteralEvaluator.on_func_call')
	if f is None:
		r.skip('on_func_call', (EVAL, 1), 'LiteralEvaluator.on_func_call vanished')
		return
	args_p = f.params()[-1]

	def is_arg(e: ast.AST) -> bool:
		e = deref(f.node, e) if isinstance(e, ast.Name) else e
		return unparse(e) == f'{args_p}[0]'

	def val(e: ast.AST, env):
		"""truth of a condition under env = {'str': bool, 'allow': bool}; None if it speaks about something else"""
		if isinstance(e, ast.Name):
			d_ = deref(f.node, e)
			return val(d_, env) if d_ is not e else None
		if isinstance(e, ast.UnaryOp) and isinstance(e.op, ast.Not):
			v = val(e.operand, env)
			return None if v is None else (not v)
		if isinstance(e, ast.BoolOp):
			vs = [val(v, env) for v in e.values]
			if isinstance(e.op, ast.And):
				return False if False in vs else (True if all(v is True for v in vs) else None)
			return True if True in vs else (False if all(v is False for v in vs) else None)
		if isinstance(e, ast.Call) and unparse(e.func) == 'isinstance' and len(e.args) == 2 and is_arg(e.args[0]) and unparse(e.args[1]) == 'str':
			return env['str']
		if isinstance(e, ast.Call) and isinstance(e.func, ast.Attribute) and e.func.attr == '_allow_string' and e.args and is_arg(e.args[0]):
			return env['allow']
		return None

	sites = []
	for ret in [x for x in ast.walk(f.node) if isinstance(x, ast.Return) and x.value is not None]:
		conds = list(path_conditions(f.node, ret))
		# the `str` arm: `org_calls == 'str'` known true here (written as `== 'str'`, or as the fall-through behind `elif org_calls != 'str': raise`)
		if not any(p_ and isinstance(a_, ast.Compare) and len(a_.ops) == 1 and isinstance(a_.ops[0], ast.Eq) and any(isinstance(x, ast.Constant) and x.value == 'str' for x in [a_.left, *a_.comparators]) for a_, p_ in atoms(f.node, ret)):
			continue
		# the returned expression: the argument itself, or a conditional expression one of whose branches is the argument
		branches = [(ret.value, [])]
		if isinstance(ret.value, ast.IfExp):
			branches = [(ret.value.body, [(ret.value.test, True)]), (ret.value.orelse, [(ret.value.test, False)])]
		for e, extra in branches:
			if is_arg(e):
				sites.append((ret, conds + extra))
	if not sites:
		r.skip('str-arm', f.where, 'the `str` arm of on_func_call no longer returns its argument unchanged')
	for ret, conds in sites:
		env = {'str': True, 'allow': False}
		reachable = all(val(c_, env) in (None, p_) for c_, p_ in conds)
		r.check(not reachable, f'str-arm:{unparse(ret)[:40]}', (EVAL, ret.lineno), f'`{unparse(ret)[:70]}` hands a str argument back unchanged without knowing that it is a quoted literal: the handlers that ignore a node return an empty string, so `X = str(E.A)` (a member reference without .value) folds to an empty string — CPython evaluates "E.A"; conditions known here: {[(unparse(c_)[:50], p_) for c_, p_ in conds][:5]}', unparse(ret)[:100])


def rule_evaluator_member_refs(rep: Report, idx: SourceIndex) -> None:
	"""The evaluator folds `<expr>.value` by looking the last element of the receiver's spelling up among the members of the receiver's enum type. That
	is the member's value only when <expr> IS a member reference (`E0.B`); for a variable of enum type (`A = E0.B` ... `X = A.value + 10`) it is the
	value of whichever member is spelled like the variable (A = 1): 11 is folded where CPython evaluates 12. The look-up must be reached only under a
	test that the receiver is reached through the class object (the same condition as Py2Cpp.is_enum_member_ref), everything else refused."""
	from vlib.match import path_conditions
	from vlib.norm import helper_closure
	r = rep.rule('C17/evaluator-folds-member-references-only', 'LiteralEvaluator.on_relay reaches Enum.var_value only under a test that the receiver is `<class object>.<member>` (type_is(type) on the receiver\'s receiver, or a helper that tests it)', floor=1)
	f = idx.mod(EVAL).func('LiteralEvaluator.on_relay')
	if f is None:
		r.skip('on_relay', (EVAL, 1), 'LiteralEvaluator.on_relay vanished')
		return
	sites = [c_ for c_ in ast.walk(f.node) if isinstance(c_, ast.Call) and isinstance(c_.func, ast.Attribute) and c_.func.attr == 'var_value']
	if not sites:
		r.skip('on_relay', f.where, 'on_relay no longer calls Enum.var_value')
	members = helper_closure(f, 2)

	def tests_member(e: ast.AST, depth: int = 0) -> bool:
		src = unparse(e).replace(' ', '')
		if 'type_is(type)' in src and 'receiver.receiver' in src:
			return True
		if depth < 2:
			for c_ in ast.walk(e):
				if isinstance(c_, ast.Call) and isinstance(c_.func, ast.Attribute) and isinstance(c_.func.value, ast.Name) and c_.func.value.id == 'self':
					g = next((m_ for m_ in members if m_.name == c_.func.attr and m_ is not f), None)
					if g is not None and any(tests_member(x.value, depth + 1) for x in ast.walk(g.node) if isinstance(x, ast.Return) and x.value is not None):
						return True
		return False

	for c_ in sites:
		conds = list(path_conditions(f.node, c_))
		ok = any(tests_member(t) for t, _p in conds)
		r.check(ok, f'on_relay:{unparse(c_)[:40]}', (EVAL, c_.lineno), f'`{unparse(c_)[:60]}` is reached for EVERY receiver of enum type (conditions: {[(unparse(t)[:60], p_) for t, p_ in conds][:3]}): for a variable `A = E0.B` the member spelled `A` is looked up, so `X = A.value + 10` folds to 11 where CPython evaluates 12 — a different value, not a refusal', unparse(c_)[:100])
