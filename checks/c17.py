"""C17 — folding constant expressions gives the value Python gives: finite dispatch analysis of LiteralEvaluator."""
from __future__ import annotations

import ast

from vlib.core import AnalysisError, Report
from vlib.flow import enclosing_tries, handler_raises, handler_types, parent_map, raised_name
from vlib.grammar import GrammarModel, ladder
from vlib.nodemodel import NodeModel
from vlib.srcindex import SourceIndex, attr_chain, const_str, unparse, walk_no_nested

EXPLANATION = (
	'LiteralEvaluator is a finite dispatch over (node class, operator token, operand kinds). Decided: (1) in _calc/_bitwise every `op == tok` branch returns `left <OP> right` with <OP> the AST operator CPython parses for tok, '
	'operands in that order, and the chain ends in `assert False`; (2) routing: ArthmeticOps and BitwiseOps are disjoint and make up AllowOps, every branch token belongs to its list, true division and float operands are routed to _calc on float(...) '
	'before the int/int arm re-wraps in int(...), strings only concatenate, and every assert / dispatch is inside try..except AssertionError -> Errors.OperationNotAllowed; '
	'(3) for each handled operator node class the tokens the grammar can put there are either outside AllowOps (refused by on_terminal) or have an explicit branch; on_factor\'s default arm covers only tokens whose Python meaning is the identity; '
	'(4) literal decoding and cast emulation call the Python builtin of the same name. Numeric corner cases (ints beyond 2^53 through float()) and string escapes are not decided.'
)
ASSUMPTIONS = ['the evaluator computes with Python\'s own operators, so a branch with the right operator yields the right value; corner cases of float(int) for huge ints are not decided']
TRUSTED_BASE = ['CPython ast (operator classes parsed from the token)', 'vlib/grammar.py operator ladder']

EVAL = 'rogw/tranp/implements/transpiler/evaluator.py'


def _op_class(tok: str, unary: bool = False) -> str | None:
	try:
		e = ast.parse(f'{tok} a' if unary else f'a {tok} b', mode='eval').body
	except SyntaxError:
		return None
	if isinstance(e, ast.BinOp):
		return type(e.op).__name__
	if isinstance(e, ast.UnaryOp):
		return type(e.op).__name__
	return None


def _const_list(cls, name: str) -> list[str] | None:
	v = cls.class_attrs.get(name)
	if isinstance(v, ast.List):
		out = [const_str(e) for e in v.elts]
		return out if all(o is not None for o in out) else None
	if isinstance(v, ast.BinOp) and isinstance(v.op, ast.Add) and isinstance(v.left, ast.Name) and isinstance(v.right, ast.Name):
		a, b = _const_list(cls, v.left.id), _const_list(cls, v.right.id)
		return a + b if a is not None and b is not None else None
	return None


def _chain(f) -> tuple[list[tuple[str, ast.AST]], ast.AST | None]:
	"""[(token, body stmt)] of an if/elif chain on `op == tok`, and the final else body"""
	out = []
	cur = next((s for s in f.node.body if isinstance(s, ast.If)), None)
	last_else = None
	while isinstance(cur, ast.If):
		t = cur.test
		tok = None
		if isinstance(t, ast.Compare) and isinstance(t.ops[0], ast.Eq) and isinstance(t.left, ast.Name) and t.left.id in ('op', 'operator'):
			tok = const_str(t.comparators[0])
		out.append((tok, cur))
		if len(cur.orelse) == 1 and isinstance(cur.orelse[0], ast.If):
			cur = cur.orelse[0]
		else:
			last_else = cur.orelse
			cur = None
	return out, last_else


def run(rep: Report, tier: str) -> None:
	idx = SourceIndex()
	m = idx.mod(EVAL)
	rep.consulted(EVAL)
	c = m.cls('LiteralEvaluator')
	arth, bitw, allow = _const_list(c, 'ArthmeticOps'), _const_list(c, 'BitwiseOps'), _const_list(c, 'AllowOps')
	if arth is None or bitw is None or allow is None:
		raise AnalysisError('LiteralEvaluator.ArthmeticOps/BitwiseOps/AllowOps are no longer constant lists')

	# the evaluator is one instance for the whole run: it must not remember folded values (a value folded for one module/enum must not answer for another)
	r0 = rep.rule('C17/evaluator-stateless', 'LiteralEvaluator keeps no state besides its reflections and its procedure: no cache/memo/container attribute that could carry a folded value from one expression, enum or module to another', floor=2)
	init = c.method('__init__')
	allowed = {'_reflections', '_procedure'}
	attrs = {}
	for name_, defs_ in c.methods.items():
		for f_ in defs_:
			for n_ in ast.walk(f_.node):
				if isinstance(n_, (ast.Assign, ast.AnnAssign, ast.AugAssign)):
					for t_ in (n_.targets if isinstance(n_, ast.Assign) else [n_.target]):
						if isinstance(t_, ast.Attribute) and isinstance(t_.value, ast.Name) and t_.value.id == 'self':
							attrs.setdefault(t_.attr, []).append((f_, n_))
						if isinstance(t_, ast.Subscript) and isinstance(t_.value, ast.Attribute) and isinstance(t_.value.value, ast.Name) and t_.value.value.id == 'self':
							attrs.setdefault(t_.value.attr, []).append((f_, n_))
	for a_, sites_ in sorted(attrs.items()):
		f_, n_ = sites_[0]
		r0.check(a_ in allowed, f'attr:{a_}', (EVAL, n_.lineno), f'LiteralEvaluator stores `self.{a_}` ({unparse(n_)[:70]}): the evaluator lives for the whole run, so remembered values can answer for a same-named enum member of another module (or of a reloaded module) — folding must be a pure function of the expression', unparse(n_)[:100])
	for a_ in sorted(allowed - set(attrs)):
		r0.note(f'expected attribute {a_} not assigned any more')

	r1 = rep.rule('C17/branch-operator-agreement', 'in _calc/_bitwise each `op == tok` branch returns left <OP> right with the operator CPython parses for tok; the chain ends in assert False', floor=10)
	branch_tokens = {}
	for fname, ops in (('_calc', arth), ('_bitwise', bitw)):
		f = c.method(fname)
		if f is None:
			raise AnalysisError(f'LiteralEvaluator.{fname} vanished')
		chain, last = _chain(f)
		branch_tokens[fname] = []
		for tok, node in chain:
			key = f'{fname}:{tok}'
			if tok is None:
				r1.undecided(key, (EVAL, node.lineno), f'branch test `{unparse(node.test)}` is not `op == <constant>`')
				continue
			branch_tokens[fname].append(tok)
			ret = node.body[0] if len(node.body) == 1 and isinstance(node.body[0], ast.Return) else None
			e = ret.value if ret is not None else None
			want = _op_class(tok)
			ok = isinstance(e, ast.BinOp) and type(e.op).__name__ == want and isinstance(e.left, ast.Name) and e.left.id == 'left' and isinstance(e.right, ast.Name) and e.right.id == 'right'
			r1.check(ok, key, (EVAL, node.lineno), f'branch for `{tok}` returns `{unparse(e)}`; CPython evaluates `left {tok} right` as {want}(left, right): a different value would be folded into the output', unparse(node).split('\n')[0])
			r1.check(tok in ops, key + ':in-list', (EVAL, node.lineno), f'{fname} has a branch for `{tok}`, which is not in its operator list {ops}')
		is_assert_false = last is not None and len(last) == 1 and isinstance(last[0], ast.Assert) and isinstance(last[0].test, ast.Constant) and last[0].test.value is False
		r1.check(is_assert_false, f'{fname}:else', f.where, f'{fname} must refuse unknown operators with `assert False` (converted to OperationNotAllowed); its final else is `{unparse(last[0]) if last else None}`')

	r2 = rep.rule('C17/routing-partition', 'operator lists partition AllowOps; true division / float operands go to _calc on float(); int,int arithmetic is re-wrapped in int(); strings only concatenate; asserts are converted', floor=8)
	r2.check(not set(arth) & set(bitw), 'disjoint', c.where, f'ArthmeticOps and BitwiseOps overlap: {sorted(set(arth) & set(bitw))}')
	r2.check(sorted(allow) == sorted(arth + bitw), 'allow-is-union', c.where, f'AllowOps {allow} is not ArthmeticOps + BitwiseOps')
	for fname, ops in (('_calc', arth), ('_bitwise', bitw)):
		missing = sorted(set(ops) - set(branch_tokens[fname]))
		if missing:
			r2.note(f'{fname} has no branch for allowed tokens {missing}: they are refused (safe), not folded')
	ob = c.method('_op_bin_each')
	if ob is None:
		raise AnalysisError('_op_bin_each vanished')
	chain = []
	for n in walk_no_nested(ob.node):
		if isinstance(n, ast.If) and 'isinstance(left, float)' in unparse(n.test):
			cur = n
			while isinstance(cur, ast.If):
				chain.append(cur)
				cur = cur.orelse[0] if len(cur.orelse) == 1 and isinstance(cur.orelse[0], ast.If) else None
			last_else = chain[-1].orelse
	if len(chain) != 3:
		r2.undecided('routing-chain', ob.where, f'_op_bin_each routing chain has {len(chain)} arms, expected 3 (+ else)')
	else:
		a0, a1, a2 = chain
		t0 = unparse(a0.test)
		r2.check("op == '/'" in t0 and 'isinstance(left, float)' in t0 and 'isinstance(right, float)' in t0 and isinstance(a0.test, ast.BoolOp) and isinstance(a0.test.op, ast.Or), 'float-arm-test', (EVAL, a0.lineno), f'first arm must take float operands OR true division (else int/int `/` would be truncated by int()): `{t0}`')
		r2.check(unparse(a0.body[0]) == 'left = self._calc(float(left), op, float(right))', 'float-arm-body', (EVAL, a0.lineno), f'float arm is `{unparse(a0.body[0])}`')
		r2.check(unparse(a1.test) == 'isinstance(left, int) and isinstance(right, int)', 'int-arm-test', (EVAL, a1.lineno), f'second arm test is `{unparse(a1.test)}`')
		r2.check(unparse(a1.body[0]) == 'left = int(self._calc(left, op, right)) if op in LiteralEvaluator.ArthmeticOps else self._bitwise(left, op, right)', 'int-arm-body', (EVAL, a1.lineno), f'int arm is `{unparse(a1.body[0])}`')
		t2 = unparse(a2.test)
		r2.check('isinstance(left, str)' in t2 and 'isinstance(right, str)' in t2 and "op == '+'" in t2 and isinstance(a2.test, ast.BoolOp) and isinstance(a2.test.op, ast.And), 'str-arm-test', (EVAL, a2.lineno), f'string arm must require two strings and `+`: `{t2}`')
		r2.check(len(last_else) == 1 and isinstance(last_else[0], ast.Assert) and unparse(last_else[0].test) == 'False', 'else-refuses', (EVAL, a2.lineno), 'every other operand combination must be refused (assert False)')
	pm = parent_map(ob.node)
	for n in walk_no_nested(ob.node):
		if isinstance(n, ast.Assert) or (isinstance(n, ast.Call) and unparse(n.func) in ('self._calc', 'self._bitwise', 'self._cat')):
			conv = False
			for t in enclosing_tries(n, pm):
				for h in t.handlers:
					if 'AssertionError' in handler_types(h) and any(raised_name(x) == 'Errors.OperationNotAllowed' for x in handler_raises(h)):
						conv = True
			r2.check(conv, f'converted:{unparse(n)[:40]}', (EVAL, n.lineno), f'`{unparse(n)[:60]}` is not inside try..except AssertionError -> Errors.OperationNotAllowed')

	# grammar exhaustiveness
	r3 = rep.rule('C17/grammar-exhaustive', 'for each handled operator class, every token the grammar admits there is refused (not in AllowOps) or has an explicit branch; on_factor\'s default arm covers only identity tokens', floor=12)
	gm = GrammarModel()
	nm = NodeModel(idx)
	rep.consulted(gm.relpath)
	t2c = nm.tag_to_classes()
	handled = {n[3:] for n in c.methods if n.startswith('on_')}
	for lv in ladder(gm):
		classes = t2c.get(lv.tag, [])
		if len(classes) != 1:
			continue
		cls_name = nm.classification(classes[0])
		if cls_name not in handled:
			continue
		h = c.method(f'on_{cls_name}')
		if lv.kind == 'binary':
			r3.check('self._op_bin_each(node, elements)' in unparse(h.node), f'{cls_name}:delegates', h.where, f'on_{cls_name} no longer folds with _op_bin_each')
			for tok in lv.tokens:
				key = f'{cls_name}:{tok}'
				if tok not in allow:
					r3.ok(key, h.where, message='refused by on_terminal')
					continue
				fn = '_calc' if tok in arth else '_bitwise'
				r3.check(tok in branch_tokens[fn], key, h.where, f'`{tok}` is allowed and routed to {fn}, which has no branch for it (refused: safe) — but it is listed in the wrong operator list if the other function handles it: {tok in branch_tokens["_calc" if fn == "_bitwise" else "_bitwise"]}')
		elif lv.kind == 'prefix':
			# on_factor: explicit branches and default arm
			explicit = {}
			for n in ast.walk(h.node):
				if isinstance(n, ast.IfExp) and isinstance(n.test, ast.Compare) and isinstance(n.test.left, ast.Name) and n.test.left.id == 'operator':
					explicit[const_str(n.test.comparators[0])] = (n.body, n.orelse)
			if not explicit:
				r3.undecided(f'{cls_name}:shape', h.where, 'on_factor no longer has the shape `<expr> if operator == tok else value`')
			for tok in lv.tokens:
				key = f'{cls_name}:{tok}'
				if tok not in allow:
					r3.ok(key, h.where, message='refused by on_terminal')
					continue
				if tok in explicit:
					body = explicit[tok][0]
					ok = isinstance(body, ast.UnaryOp) and type(body.op).__name__ == _op_class(tok, unary=True) and isinstance(body.operand, ast.Name) and body.operand.id == 'value'
					r3.check(ok, key, h.where, f'unary `{tok}` is folded as `{unparse(body)}`; CPython applies {_op_class(tok, unary=True)}')
				else:
					defaults = {unparse(v[1]) for v in explicit.values()}
					r3.check(_op_class(tok, unary=True) == 'UAdd' and defaults == {'value'}, key, h.where, f'unary `{tok}` is allowed and falls into the default arm `{defaults}`, i.e. the operand is returned unchanged, but `{tok}x` is not the identity in Python')
	term = c.method('on_terminal')
	r3.check(term is not None and 'token in LiteralEvaluator.AllowOps' in unparse(term.node) and 'raise Errors.OperationNotAllowed' in unparse(term.node), 'terminal-gate', term.where if term else c.where, 'on_terminal no longer refuses operator tokens outside AllowOps')
	fb = c.method('on_fallback')
	r3.check(fb is not None and 'raise Errors.OperationNotAllowed' in unparse(fb.node), 'fallback-refuses', fb.where if fb else c.where, 'on_fallback no longer refuses unknown node kinds')

	# literal decoding / casts
	r4 = rep.rule('C17/literal-decoding', 'literal handlers and cast emulation call the Python builtin of the same name (int base 16 only under the 0x prefix)', floor=6)
	oi = c.method('on_integer')
	src = unparse(oi.node)
	r4.check("tokens.startswith('0x')" in src and 'int(node.tokens, base=16)' in src and 'return int(node.tokens)' in src, 'integer', oi.where, f'on_integer decoding changed: {src[:160]}')
	of = c.method('on_float')
	r4.check('return float(node.tokens)' in unparse(of.node), 'float', of.where, 'on_float no longer returns float(node.tokens)')
	fc = c.method('on_func_call')
	chain, _ = [], None
	cur = next((s for s in fc.node.body if isinstance(s, ast.If)), None)
	while isinstance(cur, ast.If):
		name = const_str(cur.test.comparators[0]) if isinstance(cur.test, ast.Compare) and unparse(cur.test.left) == 'org_calls' else None
		calls = {attr_chain(n.func) for n in ast.walk(ast.Module(body=cur.body, type_ignores=[])) if isinstance(n, ast.Call) and isinstance(n.func, ast.Name) and n.func.id in ('int', 'float', 'str', 'bool')}
		if name is None:
			r4.undecided('cast:?', (EVAL, cur.lineno), f'cast branch test `{unparse(cur.test)}`')
		else:
			r4.check(calls == {name}, f'cast:{name}', (EVAL, cur.lineno), f'the emulation of `{name}(...)` calls {sorted(calls)}')
		cur = cur.orelse[0] if len(cur.orelse) == 1 and isinstance(cur.orelse[0], ast.If) else None
	r4.check('raise Errors.OperationNotAllowed' in unparse(fc.node), 'cast:other-refused', fc.where, 'calls other than the scalar casts are no longer refused')
	hexpat = gm.term_patterns.get('HEX_NUMBER')
	if hexpat is not None and 'i' in getattr(hexpat, 'flags', ()):
		r4.note('the grammar terminal HEX_NUMBER is case-insensitive: `0X1F` is decoded with int(tokens) and refused through ValueError -> Errors.Fatal (not a wrong value)')
