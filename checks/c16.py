"""C16 — a node's source span covers exactly the node's own text: the span plumbing and the quotation arithmetic (structural clauses only)."""
from __future__ import annotations

import ast

from vlib.core import AnalysisError, Report
from vlib.linear import is_atom_plus, linear
from vlib.match import FI, atoms, closure_fi, nodes
from vlib.srcindex import SourceIndex, const_str, unparse

EXPLANATION = (
	'The spans themselves are run-time numbers produced by the parser and are NOT decided (tokenize(slice(source, span(n))) == tokens(n) and child-inside-parent hold or fail per input). '
	'Decided are the finite, shape-visible clauses every reported span passes through: (1) EntryOfLark.source_map takes line, column, end_line, end_column of ONE object (the tree meta or the token) and '
	'files them as begin = (line, column), end = (end_line, end_column); (2) Node.source_map is the span of the entry at the node\'s own full path, unchanged; (3) the error quotation of ErrorRender shifts all four '
	'components by the same constant, loads the line at the begin line, marks columns [begin, end) on a single-line span and to the end of the line otherwise, with at least one caret, and replaces a tab by exactly one '
	'character; (4) the same arithmetic in the engine\'s ErrorCollector (reported line number = begin line + 1, line text = lines[begin line]). Restoration of spans from the cache is C15\'s position-provenance clause.'
)
ASSUMPTIONS = ['lark reports 1-based line/column with an exclusive end column; tranp\'s own Token.SourceMap is 0-based (documented in the sources)']
TRUSTED_BASE = ['CPython ast', 'vlib/linear.py (linear normal form of position arithmetic)']

ENTRY = 'rogw/tranp/implements/syntax/lark/entry.py'
NODE = 'rogw/tranp/syntax/node/node.py'
QUERY = 'rogw/tranp/syntax/node/query.py'
RENDER = 'rogw/tranp/view/error_render.py'
SYNTAX = 'rogw/tranp/implements/syntax/tranp/syntax.py'


def run(rep: Report, tier: str) -> None:
	idx = SourceIndex()
	rep.consulted(ENTRY, NODE, QUERY, RENDER, SYNTAX)
	rule_fields(rep, idx)
	rule_plumbing(rep, idx)
	rule_quotation(rep, idx)
	rule_engine_quotation(rep, idx)
	rule_restored(rep)


# ---- (0) spans of a restored tree ----------------------------------------------------------------------------------------------------

def rule_restored(rep: Report) -> None:
	"""`This holds equally after the tree was restored from the cache`: the span getter of the view may consult (as value or as guard) only attributes
	of the wrapped lark object which the cache reader restores, and the restored position fields come from the stored span. Both inventories are C15's
	(view-coverage, position-provenance); their obligations are obligations here as well."""
	from checks import c15
	r = rep.rule('C16/restored-spans', 'every attribute the EntryOfLark view consults is restored by Serialization.__loads, and each restored position field is taken from the stored source_map (obligations shared with C15/view-coverage and C15/position-provenance)', floor=12)
	scratch = Report('C15', rep.tier)
	c15.run(scratch, rep.tier)
	for rule in scratch.rules:
		if rule.id not in ('C15/view-coverage', 'C15/position-provenance'):
			continue
		for o in rule.obligations:
			if o.status == 'violated':
				r.violate(o.key, (o.file, o.line), o.message, o.fragment)
			elif o.status == 'discharged':
				r.ok(o.key, (o.file, o.line))
			else:
				r.skip(o.key, (o.file, o.line), o.message)


# ---- (1) span fields ------------------------------------------------------------------------------------------------------------

def rule_fields(rep: Report, idx: SourceIndex) -> None:
	r = rep.rule('C16/span-fields-from-one-object', 'every span EntryOfLark.source_map returns is {begin: (X.line, X.column), end: (X.end_line, X.end_column)} for ONE object X (tree meta or token), or the (0, 0) placeholder', floor=2)
	f = idx.mod(ENTRY).cls('EntryOfLark').method('source_map')
	if f is None:
		raise AnalysisError('EntryOfLark.source_map vanished')
	from vlib.match import resolved_returns
	seen = 0
	for d in resolved_returns(f, 2):
		ret = d
		if not isinstance(d, ast.Dict):
			r.skip(f'return@{unparse(d)[:40]}', (ENTRY, ret.lineno), 'span is not returned as a dict literal')
			continue
		fields = {const_str(k): v for k, v in zip(d.keys, d.values) if k is not None}
		if set(fields) != {'begin', 'end'}:
			r.violate(f'keys@{sorted(fields)}', (ENTRY, ret.lineno), f'source_map returns keys {sorted(fields)}; a span is begin and end', unparse(d)[:120])
			continue
		parts = []
		for key in ('begin', 'end'):
			v = fields[key]
			if not (isinstance(v, ast.Tuple) and len(v.elts) == 2):
				parts = None
				break
			parts.extend(v.elts)
		if parts is None:
			r.skip(f'shape@{unparse(d)[:40]}', (ENTRY, ret.lineno), 'begin / end are not 2-tuples')
			continue
		if all(isinstance(p_, ast.Constant) and p_.value == 0 for p_ in parts):
			r.ok('placeholder', (ENTRY, ret.lineno), message='(0, 0)..(0, 0) for entries without a position')
			continue
		seen += 1
		parts = [_tuple_elem(f.node, p_, ret) for p_ in parts]
		names = [p_.attr if isinstance(p_, ast.Attribute) else None for p_ in parts]
		bases = {unparse(p_.value) if isinstance(p_, ast.Attribute) else unparse(p_) for p_ in parts}
		key = f'span@{sorted(bases)[0][:40]}'
		r.check(names == ['line', 'column', 'end_line', 'end_column'] and len(bases) == 1, key, (ENTRY, ret.lineno), f'EntryOfLark.source_map files {[unparse(p_) for p_ in parts]} as (begin line, begin column, end line, end column): each must be line / column / end_line / end_column of the same object, or every node span (error positions, quotations) covers another region than the node\'s text', unparse(d)[:160])
	if seen == 0:
		r.skip('positions', f.where, 'no return of a positioned span found')


def _tuple_elem(fn_node: ast.AST, e: ast.AST, at: ast.AST) -> ast.AST:
	"""`t[i]` where every definition of the local t that may reach the use is a tuple literal with the same i-th element text: that element"""
	from vlib.match import may_reach
	if isinstance(e, ast.Subscript) and isinstance(e.value, ast.Name) and isinstance(e.slice, ast.Constant) and isinstance(e.slice.value, int):
		# FI works on a copy: locate the use in the original function by position
		use = next((n for n in ast.walk(fn_node) if isinstance(n, ast.Name) and n.id == e.value.id and isinstance(n.ctx, ast.Load) and (n.lineno, n.col_offset) == (e.value.lineno, e.value.col_offset)), None)
		defs_ = may_reach(fn_node, use) if use is not None else None
		vals = [getattr(d_, 'value', None) for d_ in defs_ or []]
		if vals and all(isinstance(v, ast.Tuple) and len(v.elts) > e.slice.value for v in vals):
			elems = {unparse(v.elts[e.slice.value]) for v in vals}
			if len(elems) == 1:
				return vals[0].elts[e.slice.value]
	return e


# ---- (2) plumbing ---------------------------------------------------------------------------------------------------------------

def rule_plumbing(rep: Report, idx: SourceIndex) -> None:
	r = rep.rule('C16/node-span-is-entry-span', 'Node.source_map is Nodes.source_map(own full path), which is the source_map of the entry stored under that path: no other path, no arithmetic on the way', floor=2)
	nf = idx.mod(NODE).cls('Node').method('source_map')
	qf = idx.mod(QUERY).cls('Nodes').method('source_map')
	if nf is None or qf is None:
		raise AnalysisError('Node.source_map / Nodes.source_map vanished')
	nret = [n.value for n in nodes(FI(nf), ast.Return) if n.value is not None]
	shaped = len(nret) == 1 and isinstance(nret[0], ast.Call) and isinstance(nret[0].func, ast.Attribute) and nret[0].func.attr == 'source_map' and len(nret[0].args) == 1
	if not shaped:
		r.skip('Node.source_map', nf.where, f'Node.source_map is no longer one call <nodes>.source_map(<path>): `{unparse(nret[0])[:80] if nret else ""}`')
	else:
		r.check(unparse(nret[0].args[0]) in ('self.full_path', 'self._full_path.origin'), 'Node.source_map', nf.where, f'Node.source_map asks for the span of `{unparse(nret[0].args[0])[:60]}`, not of the node\'s own full path: every node reports another entry\'s region')
	param = [p_ for p_ in qf.params() if p_ != 'self'][0]
	qret = [n.value for n in nodes(FI(qf), ast.Return) if n.value is not None]
	shaped = len(qret) == 1 and isinstance(qret[0], ast.Attribute) and qret[0].attr == 'source_map' and isinstance(qret[0].value, ast.Call) and isinstance(qret[0].value.func, ast.Attribute) and qret[0].value.func.attr == 'by' and len(qret[0].value.args) == 1
	if not shaped:
		r.skip('Nodes.source_map', qf.where, f'Nodes.source_map is no longer <entries>.by(<path>).source_map: `{unparse(qret[0])[:80] if qret else ""}`')
	else:
		r.check(unparse(qret[0].value.args[0]) == param, 'Nodes.source_map', qf.where, f'Nodes.source_map must return <entries>.by({param}).source_map: it looks up `{unparse(qret[0].value.args[0])[:60]}`, another entry than the one asked for')


# ---- (3) ErrorRender quotation ------------------------------------------------------------------------------------------------------

def _range_rule(r, where_file: str, f, label: str, names: tuple[str, str, str, str] | None = None) -> None:
	"""the (begin, end) caret range: (begin column, end column) on a single-line span, (begin column, len(line)) otherwise. names = the four local
	names (begin line, begin column, end line, end column) when the span was unpacked, else the atoms are recognised by their attribute suffix on
	one common base object (`<x>.begin_column` ...)"""
	fx = FI(f)
	rets = [n for n in nodes(fx, ast.Return) if isinstance(n.value, ast.Tuple) and len(n.value.elts) == 2]
	if not rets:
		r.skip(f'{label}:range', f.where, 'the caret range is not returned as a 2-tuple')
		return

	def role(atom: str | None) -> str | None:
		if atom is None:
			return None
		if names is not None:
			return dict(zip(names, ('begin_line', 'begin_column', 'end_line', 'end_column'))).get(atom)
		return next((k for k in ('begin_line', 'begin_column', 'end_line', 'end_column') if atom.endswith('.' + k)), None)

	def base(atom: str) -> str:
		return '' if names is not None else atom.rsplit('.', 1)[0]
	single = multi = None
	lo_atoms = []
	for ret in rets:
		lo, hi = ret.value.elts
		lo_atom = is_atom_plus(lo, 0)
		lo_atoms.append(lo_atom)
		r.check(role(lo_atom) == 'begin_column', f'{label}:range-begin', (where_file, ret.lineno), f'the caret range starts at `{unparse(lo)[:60]}`; it must start at the begin column of the span', unparse(ret)[:160])
		alts = [(hi, [])]
		if isinstance(hi, ast.IfExp):
			alts = [(hi.body, [(hi.test, True)]), (hi.orelse, [(hi.test, False)])]
		for e, conds in alts:
			known = conds + list(atoms(fx, ret))

			def line_test(a) -> bool:
				return isinstance(a, ast.Compare) and len(a.ops) == 1 and isinstance(a.ops[0], (ast.Eq, ast.NotEq)) and {role(unparse(a.left)), role(unparse(a.comparators[0]))} == {'begin_line', 'end_line'}
			if any(line_test(a) and (isinstance(a.ops[0], ast.Eq) == p_) for a, p_ in known):
				single = (e, ret)
			elif any(line_test(a) and (isinstance(a.ops[0], ast.Eq) != p_) for a, p_ in known):
				multi = (e, ret)
	if single is None or multi is None:
		r.skip(f'{label}:range-end', f.where, 'the end of the caret range is not split on begin line == end line')
		return
	s_atom = is_atom_plus(single[0], 0)
	lo_atom = lo_atoms[0]
	r.check(role(s_atom) == 'end_column' and (lo_atom is None or base(s_atom) == base(lo_atom)), f'{label}:range-end:single-line', (where_file, single[1].lineno), f'on a single-line span the carets must end at the end column of the same span: `{unparse(single[0])[:80]}` (normal form {linear(single[0])})', unparse(single[1])[:160])
	r.check(isinstance(multi[0], ast.Call) and unparse(multi[0].func) == 'len', f'{label}:range-end:multi-line', (where_file, multi[1].lineno), f'on a multi-line span the carets must run to the end of the quoted line (len(<line>)): `{unparse(multi[0])[:80]}`', unparse(multi[1])[:160])


def _mark_rule(r, where_file: str, f, label: str) -> None:
	fx = FI(f)
	rets = [n.value for n in nodes(fx, ast.Return) if n.value is not None]
	if len(rets) != 1:
		r.skip(f'{label}:mark', f.where, 'the line mark is not built in one return')
		return
	from vlib.match import concat_parts
	parts = [v for k_, v in concat_parts(rets[0]) if k_ == 'expr']
	mults = [p_ for p_ in parts if isinstance(p_, ast.BinOp) and isinstance(p_.op, ast.Mult)]
	if len(mults) != 2:
		r.skip(f'{label}:mark', f.where, f'the line mark is not `<blank> * begin` followed by `<caret> * width`: {unparse(rets[0])[:80]}')
		return
	def split(m):
		s_, n_ = (m.left, m.right) if isinstance(m.left, ast.Constant) else (m.right, m.left)
		return (s_.value if isinstance(s_, ast.Constant) else None), n_
	(pad, pad_n), (caret, caret_n) = split(mults[0]), split(mults[1])
	# names of the unpacked range: `begin, end = <range>`
	tup = next((n for n in ast.walk(f.node) if isinstance(n, ast.Assign) and isinstance(n.targets[0], ast.Tuple) and len(n.targets[0].elts) == 2), None)
	if tup is None:
		r.skip(f'{label}:mark', f.where, 'the caret range is not unpacked as `begin, end = ...`')
		return
	b, e = [unparse(x) for x in tup.targets[0].elts]
	r.check(pad == ' ' and is_atom_plus(pad_n, 0) == b, f'{label}:mark-indent', f.where, f'the carets must be indented by `{b}` blanks: `{unparse(mults[0])}`', unparse(rets[0])[:120])
	width_ok = isinstance(caret_n, ast.Call) and unparse(caret_n.func) == 'max' and len(caret_n.args) == 2 and any(isinstance(a, ast.Constant) and a.value == 1 for a in caret_n.args) and any(linear(a) == ({e: 1, b: -1}, 0) for a in caret_n.args)
	r.check(isinstance(caret, str) and len(caret) == 1 and width_ok, f'{label}:mark-width', f.where, f'the caret run must be max(1, {e} - {b}) characters wide: `{unparse(mults[1])}`', unparse(rets[0])[:120])


def rule_quotation(rep: Report, idx: SourceIndex) -> None:
	r = rep.rule('C16/quotation-arithmetic', 'ErrorRender quotes the line at the begin line and marks columns [begin, end): all four span components are shifted by the same constant, single-line spans end at the end column, multi-line spans at the end of the line, at least one caret, a tab becomes exactly one character', floor=7)
	m = idx.mod(RENDER)
	er = m.cls('ErrorRender')
	bq = er.method('__build_quotation')
	q = m.classes.get('ErrorRender.Quotation')
	if bq is None or q is None:
		raise AnalysisError('ErrorRender.__build_quotation / ErrorRender.Quotation vanished')
	# locals stand for their values, destructuring assignments read element-wise (`begin_line, begin_column = node.source_map['begin']`)
	from vlib.match import expand_use as _expand_use, split_tuple_assigns as _split
	bx = _split(bq.node)
	calls_ = [c_ for c_ in nodes(bx, ast.Call) if unparse(c_.func).endswith('Quotation') and len(c_.args) == 2]
	if not calls_:
		r.skip('shift', bq.where, '__build_quotation no longer builds Quotation(filepath, span)')
	for c_ in calls_:
		sp = _expand_use(bx, c_.args[1], 5)
		if not (isinstance(sp, ast.Tuple) and len(sp.elts) == 4):
			r.skip('shift', (RENDER, c_.lineno), f'the span handed to Quotation is not a 4-tuple expression: {unparse(sp)[:80]}')
			continue
		forms = [linear(e) for e in sp.elts]
		consts = {c for _, c in forms}
		atoms_ = [next(iter(t)) if len(t) == 1 and list(t.values()) == [1] else None for t, _ in forms]
		want = ["['begin'][0]", "['begin'][1]", "['end'][0]", "['end'][1]"]
		order_ok = all(a is not None and a.endswith(w) and 'source_map' in a for a, w in zip(atoms_, want))
		r.check(order_ok, 'span-order', (RENDER, c_.lineno), f'Quotation receives {[unparse(e)[:40] for e in sp.elts]}; it reads them as (begin line, begin column, end line, end column)', unparse(sp)[:160])
		r.check(len(consts) == 1, 'shift-uniform', (RENDER, c_.lineno), f'the four span components are shifted by different constants {sorted(consts)}: lark positions are 1-based in every component, so lines and columns must all be shifted alike or the carets sit beside the node\'s text', unparse(sp)[:160])
		r.check(consts == {-1}, 'shift-minus-one', (RENDER, c_.lineno), f'lark positions are 1-based, the quotation indexes lines and columns from 0: the shift must be -1, found {sorted(consts)}', unparse(sp)[:160])
	# every guard on the way to Quotation(...) must let the FIRST line through: the components are 1-based before the shift, so a test written for the
	# shifted value (`span[0] <= 0: no position`) silently drops every node that begins on line 1
	from vlib.match import atoms as atoms_of, expand_use, split_tuple_assigns
	raw = split_tuple_assigns(bq.node)  # `begin, end = m['begin'], m['end']` reads as two assignments
	for c_ in [c2 for c2 in nodes(raw, ast.Call) if unparse(c2.func).endswith('Quotation') and len(c2.args) == 2]:
		excludes_zero = False
		for a, pol in atoms_of(raw, c_):
			e = expand_use(raw, a, depth=4)
			if not (isinstance(e, ast.Compare) and len(e.ops) == 1):
				continue
			def elem(x: ast.AST) -> ast.AST:
				# (t0, t1, t2, t3)[k] -> tk
				if isinstance(x, ast.Subscript) and isinstance(x.value, ast.Tuple) and isinstance(x.slice, ast.Constant) and isinstance(x.slice.value, int) and -len(x.value.elts) <= x.slice.value < len(x.value.elts):
					return x.value.elts[x.slice.value]
				return x
			lt, lc = linear(elem(e.left))
			rt, rc = linear(elem(e.comparators[0]))
			terms = {k: v for k, v in {**lt, **{k: lt.get(k, 0) - v for k, v in rt.items()}}.items() if v != 0}
			if len(terms) != 1 or list(terms.values()) != [1] or not next(iter(terms)).endswith("['begin'][0]"):
				continue
			# condition: L + (lc - rc) <op> 0 with L the 1-based begin line; evaluate for L = 1
			val = 1 + lc - rc
			op = e.ops[0]
			truth = {ast.Lt: val < 0, ast.LtE: val <= 0, ast.Gt: val > 0, ast.GtE: val >= 0, ast.Eq: val == 0, ast.NotEq: val != 0}.get(type(op))
			if truth is None:
				continue
			val0 = 0 + lc - rc
			truth0 = {ast.Lt: val0 < 0, ast.LtE: val0 <= 0, ast.Gt: val0 > 0, ast.GtE: val0 >= 0, ast.Eq: val0 == 0, ast.NotEq: val0 != 0}.get(type(op))
			if truth0 is not None and truth0 != pol:
				excludes_zero = True  # for L = 0 (a node without a position) this condition keeps the quotation from being built
			r.check(truth == pol, 'first-line-is-quoted', (RENDER, a.lineno), f'Quotation(...) is reached only under `{unparse(a)}` being {pol}; with the 1-based begin line L the test reads `{unparse(e)[:90]}`, which is {truth} for L = 1: an error reported for a node that begins on the first line of the file gets no quotation at all (the shifted value of "no position" is -1, 0 is line 1)', unparse(a))
		# ... and must stop a node WITHOUT a position: Empty and proxy nodes carry (0, 0)..(0, 0); shifted by -1 the line index is -1, which Python
		# reads as the LAST line of the file — the report would quote an unrelated line under `<file>.py:0`
		r.check(excludes_zero, 'position-less-is-not-quoted', (RENDER, c_.lineno), 'nothing on the way to Quotation(...) tests the begin line of the node: a node without a position (Empty, proxies: span (0, 0)..(0, 0)) is shifted to line -1 and the LAST line of the file is quoted as `<file>.py:0` with one caret — a region that is not the node\'s', unparse(c_)[:100])
	qi = q.method('__init__')
	ix = FI(qi)
	sm = [p_ for p_ in qi.params() if p_ != 'self'][1]
	bl = [n for n in nodes(ix, ast.Assign) if unparse(n.targets[0]) == 'self.begin_line']
	r.check(bool(bl) and unparse(bl[0].value) == f'{sm}[0]', 'begin-line-from-span', qi.where, f'Quotation.begin_line must be {sm}[0] (the shifted begin line)')
	ll = q.method('__load_line')
	loads = [c_ for c_ in nodes(ix, ast.Call) if unparse(c_.func).endswith('__load_line')]
	r.check(bool(loads) and ll is not None and any(unparse(a) in ('self.begin_line', f'{sm}[0]') for c_ in loads for a in c_.args), 'quoted-line-is-begin-line', qi.where, 'the quoted line must be loaded at the begin line of the span')
	if ll is not None:
		lx = FI(ll)
		lineno_p = [p_ for p_ in ll.params() if p_ != 'self'][1]
		subs = [n for n in nodes(lx, ast.Subscript) if linear(n.slice)[0] == {lineno_p: 1}]
		if not subs:
			r.skip('line-index', ll.where, f'__load_line no longer subscripts a list of lines with `{lineno_p}` (another way of selecting the line is not modelled)')
		else:
			r.check(all(linear(n.slice)[1] == 0 for n in subs), 'line-index', ll.where, f'__load_line must index the lines with `{lineno_p}` itself (already 0-based): {[unparse(n)[:40] for n in subs]}')
		# the quoted line is addressed by the parser's line number: the file must be cut into lines where the parser counts them, at "\n" only
		# (str.splitlines() also breaks at form feed, vertical tab, \x1c-\x1e, NEL, U+2028/9 and a lone \r, which the grammar treats as blanks)
		for n in subs:
			lst = n.value
			if isinstance(lst, ast.Call) and isinstance(lst.func, ast.Attribute):
				how = lst.func.attr
				if how == 'splitlines':
					r.violate('lines-cut-at-newline-only', (RENDER, n.lineno), f'__load_line cuts the file with `{unparse(lst)[:60]}`: splitlines() also breaks at form feed, U+2028 and a lone carriage return, where the parser does not start a new line, so for a source containing one of them the quotation shows an earlier physical line than the node\'s and the carets underline unrelated text', unparse(n)[:100])
				elif how == 'split':
					sep = lst.args[0].value if lst.args and isinstance(lst.args[0], ast.Constant) else None
					r.check(sep in ('\n', b'\n'), 'lines-cut-at-newline-only', (RENDER, n.lineno), f'__load_line splits the file at {sep!r}; the parser counts lines by "\\n"', unparse(n)[:100])
				elif how == 'readlines':
					opens = [c_ for c_ in ast.walk(ll.node) if isinstance(c_, ast.Call) and unparse(c_.func) == 'open']
					binary = any('b' in (const_str(kw.value) or '') for c_ in opens for kw in c_.keywords if kw.arg == 'mode') or any(len(c_.args) > 1 and 'b' in (const_str(c_.args[1]) or '') for c_ in opens)
					if binary:
						r.ok('lines-cut-at-newline-only', (RENDER, n.lineno), message='binary readlines(): lines end at \\n only')
					else:
						r.skip('lines-cut-at-newline-only', (RENDER, n.lineno), 'readlines() on a text-mode file: universal newlines also end a line at a lone \\r')
				else:
					r.skip('lines-cut-at-newline-only', (RENDER, n.lineno), f'line list `{unparse(lst)[:60]}` not classified')
			else:
				r.skip('lines-cut-at-newline-only', (RENDER, n.lineno), f'line list `{unparse(lst)[:60]}` not classified')
		# the quoted text is the file's CURRENT text: the line number and the columns come from the tree that was just parsed, so the lines have to be read
		# from the file in this call. A process-wide memo keyed by the file name (linecache, functools.cache, a class-level dict) hands out the first
		# version of a file that was edited and parsed again in the same process (the interactive loops): the carets then point into another line's text
		rf = rep.rule('C16/quoted-text-is-read-fresh', 'Quotation.__load_line takes the lines from an open(<the file path>) made in the same call: not from linecache, a cached function or an attribute that outlives the call', floor=1)
		path_p = [p_ for p_ in ll.params() if p_ != 'self'][0]
		for n in subs:
			origin = n.value
			opens = [c_ for c_ in ast.walk(ll.node) if isinstance(c_, ast.Call) and unparse(c_.func) in ('open', 'io.open') and c_.args and path_p in {x.id for x in ast.walk(c_.args[0]) if isinstance(x, ast.Name)}]
			handles = {w.optional_vars.id for st in ast.walk(ll.node) if isinstance(st, ast.With) for w in st.items if w.context_expr in opens and isinstance(w.optional_vars, ast.Name)}
			from_handle = any((isinstance(x, ast.Name) and x.id in handles) or x in opens for x in ast.walk(origin))
			memo_names = [unparse(x.func) for x in ast.walk(origin) if isinstance(x, ast.Call) and unparse(x.func).split('.')[0] == 'linecache']
			cached_calls = []
			for x in ast.walk(origin):
				if isinstance(x, ast.Call):
					g = None
					if isinstance(x.func, ast.Attribute) and isinstance(x.func.value, ast.Name) and x.func.value.id in ('self', 'cls') and ll.cls is not None:
						g = ll.cls.method(x.func.attr)
					elif isinstance(x.func, ast.Name):
						g = ll.module.functions.get(x.func.id)
					if g is not None and any('cache' in unparse(d) for d in g.node.decorator_list):
						cached_calls.append(unparse(x.func))
			kept = [unparse(x) for x in ast.walk(origin) if isinstance(x, ast.Attribute) and isinstance(x.value, ast.Name) and x.value.id in ('self', 'cls') and not isinstance(getattr(x, 'ctx', None), ast.Store) and not any(isinstance(c_, ast.Call) and c_.func is x for c_ in ast.walk(origin))]
			if memo_names or cached_calls or kept:
				what = (memo_names + cached_calls + kept)[0]
				rf.violate('lines-read-in-this-call', (RENDER, n.lineno), f'__load_line takes the lines from `{what}`, which remembers the file by its name for the life of the process: after the file is edited and parsed again (interactive session, unload + load) the quotation shows the OLD text under the NEW line number and carets — or nothing, where the old file was shorter', unparse(n)[:120])
			elif from_handle:
				rf.ok('lines-read-in-this-call', (RENDER, n.lineno), message=f'lines come from open({path_p}) in the same call')
			else:
				rf.skip('lines-read-in-this-call', (RENDER, n.lineno), f'origin of the line list `{unparse(origin)[:60]}` not classified')
		# the END of the caret range of a node that continues on a later line is len(<quoted line>): the quoted line must not carry its line terminator.
		# readlines() keeps the terminator of every line, split('\n') does not
		for n in subs:
			lst = n.value
			keeps = isinstance(lst, ast.Call) and isinstance(lst.func, ast.Attribute) and lst.func.attr == 'readlines'
			if not keeps:
				continue
			rets_ = [x.value for x in nodes(lx, ast.Return) if x.value is not None]
			def _txt(a: ast.AST | None):
				v = a.value if isinstance(a, ast.Constant) else None
				return v.decode('latin-1') if isinstance(v, bytes) else v if isinstance(v, str) else None

			def strips(e: ast.AST) -> bool:
				for c_ in ast.walk(e):
					if not (isinstance(c_, ast.Call) and isinstance(c_.func, ast.Attribute)):
						continue
					a0 = _txt(c_.args[0]) if c_.args else None
					if c_.func.attr == 'replace' and len(c_.args) == 2 and a0 == '\n' and _txt(c_.args[1]) == '':
						return True
					if c_.func.attr in ('rstrip', 'strip') and (not c_.args or (a0 is not None and '\n' in a0)):
						return True
					if c_.func.attr == 'removesuffix' and a0 == '\n':
						return True
				return False
			ok_ = bool(rets_) and all(strips(x) for x in rets_)
			r.check(ok_, 'quoted-line-without-terminator', (RENDER, n.lineno), f'__load_line returns a line of `{unparse(lst)[:40]}` with its line terminator still attached (`{unparse(rets_[0])[:80] if rets_ else "?"}`): for a node that continues on a later line the caret range ends at len(<quoted line>), so the mark line is one caret longer than the line (two for CRLF) — a class, a function, a call spread over several lines', unparse(rets_[0])[:120] if rets_ else None)
		reps = [c_ for c_ in nodes(lx, ast.Call) if isinstance(c_.func, ast.Attribute) and c_.func.attr == 'replace' and len(c_.args) == 2 and const_str(c_.args[0]) == '\t']
		for c_ in reps:
			r.check(isinstance(const_str(c_.args[1]), str) and len(const_str(c_.args[1])) == 1, 'tab-keeps-columns', (RENDER, c_.lineno), f'a tab of the quoted line is replaced by `{const_str(c_.args[1])!r}`: columns count characters, so the replacement must be exactly one character or the carets shift right of the node on tab-indented lines', unparse(c_)[:80])
	cr = q.method('__cause_range')
	if cr is None:
		r.skip('range', q.where, 'Quotation.__cause_range vanished')
	else:
		tup = next((n for n in ast.walk(cr.node) if isinstance(n, ast.Assign) and isinstance(n.targets[0], ast.Tuple) and len(n.targets[0].elts) == 4), None)
		if tup is None:
			r.skip('range', cr.where, 'the span is not unpacked into four names in __cause_range')
		else:
			bl_, bc_, el_, ec_ = [unparse(x) for x in tup.targets[0].elts]
			# decided by evaluation where the function is in the subset of vlib/dsneval.py: the range of a span that ends on its first line is
			# [begin column, end column), of a span that continues on a later line [begin column, length of the quoted line) — whatever the
			# columns of the later line are (smaller, equal, larger than the begin column)
			from vlib import dsneval
			reps_ = {(3, 4, 3, 9): [4, 9], (3, 4, 3, 5): [4, 5], (3, 4, 5, 9): [4, 20], (3, 8, 5, 2): [8, 20], (3, 4, 5, 4): [4, 20], (0, 0, 7, 1): [0, 20]}
			got_ = {sp: dsneval.call_function(q, '__cause_range', [list(sp)], {}, 0, {'self.cause_line': 'x' * 20}) for sp in reps_}
			if all(v is not dsneval.UNKNOWN for v in got_.values()):
				for sp, want in reps_.items():
					g_ = list(got_[sp]) if isinstance(got_[sp], (list, tuple)) else got_[sp]
					kind = 'ends on its first line' if sp[0] == sp[2] else 'continues on a later line'
					r.check(g_ == want, f'quotation:range:{sp}', cr.where, f'for the span {sp} (begin line, begin column, end line, end column), which {kind}, with a quoted line of 20 characters __cause_range gives {g_}; the node\'s text on the quoted line is columns [{want[0]}, {want[1]}): the end column belongs to ANOTHER line when the node continues, so deciding by the columns instead of by the lines marks a few carets where the rest of the line belongs to the node (a call or assignment spread over several lines)', f'{sp} -> {g_}')
			else:
				_range_rule(r, RENDER, cr, 'quotation', (bl_, bc_, el_, ec_))
	lm = q.method('__build_line_mark')
	if lm is not None:
		_mark_rule(r, RENDER, lm, 'quotation')


# ---- (4) ErrorCollector (engine) ------------------------------------------------------------------------------------------------------

def rule_engine_quotation(rep: Report, idx: SourceIndex) -> None:
	r = rep.rule('C16/engine-quotation-arithmetic', 'ErrorCollector reports line number begin_line + 1, quotes lines[begin_line] and marks columns [begin, end) with the same single-line / multi-line rule and at least one caret', floor=5)
	ec = idx.mod(SYNTAX).cls('ErrorCollector')
	if ec is None:
		raise AnalysisError('ErrorCollector vanished')
	ql = ec.method('_quotation_lines')
	if ql is not None:
		qx = FI(ql)
		shown = [v for js in nodes(qx, ast.JoinedStr) for v in js.values if isinstance(v, ast.FormattedValue) and 'begin_line' in unparse(v.value)]
		if not shown:
			r.skip('line-number', ql.where, 'the reported line number is not derived from begin_line in an f-string')
		for v in shown[:1]:
			t, c = linear(v.value)
			r.check(c == 1 and len(t) == 1 and next(iter(t)).endswith('begin_line'), 'line-number', ql.where, f'the reported line number must be begin_line + 1 (Token.SourceMap is 0-based): `{unparse(v.value)[:60]}`', unparse(v.value)[:80])
	cl = ec.method('_cause_line')
	if cl is not None:
		cx = FI(cl)
		rets = [n.value for n in nodes(cx, ast.Return) if isinstance(n.value, ast.Subscript)]
		r.check(bool(rets) and all(linear(x.slice)[1] == 0 and any(k.endswith('begin_line') for k in linear(x.slice)[0]) for x in rets), 'quoted-line-is-begin-line', cl.where, f'the quoted line must be lines[begin_line]: {[unparse(x)[:60] for x in rets]}')
		splits = [c_ for c_ in nodes(cx, ast.Call) if isinstance(c_.func, ast.Attribute) and c_.func.attr in ('split', 'splitlines')]
		r.check(any(c_.func.attr == 'split' and [const_str(a) for a in c_.args] == ['\n'] for c_ in splits), 'lines-split-on-newline', cl.where, 'the source must be split on "\\n" exactly (the tokenizer counts lines by "\\n"; splitlines() also breaks on form feed and \\r)')
	tr = ec.method('_cause_token_range')
	if tr is not None:
		_range_rule(r, SYNTAX, tr, 'engine')
	lm = ec.method('_cause_line_mark')
	if lm is not None:
		_mark_rule(r, SYNTAX, lm, 'engine')
