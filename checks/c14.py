"""C14 — exporting and re-importing the symbol table loses nothing: schema clauses (serialize <-> deserialize <-> TypedDict)."""
from __future__ import annotations

import ast

from vlib.core import AnalysisError, Report
from vlib.schema import dict_keys, returned_dicts, subscripted_keys, typeddict_keys
from vlib.flow import parent_map
from vlib.match import FI, X, atoms, atoms_via, calls, closure, deref, expand_use, facts, has_call, inlined_bodies2, nodes
from vlib.srcindex import SourceIndex, attr_chain, const_str, unparse, walk_no_nested

EXPLANATION = (
	'Decides the schema clauses: for each of the two record shapes (Symbol / Reflection) the keys written by ReflectionSerializer.serialize equal the keys read by the matching deserialize branch and the keys of the '
	'TypedDict; the discriminator values written equal those tested; every restored constructor field (Symbol.instantiate types, Options node/decl/origin/via) is fed from the key of the same name, '
	'which was written from the matching attribute; path-valued fields use the same ModuleDSN pair (full_joined <-> parsed); the flattened attr paths use the same separator on both sides and indices are parsed with int; '
	'import marks the module completed through the same key parser __setitem__ uses. Symbol-by-symbol equality over all programs, dependency order and idempotence are not decided.'
)
ASSUMPTIONS = ['deep attribute nesting and the dependency order of _order_keys are run-time properties, not decided']
TRUSTED_BASE = ['CPython ast']

SER = 'rogw/tranp/semantics/reflection/serializer.py'
SCHEMA = 'rogw/tranp/semantics/reflection/serialization.py'
DB = 'rogw/tranp/semantics/reflection/db.py'
SEQ = 'rogw/tranp/lang/sequence.py'


def run(rep: Report, tier: str) -> None:
	idx = SourceIndex()
	rule_state(rep, idx)
	ser, sch, db, seq = idx.mod(SER), idx.mod(SCHEMA), idx.mod(DB), idx.mod(SEQ)
	rep.consulted(SER, SCHEMA, DB, SEQ)
	c = ser.cls('ReflectionSerializer')
	s, d = c.method('serialize'), c.method('deserialize')
	if s is None or d is None:
		raise AnalysisError('ReflectionSerializer.serialize/deserialize vanished')
	tds = typeddict_keys(sch.tree)
	r = rep.rule('C14/record-keys-agree', 'per record shape: keys written by serialize == keys read by the deserialize branch == TypedDict keys; discriminators agree', floor=6)
	written = {}
	for dct in returned_dicts(s.node):
		keys = dict_keys(dct)
		cls_val = next((const_str(v) for k, v in zip(dct.keys, dct.values) if const_str(k) == 'class'), None)
		if cls_val is None:
			r.undecided('serialize:record', (SER, dct.lineno), 'record without constant class discriminator')
			continue
		written[cls_val] = (set(keys), dct)
	if set(written) != {'Symbol', 'Reflection'}:
		r.violate('serialize:shapes', s.where, f'serialize writes record shapes {sorted(written)}; deserialize distinguishes Symbol / Reflection')
	# reader: every data[<key>] read in deserialize, with the truth of the discriminator test known at that point
	dparam = d.params()[2] if len(d.params()) > 2 else 'data'
	dx = X(d)
	bodies = inlined_bodies2(d, 2, full=True)  # deserialize and the private helpers it calls (parameters replaced by the call arguments)
	dfi = ast.Module(body=[b for b, _ in bodies], type_ignores=[])
	reads: list[tuple[str, str | None, bool | None, ast.AST]] = []  # key, tested value, polarity, node
	tested_vals: set[str] = set()
	for body, chain in bodies:
		for n in nodes(body, ast.Subscript):
			if unparse(n.value) != dparam or const_str(n.slice) is None:
				continue
			disc = [(const_str(a.comparators[0]), p_) for a, p_ in atoms_via(body, chain, n) if isinstance(a, ast.Compare) and len(a.ops) == 1 and isinstance(a.ops[0], ast.Eq) and unparse(a.left) == f"{dparam}['class']" and const_str(a.comparators[0]) is not None]
			for v_, _ in disc:
				tested_vals.add(v_)
			reads.append((const_str(n.slice), disc[0][0] if disc else None, disc[0][1] if disc else None, n))
		for n in nodes(body, ast.Compare):
			if len(n.ops) == 1 and isinstance(n.ops[0], (ast.Eq, ast.NotEq)) and unparse(n.left) == f"{dparam}['class']" and const_str(n.comparators[0]) is not None:
				tested_vals.add(const_str(n.comparators[0]))
	if len(tested_vals) != 1:
		raise AnalysisError(f'deserialize no longer branches on {dparam}[\'class\'] == <one constant> (tests: {sorted(tested_vals)})')
	tested = next(iter(tested_vals))
	other = [k for k in written if k != tested]
	r.check(tested in written, 'discriminator', d.where, f'deserialize tests data[\'class\'] == {tested!r}, which serialize never writes ({sorted(written)})')
	shapes = [tested] + (other if len(other) == 1 else [])
	tdmap = {'Symbol': 'DictSymbol', 'Reflection': 'DictReflection'}
	read_by: dict[str, set[str]] = {}
	for shape in shapes:
		want_pol = shape == tested
		read = {k for k, v_, pol, _ in reads if pol is None or pol == want_pol} | {'class'}
		read_by[shape] = read
		if shape in written:
			w = written[shape][0]
			r.check(w == read, f'{shape}:written==read', d.where, f'{shape}: serialize writes {sorted(w)} but deserialize reads {sorted(read)} (only written: {sorted(w - read)}, only read: {sorted(read - w)})')
		td = tds.get(tdmap.get(shape, ''))
		if td is None:
			r.violate(f'{shape}:typeddict', (SCHEMA, 1), f'TypedDict {tdmap.get(shape)} vanished from serialization.py')
		else:
			r.check(set(td) == written.get(shape, (set(),))[0], f'{shape}:typeddict', (SCHEMA, 1), f'TypedDict {tdmap[shape]} declares {sorted(td)} but serialize writes {sorted(written.get(shape, (set(),))[0])}')
			lit = td.get('class', '')
			r.check(repr(shape) in lit, f'{shape}:typeddict-discriminator', (SCHEMA, 1), f'TypedDict {tdmap[shape]} declares class: {lit}, serialize writes {shape!r}')

	# every way out of deserialize hands back a symbol whose attrs were rebuilt from the row (a reference row's own attrs are its type arguments:
	# `origin` names only the class that declares the type)
	for ret in [n for n in walk_no_nested(d.node) if isinstance(n, ast.Return)]:
		if ret.value is None:
			continue
		r.check(has_call(expand_use(d.node, ret.value), '_deserialize_attrs'), f'return-restores-attrs:{unparse(ret.value)[:40]}', (SER, ret.lineno), f'deserialize returns `{unparse(ret.value)[:80]}` without the attrs rebuilt from data[\'attrs\']: the restored symbol loses its type arguments (an imported `dict[str, list[int]]` variable comes back as `dict<T_Key, T_Value>`)', unparse(ret)[:120])
	# field wiring (on the fully inlined bodies: every local stands for its defining expression)
	rw = rep.rule('C14/field-wiring', 'each restored constructor field is fed from the key of the same name, and that key was written from the matching attribute; path fields use ModuleDSN.full_joined <-> parsed', floor=8)
	sfi = FI(s)
	sparam = s.params()[1] if len(s.params()) > 1 else 'symbol'
	wdicts = {}
	from vlib.match import inline_simple_calls
	for dct in [n for n in nodes(sfi, ast.Dict)]:
		cv = next((const_str(v) for k, v in zip(dct.keys, dct.values) if const_str(k) == 'class'), None)
		if cv:
			# values written through a one-line private helper (`self._node_dsn(symbol.node)`) stand for the helper's expression
			lineno = dct.lineno
			dct = inline_simple_calls(s, dct)
			dct.lineno = lineno
			wdicts[cv] = dct

	def value_keys(e: ast.AST, depth: int = 0) -> set[str]:
		"""data keys that can supply the value (for a conditional expression only the branches do; the test may consult other keys); a name bound by a
		destructuring assignment (`module_path, full_path = ModuleDSN.parsed(data['types'])`) is supplied by the keys of the assigned value"""
		if isinstance(e, ast.IfExp):
			return value_keys(e.body, depth) | value_keys(e.orelse, depth)
		out = set(subscripted_keys(e, dparam))
		if depth < 3:
			names = {x.id for x in ast.walk(e) if isinstance(x, ast.Name) and isinstance(x.ctx, ast.Load)}
			for a in nodes(dfi, ast.Assign):
				tnames = {x.id for t in a.targets for x in ast.walk(t) if isinstance(x, ast.Name)}
				if tnames & names and isinstance(a.targets[0], (ast.Tuple, ast.List)):
					out |= value_keys(a.value, depth + 1)
		return out

	if 'Reflection' in wdicts:
		wd = wdicts['Reflection']
		wsrc = {const_str(k): unparse(v) for k, v in zip(wd.keys, wd.values)}
		expect_attr = {'node': f'{sparam}.node.', 'decl': f'{sparam}.decl.', 'origin': f'{sparam}.types.fullyname', 'via': f'{sparam}.via.types.fullyname'}
		for k, frag in expect_attr.items():
			rw.check(frag in wsrc.get(k, ''), f'write:{k}', (SER, wd.lineno), f'key {k!r} is written from `{wsrc.get(k)}`, expected an expression over `{frag}`')
		opts = [n for n in nodes(dfi, ast.Call) if attr_chain(n.func) == 'Options']
		if not opts:
			rw.skip('read:Options', d.where, 'Options(...) construction not found in deserialize')
		seen_opts: set[str] = set()
		for o in opts:
			if unparse(o) in seen_opts:
				continue  # the same construction, met again where a single-assignment local was expanded
			seen_opts.add(unparse(o))
			for kw in o.keywords:
				src_keys = value_keys(kw.value)
				rw.check(src_keys == {kw.arg}, f'read:Options.{kw.arg}', (SER, o.lineno), f'Options({kw.arg}=...) takes its value from data keys {sorted(src_keys)}; expected data[{kw.arg!r}]')
			rw.check({k.arg for k in o.keywords} == {'node', 'decl', 'origin', 'via'}, 'read:Options-fields', (SER, o.lineno), f'Options is built with {[k.arg for k in o.keywords]}')
	if 'Symbol' in wdicts:
		wd = wdicts['Symbol']
		wsrc = {const_str(k): unparse(v) for k, v in zip(wd.keys, wd.values)}
		rw.check(f'{sparam}.types.' in wsrc.get('types', ''), 'write:types', (SER, wd.lineno), f"key 'types' is written from `{wsrc.get('types')}`")
		inst = [n for n in nodes(dfi, ast.Call) if attr_chain(n.func) == 'Symbol.instantiate']
		if not inst or any(len(i.args) != 2 for i in inst):
			rw.skip('read:Symbol.instantiate', d.where, 'Symbol.instantiate(traits, types) not found in deserialize')
		else:
			for i in inst[:1] + [j for j in inst[1:] if unparse(j) != unparse(inst[0])]:
				rw.check(value_keys(i.args[1]) == {'types'}, 'read:Symbol.instantiate', (SER, i.lineno), f'Symbol.instantiate must be called with the class node restored from data[\'types\']: `{unparse(i.args[1])[:120]}`')
	# every field written for a row reaches the symbol built from it, on every way out of the branch that reads the row: the four fields of a reference row
	# are written from four different attributes (node, decl, types, via), so a way out whose result consults fewer of them cannot restore them all —
	# unless the conditions known there say two of them are equal (`data['origin'] == data['via']`: the symbol is its own predecessor)
	rf = rep.rule('C14/every-written-field-reaches-the-restored-symbol', 'on every return of deserialize the returned symbol is computed from every key serialize wrote for that record shape, except a key the path condition equates with another one that is used', floor=2)
	import copy as _copy

	def disc_pol(conds) -> list[bool]:
		return [p_ for a, p_ in conds if isinstance(a, ast.Compare) and unparse(a.left) == f"{dparam}['class']" and const_str(a.comparators[0]) == tested]

	def keys_of(fn, e: ast.AST, param: str, pol: bool | None, depth: int = 0, seen: frozenset = frozenset()) -> set[str]:
		"""row keys the value of e (an expression inside fn) is computed from: `param['k']` reads; a local stands for the value(s) it is given — the one
		assignment compatible with the discriminator truth `pol`, destructuring assignments included; the row handed as a whole to a same-class helper
		contributes the keys EVERY return of that helper is computed from"""
		out: set[str] = set()
		if depth > 6:
			return out
		for n in ast.walk(e):
			if isinstance(n, ast.Subscript) and isinstance(n.value, ast.Name) and n.value.id == param and const_str(n.slice) is not None:
				out.add(const_str(n.slice))
			elif isinstance(n, ast.Name) and isinstance(n.ctx, ast.Load) and n.id != param and (fn.name, n.id) not in seen:
				defs_ = [a for a in ast.walk(fn.node) if isinstance(a, (ast.Assign, ast.AnnAssign)) and a.value is not None and any(isinstance(x, ast.Name) and x.id == n.id for t in (a.targets if isinstance(a, ast.Assign) else [a.target]) for x in ast.walk(t))]
				if pol is not None:
					defs_ = [a for a in defs_ if (not pol) not in disc_pol(atoms(fn.node, a))]
				if len(defs_) == 1:
					out |= keys_of(fn, defs_[0].value, param, pol, depth + 1, seen | {(fn.name, n.id)})
			elif isinstance(n, ast.Call) and isinstance(n.func, ast.Attribute) and isinstance(n.func.value, ast.Name) and n.func.value.id in ('self', 'cls') and fn.cls is not None:
				g = fn.cls.method(n.func.attr)
				if g is None or depth > 3:
					continue
				gparams = [a.arg for a in g.node.args.posonlyargs + g.node.args.args]
				gparams = gparams[1:] if gparams and gparams[0] in ('self', 'cls') else gparams
				for gp, arg in list(zip(gparams, n.args)) + [(kw.arg, kw.value) for kw in n.keywords if kw.arg]:
					if isinstance(arg, ast.Name) and arg.id == param:
						rets = [r_.value for r_ in walk_no_nested(g.node) if isinstance(r_, ast.Return) and r_.value is not None]
						if rets:
							out |= set.intersection(*[keys_of(g, r_, gp, None, depth + 1, seen) for r_ in rets])
		return out

	for ret in [n for n in walk_no_nested(d.node) if isinstance(n, ast.Return) and n.value is not None]:
		cond = atoms(d.node, ret)
		disc = disc_pol(cond)
		if len(disc) > 1:
			rf.skip(f'return:{unparse(ret.value)[:40]}', (SER, ret.lineno), 'contradictory discriminator tests at this return')
			continue
		# a return behind the if / else (the two branches only build the symbol) is reached for both shapes: judged once per shape
		for pol in (disc if disc else [True, False]):
			shape = tested if pol else (other[0] if len(other) == 1 else None)
			if shape not in written:
				continue
			used = keys_of(d, ret.value, dparam, pol)
			missing = written[shape][0] - used - {'class'}
			for a, p_ in cond:
				if p_ and isinstance(a, ast.Compare) and len(a.ops) == 1 and isinstance(a.ops[0], ast.Eq):
					lk = keys_of(d, a.left, dparam, pol)
					rk = keys_of(d, a.comparators[0], dparam, pol)
					if len(lk) == 1 and len(rk) == 1:
						if lk <= used:
							missing -= rk
						if rk <= used:
							missing -= lk
			rf.check(not missing, f'{shape}:return:{unparse(ret.value)[:40]}', (SER, ret.lineno), f'this way out of deserialize builds the {shape} row\'s symbol without data[{(sorted(missing) or ["?"])[0]!r}]' + (f' (it uses {sorted(used)}; conditions known here: {[(unparse(a)[:50], p_) for a, p_ in cond][:4]})' if missing else '') + ': the field is taken from somewhere else (the origin symbol, a default), which coincides only for some rows — e.g. a parameter or a variable of an imported module keeps the declaration of its TYPE instead of its own, so `decl`-based decisions (is it a parameter, a class variable, which scope) differ between a warm and a cold run', unparse(ret)[:160])
	pm_d = parent_map(dfi)
	# reader sites in deserialize and in the private helpers it calls (their parameters replaced by the call arguments): the key's value may be handed to
	# a helper that parses it (`self._node_by(data['types'])` -> `ModuleDSN.parsed(dsn)` inside). A helper is inlined once (for the first call site met),
	# so a key that is only handed to a helper inherits the verdict of the key the helper was inlined for.
	sites_of: dict[str, list[bool]] = {k: [] for k in ('types', 'node', 'decl')}
	handed_to: dict[str, set[str]] = {k: set() for k in sites_of}
	for body_, _chain in inlined_bodies2(d, 2, full=True):
		pm_b = parent_map(body_)
		for n in nodes(body_, ast.Subscript):
			k = const_str(n.slice)
			if unparse(n.value) != dparam or k not in sites_of:
				continue
			par = pm_b.get(id(n))
			is_parsed = isinstance(par, ast.Call) and attr_chain(par.func) == 'ModuleDSN.parsed'
			if isinstance(par, ast.Call) and not is_parsed and isinstance(par.func, ast.Attribute) and isinstance(par.func.value, ast.Name) and par.func.value.id in ('self', 'cls'):
				handed_to[k].add(par.func.attr)
				continue  # judged where the helper uses it
			if isinstance(par, ast.Compare) or (isinstance(par, ast.Subscript) and par.slice is n):
				continue  # used as a key / membership probe, not decoded (a memo keyed by the row text is C04's instance-state inventory)
			sites_of[k].append(is_parsed)
	for k in ('types', 'node', 'decl'):
		wv = [v for dct in wdicts.values() for kk, v in zip(dct.keys, dct.values) if const_str(kk) == k]
		w_ok = bool(wv) and all(isinstance(v, ast.Call) and attr_chain(v.func) == 'ModuleDSN.full_joined' for v in wv)
		flags = list(sites_of[k])
		if not flags and handed_to[k]:
			for k2 in sites_of:
				if k2 != k and handed_to[k2] & handed_to[k] and sites_of[k2]:
					flags = list(sites_of[k2])
		r_ok = bool(flags) and all(flags)
		rw.check(w_ok and r_ok, f'path-codec:{k}', s.where, f"key {k!r}: writer uses ModuleDSN.full_joined: {w_ok}, reader uses ModuleDSN.parsed: {r_ok}")
	lookups = [n for fn in closure(d) for n in nodes(fn, ast.Call) if isinstance(n.func, ast.Attribute) and n.func.attr == 'whole_by' and isinstance(n.func.value, ast.Call) and unparse(n.func.value.func).endswith('_entrypoints.load')]
	if lookups:
		rw.ok('path-lookup', d.where)
	else:
		rw.skip('path-lookup', d.where, 'deserialize no longer resolves (module, full_path) pairs through entrypoints.load(module).whole_by(path)')

	# attrs encoding
	ra = rep.rule('C14/attr-path-encoding', 'flattened attr paths: writer (seqs.expand) and reader (_deserialize_attrs) use the same "." separator, shallow-to-deep order, integer indices', floor=5)
	ex = seq.func('expand')
	sep = {const_str(n.func.value) for fn in closure(ex) for n in ast.walk(fn) if isinstance(n, ast.Call) and isinstance(n.func, ast.Attribute) and n.func.attr == 'join'}
	ra.check(sep == {'.'}, 'writer-separator', ex.where, f'seqs.expand joins path elements with {sep}')
	wattrs = [v for dct in wdicts.values() for kk, v in zip(dct.keys, dct.values) if const_str(kk) == 'attrs']
	exp_ok = bool(wattrs) and all(any(any(kw.arg == 'iter_key' and const_str(kw.value) == 'attrs' for kw in c_.keywords) and c_.args and unparse(c_.args[0]) == f'{sparam}.attrs' for c_ in calls(v, 'seqs.expand')) and '.types.fullyname' in unparse(v) for v in wattrs)
	ra.check(exp_ok, 'writer-expand', s.where, 'serialize no longer flattens symbol.attrs with seqs.expand(..., iter_key=\'attrs\') to type keys')
	# every flattened path is written: the reader rebuilds the nesting from the paths alone, so a filtered path is a lost type argument
	for v in wattrs:
		comps = [n for n in nodes(v, (ast.DictComp, ast.ListComp, ast.GeneratorExp)) if has_call(n.generators[0].iter, 'seqs.expand') or has_call(n.generators[0].iter, 'items')]
		filtered = [unparse(i)[:100] for n in comps for g in n.generators for i in g.ifs]
		ra.check(not filtered, 'writer-expand-total', s.where, f'serialize writes only the flattened attr paths that satisfy {filtered}: the omitted paths (nested type arguments) cannot be restored by _deserialize_attrs, which rebuilds the nesting from the written paths alone', unparse(v)[:200])
	da = c.method('_deserialize_attrs')
	if da is None:
		raise AnalysisError('_deserialize_attrs vanished')
	dacl = closure(da)
	splits = {const_str(n.args[0]) for n in nodes(dacl, ast.Call) if isinstance(n.func, ast.Attribute) and n.func.attr in ('split', 'count', 'join', 'rsplit', 'partition', 'rpartition') and n.args and const_str(n.args[0]) is not None}
	joins = {const_str(n.func.value) for n in nodes(dacl, ast.Call) if isinstance(n.func, ast.Attribute) and n.func.attr == 'join' and const_str(n.func.value) is not None}
	ra.check(splits <= {'.'} and joins <= {'.'} and '.' in splits, 'reader-separator', da.where, f'_deserialize_attrs splits/joins with {splits | joins}; the writer uses "."')
	# ordering of the paths: shallow-to-deep by separator count, never by comparing path strings ("10" < "2")
	from vlib.anchoring import Taint, find_sites
	t = Taint(da, lambda e: None, lambda fn, p: {'indexpath[]'} if p.arg == 'data_attrs' else None)
	orders = [s_ for s_ in find_sites(da, t) if s_.kind == 'order' and s_.labels]
	ra.check(bool(orders), 'reader-depth-order', da.where, '_deserialize_attrs no longer sorts the paths (parents must be rebuilt before children are attached)')
	for s_ in orders:
		depth_key = s_.arg is not None and ".count('.')" in unparse(s_.arg)
		ra.check(s_.anchored and depth_key, f'reader-order:{s_.text[:60]}', (SER, s_.node.lineno), f'`{s_.text}` must order the index paths by depth only (separator count; the stable sort keeps the numeric sibling order); comparing the path strings puts "10" before "2" and permutes siblings', s_.text)
	ra.check(has_call(dacl, 'int'), 'reader-int-index', da.where, 'indices are no longer parsed with int(): "10" would sort/compare as text')
	# siblings are the paths with the SAME PARENT PATH (all elements but the last). After the depth sort, groups under different parents are adjacent:
	# comparing only the depth and the parent's own index merges `0.1.x` with `1.1.x` (dict[str, list[int]] / dict[str, list[Item]] as two parameters):
	# the first parent gets both children, the second none
	from vlib.match import inline_simple_calls
	def parent_form(e: ast.AST) -> str | None:
		e = expand_use(da.node, e, depth=4) if any(x is e for x in ast.walk(da.node)) else e
		e = inline_simple_calls(da, e)  # `self._parent_path(p)` stands for the helper's return expression
		if isinstance(e, ast.Call) and isinstance(e.func, ast.Attribute) and e.func.attr == 'join' and e.args:
			e = e.args[0]
		if isinstance(e, ast.Subscript):
			base_split = isinstance(e.value, ast.Call) and isinstance(e.value.func, ast.Attribute) and e.value.func.attr in ('split', 'rsplit', 'rpartition')
			if base_split and e.value.func.attr == 'split' and isinstance(e.slice, ast.Slice):
				return 'whole' if (e.slice.lower is None and unparse(e.slice.upper) == '-1' and e.slice.step is None) else 'partial'
			if base_split and e.value.func.attr in ('rsplit', 'rpartition') and isinstance(e.slice, ast.Constant) and e.slice.value == 0:
				return 'whole'
			if base_split:
				return 'partial'
		return None
	grp = []
	for lp in nodes(da.node, ast.While):
		for brk in nodes(lp, ast.Break):
			for top, p_ in atoms(da.node, brk):
				for a in [x for x in ast.walk(top) if isinstance(x, ast.Compare)]:
					if len(a.ops) == 1 and isinstance(a.ops[0], (ast.Eq, ast.NotEq)) and lp.lineno <= getattr(a.left, 'lineno', 0) <= (lp.end_lineno or lp.lineno):
						forms = [parent_form(a.left), parent_form(a.comparators[0])]
						if any(f_ is not None for f_ in forms) and not any(a is g_[0] for g_ in grp):
							grp.append((a, forms))
	# the same comparison as the condition of the inner loop: `while end < n and parent(paths[end]) == own: end += 1`
	outer = [lp for lp in nodes(da.node, ast.While)]
	for lp in outer:
		for inner in nodes(lp, ast.While):
			if inner is lp:
				continue
			for a in [x for x in ast.walk(inner.test) if isinstance(x, ast.Compare)]:
				if len(a.ops) == 1 and isinstance(a.ops[0], (ast.Eq, ast.NotEq)) and not any(a is g_[0] for g_ in grp):
					forms = [parent_form(a.left), parent_form(a.comparators[0])]
					if any(f_ is not None for f_ in forms):
						grp.append((a, forms))
	if not grp:
		ra.skip('reader-groups-by-whole-parent-path', da.where, '_deserialize_attrs no longer ends a sibling group by comparing parent paths in a loop')
	for a, forms in grp:
		if 'partial' in forms:
			ra.violate('reader-groups-by-whole-parent-path', (SER, a.left.lineno), f'the sibling group ends under `{unparse(a)[:90]}`, which compares only a PART of the parent path: after the depth sort the children of `0.1` and of `1.1` are adjacent and have the same parent index, so `merge(a: dict[str, list[int]], b: dict[str, list[Item]])` is restored as dict[str, list[int, Item]] / dict[str, list[T_Value]] — silently another type description', unparse(a))
		elif forms == ['whole', 'whole']:
			ra.ok('reader-groups-by-whole-parent-path', (SER, a.left.lineno))
		else:
			ra.skip('reader-groups-by-whole-parent-path', (SER, a.left.lineno), f'`{unparse(a)[:80]}`: one side is not recognisably a parent path')
	daparams = da.params()
	dbp, dap = (daparams[1], daparams[2]) if len(daparams) > 2 else ('db', 'data_attrs')
	looked = [n for n in nodes(dacl, ast.Subscript) if unparse(n.value) == dbp and isinstance(n.slice, ast.Subscript) and unparse(n.slice.value) == dap]
	ra.check(bool(looked), 'reader-lookup', da.where, 'attribute values are no longer looked up in db by the written type key')

	# export order: dependencies first. _order_keys_recursive must be a post-order walk: it visits every attribute unconditionally before it lists the symbol's own type key
	ro = rep.rule('C14/export-post-order', 'SymbolDB._order_keys_recursive recurses into every attribute before appending the type key, and no early return can skip the recursion (so import never meets a key that is not yet present)', floor=3)
	okr = db.cls('SymbolDB').method('_order_keys_recursive')
	ok_ = db.cls('SymbolDB').method('_order_keys')
	if okr is None or ok_ is None:
		raise AnalysisError('SymbolDB._order_keys/_order_keys_recursive vanished')
	body = [s_ for s_ in okr.node.body if not (isinstance(s_, ast.Expr) and isinstance(s_.value, ast.Constant))]
	oparams = okr.params()
	sym_p, ord_p = (oparams[2], oparams[3]) if len(oparams) > 3 else ('symbol', 'orders')
	loop_i = next((i for i, s_ in enumerate(body) if isinstance(s_, ast.For) and unparse(s_.iter).endswith('.attrs') and sym_p in unparse(s_.iter) and '_order_keys_recursive' in unparse(s_)), None)
	app_i = next((i for i, s_ in enumerate(body) if f'{ord_p}.append' in unparse(s_)), None)
	ro.check(loop_i is not None, 'recurses-into-attrs', okr.where, '_order_keys_recursive no longer walks symbol.attrs recursively at the top level of its body')
	if loop_i is not None:
		early = [unparse(s_)[:60] for s_ in body[:loop_i] if any(isinstance(x, ast.Return) for x in ast.walk(s_))]
		ro.check(not early, 'no-return-before-recursion', okr.where, f'a return before the attribute walk ({early}) skips the type arguments of a symbol whose key is already listed: a class referenced only through a same-module generic (Box[Tree]) is then exported after its user and import raises SymbolNotDefined')
		ro.check(app_i is not None and app_i > loop_i, 'append-after-recursion', okr.where, 'the type key must be appended after the attributes were visited (post-order)')
		cond_loop = isinstance(body[loop_i], ast.For) and not any(isinstance(x, (ast.Continue, ast.Break)) for x in ast.walk(body[loop_i]))
		ro.check(cond_loop, 'recursion-unconditional', okr.where, 'the attribute walk skips or stops early for some attributes')
	# a key that enters the order as a *reference* (symbol.types.fullyname) brings the dependencies of the declaration stored under that key:
	# the row written for it lists that declaration's own attrs (e.g. its template types), which import_json looks up
	rx = FI(okr)
	ref_appends = [c_ for c_ in nodes(rx, ast.Call) if isinstance(c_.func, ast.Attribute) and c_.func.attr == 'append' and unparse(c_.func.value) == ord_p and c_.args and unparse(c_.args[0]).endswith('.types.fullyname')]
	if not ref_appends:
		ro.skip('declaration-dependencies-first', okr.where, '_order_keys_recursive no longer appends <symbol>.types.fullyname')
	for c_ in ref_appends:
		k = unparse(c_.args[0])
		decl_walks = [w for w in calls(rx, '_order_keys_recursive') if w.lineno < c_.lineno and any(isinstance(x, (ast.Subscript, ast.Call)) and (unparse(x.value if isinstance(x, ast.Subscript) else x.func).split('.get')[0] in ('self.__items', 'self')) and k in unparse(x) for a in w.args for x in ast.walk(a))]  # the table row of the key: self.__items[k] / self.__items.get(k) / self[k] / self.get(k)
		ro.check(bool(decl_walks), 'declaration-dependencies-first', (DB, c_.lineno), f'`{unparse(c_)}` lists a type key reached through a reference without first walking the declaration stored under that key (self.__items[{k}]): a class referenced before its own turn (forward reference `-> \'Gen[int]\'` above `T = TypeVar(...)` / `class Gen(Generic[T])`) is exported before the template types its row refers to, and import_json raises SymbolNotDefined', unparse(c_))
	okx = X(ok_)
	rec_calls = calls(okx, '_order_keys_recursive')
	own = [c_ for c_ in nodes(okx, ast.Call) if isinstance(c_.func, ast.Attribute) and c_.func.attr == 'append' and c_.args and isinstance(c_.args[0], ast.Name)]
	if not rec_calls or not own:
		ro.skip('key-after-dependencies', ok_.where, '_order_keys no longer calls _order_keys_recursive and appends the key itself')
	else:
		a0 = own[0]
		kname = a0.args[0].id
		lst = unparse(a0.func.value)
		fresh = (f'{kname} in {lst}', False) in facts(okx, a0)
		ro.check(min(c_.lineno for c_ in rec_calls) < a0.lineno and fresh and any(unparse(c_.args[-1]) == lst for c_ in rec_calls if c_.args), 'key-after-dependencies', ok_.where, f'_order_keys must list the dependencies of a key (recursive walk into the same list) before the key itself, and the key only once (conditions at append: {facts(okx, a0)})')

	# db import/export
	rd = rep.rule('C14/db-import-export', 'SymbolDB.to_json serialises the ordered keys, import_json stores each row under its key and marks the module completed via the key parser __setitem__ uses', floor=4)
	sdb = db.cls('SymbolDB')
	tj, ij, si = sdb.method('to_json'), sdb.method('import_json'), sdb.method('__setitem__')
	tjx = FI(tj)
	gens = [n for n in nodes(tjx, (ast.ListComp, ast.GeneratorExp, ast.DictComp, ast.For))]
	tj_ok = False
	for g in gens:
		it = g.iter if isinstance(g, ast.For) else g.generators[0].iter
		tgt = g.target if isinstance(g, ast.For) else g.generators[0].target
		if isinstance(it, ast.Call) and unparse(it.func) == 'self._order_keys' and isinstance(tgt, ast.Name):
			tj_ok = any(unparse(c_.func).endswith('.serialize') and c_.args and unparse(c_.args[0]) == f'self[{tgt.id}]' for c_ in nodes(g, ast.Call))
	rd.check(tj_ok, 'to_json', tj.where, 'to_json no longer maps _order_keys(for_module_path) to serializer.serialize(self[key])')
	from vlib.match import split_tuple_assigns
	ijx = split_tuple_assigns(X(ij))
	stores = []
	for lp in nodes(ijx, ast.For):
		if isinstance(lp.target, ast.Tuple) and len(lp.target.elts) == 2 and isinstance(lp.iter, ast.Call) and unparse(lp.iter.func).endswith('.items'):
			kv, rv = unparse(lp.target.elts[0]), unparse(lp.target.elts[1])
			for n in nodes(lp, ast.Assign):
				val = deref(ijx, n.value)
				if unparse(n.targets[0]) == f'self[{kv}]' and isinstance(val, ast.Call) and unparse(val.func).endswith('.deserialize') and [unparse(a) for a in val.args] == ['self', rv]:
					stores.append((lp, kv))
	rd.check(bool(stores), 'import-store', ij.where, 'import_json no longer stores serializer.deserialize(self, row) under the row key')
	if stores:
		lp, kv = stores[0]
		marks = calls(lp, 'self.on_complete')
		if not marks:
			rd.violate('import-completes', ij.where, 'import_json no longer marks the module of each key as completed')
		for c_ in marks:
			arg = expand_use(ijx, c_.args[0]) if c_.args else None
			# the key used as index of the table (`self[key]`) is the stored symbol, not the key: names inside such subscripts do not count
			inside = {id(x) for sub in (ast.walk(arg) if arg is not None else []) if isinstance(sub, ast.Subscript) and unparse(sub.value) == 'self' for x in ast.walk(sub.slice)}
			names = {n.id for n in ast.walk(arg) if isinstance(n, ast.Name) and id(n) not in inside} if arg is not None else set()
			parsed = arg is not None and any(x.args and unparse(x.args[0]) == kv for x in calls(arg, 'ModuleDSN.parsed'))
			if parsed:
				rd.ok('import-completes', ij.where, message=f'on_complete({unparse(arg)[:60]})')
			elif kv not in names:
				rd.violate('import-completes', (db.relpath, c_.lineno), f'import_json marks `{unparse(c_.args[0]) if c_.args else ""}` as completed, which is not derived from the row key `{kv}`: the rows of a module are filed under the module of their key (__setitem__), while e.g. the declaration of an imported name lives in ANOTHER module, so a module holding only import rows is never marked completed and the declaring module is marked although its own rows were not imported', unparse(c_))
			else:
				rd.skip('import-completes', (db.relpath, c_.lineno), f'on_complete({unparse(arg)[:80]}) derives the module from the key by a shape this check does not read')
	if stores:
		# a module that declares nothing (a script of calls only) exports `{}`: completion that is only ever recorded per ROW is never recorded for it
		lp = stores[0][0]
		in_loop = {id(c_) for c_ in calls(lp, 'self.on_complete')}
		outside = [c_ for c_ in calls(ijx, 'self.on_complete') if id(c_) not in in_loop]
		rd.check(bool(outside), 'import-completes:empty-export', ij.where, 'import_json records completion only inside the loop over the rows, from each row key: for a module without any symbol (`print(1)`) to_json gives {} and import_json({}) marks nothing, so completed(module) is False after the import although the exported table had it True — the interface has no way to name the module of an empty export')
	rd.check(has_call(X(si), 'ModuleDSN.parsed'), 'setitem-parser', si.where, '__setitem__ no longer files the key with ModuleDSN.parsed (import_json derives the module path with the same parser)')


def rule_state(rep: Report, idx: SourceIndex) -> None:
	"""import restores every symbol onto the CURRENT syntax trees: nodes are looked up through the entrypoints each time. A serializer (or persistor) that
	remembers resolved nodes / symbols across calls hands out nodes of a tree that was unloaded and re-parsed since (same path, other source), so the
	re-imported symbols keep the old declaration and type description. The inventory of remembered state is C04's; the entries of the export/import
	classes are obligations here as well."""
	from checks import c04
	r = rep.rule('C14/codec-keeps-no-state', 'ReflectionSerializer, SymbolDBPersistor and SymbolDB hold no container / memo besides the reviewed ones (shared with C04/instance-state-inventory)', floor=2)
	scratch = Report('C04', rep.tier)
	c04.rule_g(scratch, idx)
	n_ = 0
	for rule in scratch.rules:
		for o in rule.obligations:
			if not o.key.startswith(('ReflectionSerializer.', 'SymbolDBPersistor.', 'SymbolDB.')):
				continue
			n_ += 1
			if o.status == 'violated':
				r.violate(o.key, (o.file, o.line), o.message, o.fragment)
			else:
				r.ok(o.key, (o.file, o.line))
	# ... and state shared by ALL instances: a parameter default built when the def runs (`expanded: set[str] = set()` in the export-order walk: the keys
	# expanded by the FIRST export are skipped by every later one, so a second export lists a forward-referenced generic before its type variable and the
	# import fails with SymbolNotDefined), a container in a class body, a mutated module-level container
	scratch_c = Report('C04', rep.tier)
	c04.rule_c(scratch_c, idx)
	for rule in scratch_c.rules:
		for o in rule.obligations:
			if not any(p_ in o.key or p_ == o.file for p_ in (SER, DB, SCHEMA, 'rogw/tranp/semantics/reflection/persistent.py')):
				continue
			n_ += 1
			if o.status == 'violated':
				r.violate(o.key, (o.file, o.line), o.message + ' — the export order / the restored symbols of one call then depend on the exports and imports made before it in the same process', o.fragment)
			else:
				r.ok(o.key, (o.file, o.line))
