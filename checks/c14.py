"""C14 — exporting and re-importing the symbol table loses nothing: schema clauses (serialize <-> deserialize <-> TypedDict)."""
from __future__ import annotations

import ast

from vlib.core import AnalysisError, Report
from vlib.schema import dict_keys, returned_dicts, subscripted_keys, typeddict_keys
from vlib.srcindex import SourceIndex, attr_chain, const_str, unparse, walk_no_nested

EXPLANATION = (
	'Decides the schema clauses: for each of the two record shapes (Symbol / Reflection) the keys written by ReflectionSerializer.serialize equal the keys read by the matching deserialize branch and the keys of the '
	'TypedDict; the discriminator values written equal those tested; every restored constructor field (Symbol.instantiate types, Options node/decl/origin/via) is fed from the key of the same name, '
	'which was written from the matching attribute; path-valued fields use the same ModuleDSN pair (full_joined <-> parsed); the flattened attr paths use the same separator on both sides and indices are parsed with int; '
	'import marks the module completed through the same key parser __setitem__ uses. Symbol-by-symbol equality over all programs, dependency order and idempotence are not decided.'
)
ASSUMPTIONS = ['deep attribute nesting and the dependency order of _order_keys are run-time properties, not decided']
TRUSTED_BASE = ['CPython ast']

SER = 'rogw/tranp/semantics/reflection/serializer.py'
SCHEMA = 'rogw/tranp/semantics/reflection/serialization.py'
DB = 'rogw/tranp/semantics/reflection/db.py'
SEQ = 'rogw/tranp/lang/sequence.py'


def run(rep: Report, tier: str) -> None:
	idx = SourceIndex()
	ser, sch, db, seq = idx.mod(SER), idx.mod(SCHEMA), idx.mod(DB), idx.mod(SEQ)
	rep.consulted(SER, SCHEMA, DB, SEQ)
	c = ser.cls('ReflectionSerializer')
	s, d = c.method('serialize'), c.method('deserialize')
	if s is None or d is None:
		raise AnalysisError('ReflectionSerializer.serialize/deserialize vanished')
	tds = typeddict_keys(sch.tree)
	r = rep.rule('C14/record-keys-agree', 'per record shape: keys written by serialize == keys read by the deserialize branch == TypedDict keys; discriminators agree', floor=6)
	written = {}
	for dct in returned_dicts(s.node):
		keys = dict_keys(dct)
		cls_val = next((const_str(v) for k, v in zip(dct.keys, dct.values) if const_str(k) == 'class'), None)
		if cls_val is None:
			r.undecided('serialize:record', (SER, dct.lineno), 'record without constant class discriminator')
			continue
		written[cls_val] = (set(keys), dct)
	if set(written) != {'Symbol', 'Reflection'}:
		r.violate('serialize:shapes', s.where, f'serialize writes record shapes {sorted(written)}; deserialize distinguishes Symbol / Reflection')
	# reader branches: if data['class'] == 'Symbol': ... else: ...
	top_if = next((n for n in d.node.body if isinstance(n, ast.If)), None)
	if top_if is None or "data['class'] ==" not in unparse(top_if.test):
		raise AnalysisError('deserialize no longer branches on data[\'class\']')
	tested = const_str(top_if.test.comparators[0]) if isinstance(top_if.test, ast.Compare) else None
	branches = {tested: top_if.body}
	other = [k for k in written if k != tested]
	if len(other) == 1:
		branches[other[0]] = top_if.orelse
	r.check(tested in written, 'discriminator', (SER, top_if.lineno), f'deserialize tests data[\'class\'] == {tested!r}, which serialize never writes ({sorted(written)})')
	tdmap = {'Symbol': 'DictSymbol', 'Reflection': 'DictReflection'}
	read_by: dict[str, set[str]] = {}
	for shape, body in branches.items():
		mod = ast.Module(body=body, type_ignores=[])
		read = subscripted_keys(mod, 'data') | {'class'}
		read_by[shape] = read
		if shape in written:
			w = written[shape][0]
			r.check(w == read, f'{shape}:written==read', (SER, body[0].lineno if body else d.node.lineno), f'{shape}: serialize writes {sorted(w)} but deserialize reads {sorted(read)} (only written: {sorted(w - read)}, only read: {sorted(read - w)})')
		td = tds.get(tdmap.get(shape, ''))
		if td is None:
			r.violate(f'{shape}:typeddict', (SCHEMA, 1), f'TypedDict {tdmap.get(shape)} vanished from serialization.py')
		else:
			r.check(set(td) == written.get(shape, (set(),))[0], f'{shape}:typeddict', (SCHEMA, 1), f'TypedDict {tdmap[shape]} declares {sorted(td)} but serialize writes {sorted(written.get(shape, (set(),))[0])}')
			lit = td.get('class', '')
			r.check(repr(shape) in lit, f'{shape}:typeddict-discriminator', (SCHEMA, 1), f'TypedDict {tdmap[shape]} declares class: {lit}, serialize writes {shape!r}')

	# field wiring
	rw = rep.rule('C14/field-wiring', 'each restored constructor field is fed from the key of the same name, and that key was written from the matching attribute; path fields use ModuleDSN.full_joined <-> parsed', floor=8)
	if 'Reflection' in written and 'Reflection' in branches:
		wd = written['Reflection'][1]
		wsrc = {const_str(k): unparse(v) for k, v in zip(wd.keys, wd.values)}
		expect_attr = {'node': 'symbol.node.', 'decl': 'symbol.decl.', 'origin': 'symbol.types.fullyname', 'via': 'symbol.via.types.fullyname'}
		for k, frag in expect_attr.items():
			rw.check(frag in wsrc.get(k, ''), f'write:{k}', (SER, wd.lineno), f'key {k!r} is written from `{wsrc.get(k)}`, expected an expression over `{frag}`')
		body = ast.Module(body=branches['Reflection'], type_ignores=[])
		opts = [n for n in ast.walk(body) if isinstance(n, ast.Call) and attr_chain(n.func) == 'Options']
		if len(opts) != 1:
			rw.undecided('read:Options', (SER, branches['Reflection'][0].lineno), 'Options(...) construction not found in the Reflection branch')
		else:
			# local -> the data key it was derived from
			origin_of: dict[str, set[str]] = {}
			for n in ast.walk(body):
				if isinstance(n, ast.Assign) and len(n.targets) == 1 and isinstance(n.targets[0], ast.Name):
					keys = subscripted_keys(n.value, 'data')
					for nm in [x.id for x in ast.walk(n.value) if isinstance(x, ast.Name)]:
						keys |= origin_of.get(nm, set())
					origin_of[n.targets[0].id] = keys
			# value sources: for a conditional expression only the branches produce the value (the test may consult other keys)
			def value_keys(e: ast.AST) -> set[str]:
				if isinstance(e, ast.IfExp):
					return value_keys(e.body) | value_keys(e.orelse)
				return subscripted_keys(e, 'data')
			value_of: dict[str, set[str]] = {}
			for n in ast.walk(body):
				if isinstance(n, ast.Assign) and len(n.targets) == 1 and isinstance(n.targets[0], ast.Name):
					keys = value_keys(n.value)
					for nm in [x.id for x in ast.walk(n.value) if isinstance(x, ast.Name)]:
						keys |= value_of.get(nm, set())
					value_of[n.targets[0].id] = keys
			for kw in opts[0].keywords:
				src_keys = value_keys(kw.value)
				for x in ast.walk(kw.value):
					if isinstance(x, ast.Name):
						src_keys |= value_of.get(x.id, set())
				rw.check(src_keys == {kw.arg}, f'read:Options.{kw.arg}', (SER, opts[0].lineno), f'Options({kw.arg}=...) takes its value from data keys {sorted(src_keys)}; expected data[{kw.arg!r}]')
			rw.check({k.arg for k in opts[0].keywords} == {'node', 'decl', 'origin', 'via'}, 'read:Options-fields', (SER, opts[0].lineno), f'Options is built with {[k.arg for k in opts[0].keywords]}')
	if 'Symbol' in written and 'Symbol' in branches:
		wd = written['Symbol'][1]
		wsrc = {const_str(k): unparse(v) for k, v in zip(wd.keys, wd.values)}
		rw.check('symbol.types.' in wsrc.get('types', ''), 'write:types', (SER, wd.lineno), f"key 'types' is written from `{wsrc.get('types')}`")
		body = ast.Module(body=branches['Symbol'], type_ignores=[])
		inst = [n for n in ast.walk(body) if isinstance(n, ast.Call) and attr_chain(n.func) == 'Symbol.instantiate']
		rw.check(len(inst) == 1 and len(inst[0].args) == 2 and unparse(inst[0].args[1]) == 'types', 'read:Symbol.instantiate', (SER, branches['Symbol'][0].lineno), 'Symbol.instantiate is no longer called with the class node restored from data[\'types\']')
	src_s, src_d = unparse(s.node), unparse(d.node)
	for k in ('types', 'node', 'decl'):
		w_ok = any(f"'{k}': ModuleDSN.full_joined(" in unparse(dct) for dct in returned_dicts(s.node))
		r_ok = f"ModuleDSN.parsed(data['{k}'])" in src_d
		rw.check(w_ok and r_ok, f'path-codec:{k}', s.where, f"key {k!r}: writer uses ModuleDSN.full_joined: {w_ok}, reader uses ModuleDSN.parsed: {r_ok}")
	rw.check(src_d.count('.whole_by(') >= 3 and '_entrypoints.load(' in src_d, 'path-lookup', d.where, 'deserialize no longer resolves (module, full_path) pairs through entrypoints.load(module).whole_by(path)')

	# attrs encoding
	ra = rep.rule('C14/attr-path-encoding', 'flattened attr paths: writer (seqs.expand) and reader (_deserialize_attrs) use the same "." separator, shallow-to-deep order, integer indices', floor=5)
	ex = seq.func('expand')
	sep = {const_str(n.func.value) for n in ast.walk(ex.node) if isinstance(n, ast.Call) and isinstance(n.func, ast.Attribute) and n.func.attr == 'join'}
	ra.check(sep == {'.'}, 'writer-separator', ex.where, f'seqs.expand joins path elements with {sep}')
	ra.check("seqs.expand(symbol.attrs, iter_key='attrs')" in src_s and 'attr.types.fullyname' in src_s, 'writer-expand', s.where, 'serialize no longer flattens symbol.attrs with seqs.expand(..., iter_key=\'attrs\') to type keys')
	da = c.method('_deserialize_attrs')
	if da is None:
		raise AnalysisError('_deserialize_attrs vanished')
	splits = {const_str(n.args[0]) for n in ast.walk(da.node) if isinstance(n, ast.Call) and isinstance(n.func, ast.Attribute) and n.func.attr in ('split', 'count', 'join') and n.args and const_str(n.args[0]) is not None}
	joins = {const_str(n.func.value) for n in ast.walk(da.node) if isinstance(n, ast.Call) and isinstance(n.func, ast.Attribute) and n.func.attr == 'join' and const_str(n.func.value) is not None}
	ra.check(splits <= {'.'} and joins <= {'.'} and '.' in splits, 'reader-separator', da.where, f'_deserialize_attrs splits/joins with {splits | joins}; the writer uses "."')
	# ordering of the paths: shallow-to-deep by separator count, never by comparing path strings ("10" < "2")
	from vlib.anchoring import Taint, find_sites
	t = Taint(da, lambda e: None, lambda fn, p: {'indexpath[]'} if p.arg == 'data_attrs' else None)
	orders = [s_ for s_ in find_sites(da, t) if s_.kind == 'order' and s_.labels]
	ra.check(bool(orders), 'reader-depth-order', da.where, '_deserialize_attrs no longer sorts the paths (parents must be rebuilt before children are attached)')
	for s_ in orders:
		depth_key = s_.arg is not None and ".count('.')" in unparse(s_.arg)
		ra.check(s_.anchored and depth_key, f'reader-order:{s_.text[:60]}', (SER, s_.node.lineno), f'`{s_.text}` must order the index paths by depth only (separator count; the stable sort keeps the numeric sibling order); comparing the path strings puts "10" before "2" and permutes siblings', s_.text)
	ra.check('int(index_key)' in unparse(da.node), 'reader-int-index', da.where, 'indices are no longer parsed with int(): "10" would sort/compare as text')
	ra.check('db[data_attrs[path]]' in unparse(da.node), 'reader-lookup', da.where, 'attribute values are no longer looked up in db by the written type key')


	# export order: dependencies first. _order_keys_recursive must be a post-order walk: it visits every attribute unconditionally before it lists the symbol's own type key
	ro = rep.rule('C14/export-post-order', 'SymbolDB._order_keys_recursive recurses into every attribute before appending the type key, and no early return can skip the recursion (so import never meets a key that is not yet present)', floor=3)
	okr = db.cls('SymbolDB').method('_order_keys_recursive')
	ok_ = db.cls('SymbolDB').method('_order_keys')
	if okr is None or ok_ is None:
		raise AnalysisError('SymbolDB._order_keys/_order_keys_recursive vanished')
	body = [s_ for s_ in okr.node.body if not (isinstance(s_, ast.Expr) and isinstance(s_.value, ast.Constant))]
	loop_i = next((i for i, s_ in enumerate(body) if isinstance(s_, ast.For) and 'symbol.attrs' in unparse(s_.iter) and '_order_keys_recursive' in unparse(s_)), None)
	app_i = next((i for i, s_ in enumerate(body) if 'orders.append' in unparse(s_)), None)
	ro.check(loop_i is not None, 'recurses-into-attrs', okr.where, '_order_keys_recursive no longer walks symbol.attrs recursively at the top level of its body')
	if loop_i is not None:
		early = [unparse(s_)[:60] for s_ in body[:loop_i] if any(isinstance(x, ast.Return) for x in ast.walk(s_))]
		ro.check(not early, 'no-return-before-recursion', okr.where, f'a return before the attribute walk ({early}) skips the type arguments of a symbol whose key is already listed: a class referenced only through a same-module generic (Box[Tree]) is then exported after its user and import raises SymbolNotDefined')
		ro.check(app_i is not None and app_i > loop_i, 'append-after-recursion', okr.where, 'the type key must be appended after the attributes were visited (post-order)')
		cond_loop = isinstance(body[loop_i], ast.For) and not any(isinstance(x, (ast.Continue, ast.Break)) for x in ast.walk(body[loop_i]))
		ro.check(cond_loop, 'recursion-unconditional', okr.where, 'the attribute walk skips or stops early for some attributes')
	src_ok = unparse(ok_.node)
	ro.check('_order_keys_recursive(module_path, self.__items[key], orders)' in src_ok and 'if key not in orders' in src_ok and src_ok.index('_order_keys_recursive(') < src_ok.index('if key not in orders'), 'key-after-dependencies', ok_.where, '_order_keys no longer lists the dependencies of a key (recursive walk) before the key itself')

	# db import/export
	rd = rep.rule('C14/db-import-export', 'SymbolDB.to_json serialises the ordered keys, import_json stores each row under its key and marks the module completed via the key parser __setitem__ uses', floor=4)
	sdb = db.cls('SymbolDB')
	tj, ij, si = sdb.method('to_json'), sdb.method('import_json'), sdb.method('__setitem__')
	rd.check('serializer.serialize(self[key]) for key in self._order_keys(for_module_path)' in unparse(tj.node), 'to_json', tj.where, 'to_json no longer maps _order_keys(for_module_path) to serializer.serialize(self[key])')
	isrc = unparse(ij.node)
	rd.check('self[key] = serializer.deserialize(self, row)' in isrc, 'import-store', ij.where, 'import_json no longer stores serializer.deserialize(self, row) under the row key')
	rd.check('ModuleDSN.parsed(key)[0]' in isrc and 'self.on_complete(module_path)' in isrc, 'import-completes', ij.where, 'import_json no longer marks the module of each key as completed')
	rd.check('ModuleDSN.parsed(key)' in unparse(si.node), 'setitem-parser', si.where, '__setitem__ no longer files the key with ModuleDSN.parsed (import_json derives the module path with the same parser)')
