"""C07 — failures are always reported as tranp errors: structural clauses (parser boundary, handler-exception ladder,
abstract holes, index()==-1 belief, explicit raises, loop/top-level catches)."""
from __future__ import annotations

import ast

from vlib.core import AnalysisError, Report
from vlib.flow import enclosing_tries, handler_raises, handler_types, parent_map, raised_name, stmt_of
from vlib.nodemodel import NodeModel
from vlib.srcindex import SourceIndex, attr_chain, mangle, unparse, walk_no_nested
from vlib.typer import Typer

EXPLANATION = (
	'Decides the shape clauses of "only Errors.Error escapes": (a) every call of the third-party lark parser lies in a try that converts any exception to Errors.Syntax, on-disk and in-memory alike; '
	'(b) Procedure normalises handler exceptions with the ladder TypeError->InvalidSchema, Errors.Error->re-raise, Exception->Fatal, handlers are reached only through it, and every assert in Procedure is enclosed by an AssertionError->Errors conversion on every intra-class call path; '
	'(c) no `raise NotImplementedError()` member is left un-overridden on the static MRO of a class the dispatch table can instantiate, nor in a leaf implementation of a repository interface; '
	'(d) no code compares the result of `.index()` with -1 (a stated belief that contradicts Python: index raises ValueError); '
	'(e) every explicit raise in the pipeline modules is an Errors.* class (or a re-raise), exceptions frozen with reasons; every class nested in Errors reaches Errors.Error; '
	'(f) the interactive loop catches Errors.Error around rebuild+transpile and the top level catches Exception. '
	'Implicit KeyError/IndexError/AttributeError from arbitrary expressions, termination, and totality of ErrorRender are not decided.'
)
ASSUMPTIONS = ['implicit exceptions raised by arbitrary expressions are outside static reach; only explicit raise sites, third-party boundaries and stated beliefs are decided',
	'callee resolution is annotation/MRO based (vlib/typer.py)']
TRUSTED_BASE = ['CPython ast', 'vlib/typer.py', 'vlib/nodemodel.py (dispatch table read from providers/syntax/resolver.py)']

PIPELINE_EXCLUDE = ('rogw/tranp/bin/', 'rogw/tranp/test/', 'rogw/tranp/compatible/', 'rogw/tranp/lang/di.py', 'rogw/tranp/lang/profile.py', 'rogw/tranp/lang/trace.py')

# explicit non-Errors raises on the pipeline, frozen with one-line reasons (keyed by file:function:exception)
RAISE_EXEMPT = {
	'rogw/tranp/app/loader.py:FileLoader.load:FileNotFoundError': 'source loader contract (documented Raises); the parse boundary C07/parser-boundary converts it for module sources',
	'rogw/tranp/app/loader.py:FileLoader.mtime:FileNotFoundError': 'same contract; only called for files whose existence was just tested or for the grammar file',
	'rogw/tranp/app/loader.py:FileLoader.hash:FileNotFoundError': 'same contract',
	'rogw/tranp/lang/module.py:resolve_own_class:ModuleNotFoundError': 'reflection helper used at DI wiring time, not on input-dependent paths',
	'rogw/tranp/lang/error.py:raises.<locals>.decorator.<locals>.wrapper:raise_error': 'generic re-raise decorator: raises the caller-supplied class',
	'rogw/tranp/lang/error.py:Transaction.__exit__:self._raise_error': 'generic re-raise context manager: raises the caller-supplied class',
	'rogw/tranp/lang/middleware.py:Middleware.off:ValueError': 'programming error (unregistering an action that was never registered); only called from wiring code, not input dependent',
	'rogw/tranp/lang/defer.py:Defer.resolve:ValueError': 'programming error on a non-deferred object; not input dependent',
	'rogw/tranp/lang/typehint.py:OriginUnpacker.forward_to_type:ValueError': 'typehint helper for DI/annotation reflection of tranp itself, not of user input',
}


def run(rep: Report, tier: str) -> None:
	idx = SourceIndex()
	typer = Typer(idx)
	rule_a(rep, idx, typer)
	rule_b(rep, idx, typer)
	rule_c(rep, idx, typer)
	rule_d(rep, idx, tier)
	rule_e(rep, idx, tier)
	rule_f(rep, idx)
	rule_g(rep, idx)
	rule_h(rep, idx)
	rule_i(rep, idx)
	rule_j(rep)
	rule_k(rep, idx)
	rule_l(rep, idx)
	rule_unload_cascade(rep, idx)
	# the cache is read in front of the parser's Errors.Syntax boundary: a file that exists must be a complete file (rule and reasoning in checks/c05.py)
	from checks import c05
	c05.rule_cache_file_complete(rep, idx, 'C07/cache-file-exists-only-when-complete')


def _errors_classes(idx: SourceIndex) -> dict[str, object]:
	m = idx.mod('rogw/tranp/errors.py')
	outer = m.cls('Errors')
	return outer.nested


def _is_errors_name(name: str | None) -> bool:
	return bool(name) and name.startswith('Errors.')


# ---- (a) third-party parser boundary ---------------------------------------------------------------------------

def rule_a(rep: Report, idx: SourceIndex, typer: Typer) -> None:
	r = rep.rule('C07/parser-boundary', 'every <lark.Lark>.parse(...) call and every read of the module source in lark/parser.py lies in a try whose handler catches Exception (or broader) and raises Errors.Syntax (in the same function, or around every call site of the private helper)', floor=2)
	m = idx.mod('rogw/tranp/implements/syntax/lark/parser.py')
	rep.consulted(m.relpath)
	n_sites = 0
	def converting(f, n) -> bool:
		pm_ = parent_map(f.node)
		for t in enclosing_tries(n, pm_):
			for h in t.handlers:
				if set(handler_types(h)) & {'Exception', 'BaseException'} and any(raised_name(x) == 'Errors.Syntax' for x in handler_raises(h)):
					return True
		return False

	def protected(f, n, depth: int = 0) -> bool:
		"""n (a call inside f) lies in a converting try of f itself, or f is a private method all of whose call sites are protected
		(only same-function tries count for a closure: it is called elsewhere)"""
		if converting(f, n):
			return True
		if depth > 2 or f.cls is None or '.<locals>.' in f.qualname or not f.name.startswith('_'):
			return False
		sites = [(g, c) for g in m.functions.values() for c in walk_no_nested(g.node) if isinstance(c, ast.Call) and isinstance(c.func, ast.Attribute) and c.func.attr == f.name and isinstance(c.func.value, ast.Name) and c.func.value.id in ('self', 'cls')]
		return bool(sites) and all(protected(g, c, depth + 1) for g, c in sites)
	n_reads = 0
	for q, f in m.functions.items():
		pm = None
		lark_names = set()
		cur = f
		while cur is not None:
			a = cur.node.args
			for p in a.posonlyargs + a.args + a.kwonlyargs:
				if p.annotation is not None and unparse(p.annotation) in ('lark.Lark', 'Lark'):
					lark_names.add(p.arg)
			outer_q = cur.qualname.rsplit('.<locals>.', 1)[0] if '.<locals>.' in cur.qualname else None
			cur = m.functions.get(outer_q) if outer_q else None
		for n in walk_no_nested(f.node):
			if isinstance(n, ast.Call) and isinstance(n.func, ast.Attribute) and n.func.attr in ('parse', 'parse_interactive', 'lex'):
				recv = n.func.value
				is_lark = (isinstance(recv, ast.Name) and recv.id in lark_names) or (isinstance(recv, ast.Call) and 'load_parser' in unparse(recv.func)) or (isinstance(recv, ast.Attribute) and recv.attr == 'lark')
				if not is_lark:
					continue
				n_sites += 1
				pm = pm or parent_map(f.node)
				key = f'{q}:{unparse(n)}'
				r.check(protected(f, n), key, (m.relpath, n.lineno), f'third-party parser call `{unparse(n)}` in {q} is not enclosed by `except Exception -> raise Errors.Syntax`: lark.UnexpectedInput escapes for unparsable text (in-memory modules take this branch)', unparse(stmt_of(n, pm)))
			elif isinstance(n, ast.Call) and isinstance(n.func, ast.Attribute) and n.func.attr.endswith('source_provider') and f.name != '__init__':
				# reading the module source is part of the load: the provider raises FileNotFoundError for an import of a module that exists in no
				# source root and UnicodeDecodeError for an undecodable file (RAISE_EXEMPT above relies on this boundary converting them)
				n_reads += 1
				pm = pm or parent_map(f.node)
				key = f'{q}:{unparse(n)}'
				r.check(protected(f, n), key, (m.relpath, n.lineno), f'the source read `{unparse(n)}` in {q} is outside the `except Exception -> raise Errors.Syntax` boundary: FileNotFoundError (import of a module that exists in no source root) and UnicodeDecodeError (undecodable file) escape Modules.load, and the interactive loop ends instead of printing the error', unparse(stmt_of(n, pm)))
	if n_reads < 1:
		r.skip('source-read', (m.relpath, 1), 'no call of the source provider found in lark/parser.py')
	if n_sites < 1:
		raise AnalysisError('C07-a: no lark parse call site found in lark/parser.py')


# ---- (b) Procedure ladder ----------------------------------------------------------------------------------------

def rule_b(rep: Report, idx: SourceIndex, typer: Typer) -> None:
	r = rep.rule('C07/handler-ladder', 'Procedure reaches handlers only through __emit, whose try ladder is TypeError->InvalidSchema, Errors.Error->re-raise (node attached), Exception->Fatal', floor=6)
	m = idx.mod('rogw/tranp/semantics/procedure.py')
	rep.consulted(m.relpath)
	proc = m.cls('Procedure')
	emit_calls = []
	for name, defs in proc.methods.items():
		for f in defs:
			for n in walk_no_nested(f.node):
				if isinstance(n, ast.Call) and isinstance(n.func, ast.Attribute) and n.func.attr == 'emit' and 'emitter' in unparse(n.func.value):
					emit_calls.append((f, n))
	if not emit_calls:
		raise AnalysisError('C07-b: Procedure no longer calls <emitter>.emit')
	for f, n in emit_calls:
		pm = parent_map(f.node)
		tries = enclosing_tries(n, pm)
		key = f'{f.qualname}:{unparse(n.func)}'
		if not tries:
			r.violate(key, (m.relpath, n.lineno), f'handler dispatch `{unparse(n)}` in {f.qualname} is not inside a try: a handler exception escapes un-normalised')
			continue
		t = tries[0]
		types = [handler_types(h) for h in t.handlers]
		flat = [x for ts in types for x in ts]
		r.check('TypeError' in flat, key + ':TypeError', (m.relpath, t.lineno), 'no `except TypeError` (argument mismatch between event and handler must become Errors.InvalidSchema)')
		for h in t.handlers:
			ts = handler_types(h)
			raises = handler_raises(h)
			names = [raised_name(x) for x in raises]
			hk = f'{key}:except {"|".join(ts)}'
			if 'TypeError' in ts:
				r.check(bool(raises) and all(_is_errors_name(nm) for nm in names), hk, (m.relpath, h.lineno), f'`except TypeError` must raise an Errors.* class, raises {names}')
			elif any(x.startswith('Errors.') for x in ts):
				# re-raise of the caught application error, optionally re-typed with the node attached
				ok = bool(raises) and all(nm is None or nm == h.name or nm == f'{h.name}.__class__' or _is_errors_name(nm) for nm in names)
				r.check(ok, hk, (m.relpath, h.lineno), f'`except {ts}` must re-raise the application error, raises {names}')
			elif set(ts) & {'Exception', 'BaseException'}:
				r.check(bool(raises) and all(_is_errors_name(nm) for nm in names), hk, (m.relpath, h.lineno), f'terminal `except Exception` must raise an Errors.* class (Errors.Fatal), raises {names}')
			else:
				r.ok(hk, (m.relpath, h.lineno))
		last = handler_types(t.handlers[-1]) if t.handlers else []
		r.check(bool(set(last) & {'Exception', 'BaseException'}), key + ':terminal', (m.relpath, t.lineno), f'the last handler of the ladder must catch Exception; it catches {last}: any other handler exception (KeyError, AssertionError, ...) escapes as an internal crash')
		# order: Errors.Error must be tested before Exception, otherwise application errors are re-typed as Fatal
		order = [i for i, ts in enumerate(types) if any(x.startswith('Errors.') for x in ts)]
		exc = [i for i, ts in enumerate(types) if set(ts) & {'Exception', 'BaseException'}]
		r.check(not order or not exc or max(order) < min(exc), key + ':order', (m.relpath, t.lineno), '`except Exception` precedes `except Errors.Error`: application errors would be re-typed as Fatal')
	# __emit is the only function calling emitter.emit, and handlers are reached only through it
	r.check({f.name for f, _ in emit_calls} == {'__emit'}, 'emit-only-in-__emit', proc.where, f'emitter.emit is called from {sorted({f.name for f, _ in emit_calls})}, expected only __emit')

	# asserts in Procedure: every intra-class call path is enclosed by except AssertionError -> Errors.*
	ra = rep.rule('C07/assert-enclosed', 'every assert in Procedure is converted (except AssertionError/Exception -> raise Errors.*) on every intra-class call path up to a public method', floor=2)
	methods = {name: defs[-1] for name, defs in proc.methods.items()}
	callers: dict[str, list] = {}
	for name, f in methods.items():
		for n in walk_no_nested(f.node):
			callee = None
			if isinstance(n, ast.Call) and isinstance(n.func, ast.Attribute) and isinstance(n.func.value, ast.Name) and n.func.value.id == 'self':
				callee = n.func.attr
			elif isinstance(n, ast.Attribute) and isinstance(n.value, ast.Name) and n.value.id == 'self' and isinstance(n.ctx, ast.Load) and n.attr in methods and methods[n.attr].is_property:
				callee = n.attr
			if callee in methods:
				callers.setdefault(callee, []).append((f, n))

	def converts(f, n) -> bool:
		pm = parent_map(f.node)
		for t in enclosing_tries(n, pm):
			for h in t.handlers:
				if set(handler_types(h)) & {'AssertionError', 'Exception', 'BaseException'}:
					return all(_is_errors_name(raised_name(x)) for x in handler_raises(h)) and bool(handler_raises(h))
		return False

	def protected(name: str, seen: tuple = ()) -> tuple[bool, str]:
		if name in seen:
			return True, ''
		sites = callers.get(name, [])
		if not name.startswith('_') :
			return False, f'public method {name} lets AssertionError escape'
		if not sites:
			return True, ''  # unreachable private helper
		for f, n in sites:
			if converts(f, n):
				continue
			ok, why = protected(f.name, seen + (name,))
			if not ok:
				return False, f'{name} <- {f.name}: {why}'
		return True, ''

	for name, f in methods.items():
		for n in walk_no_nested(f.node):
			if isinstance(n, ast.Assert):
				key = f'{f.qualname}:{unparse(n)}'
				if converts(f, n):
					ra.ok(key, (m.relpath, n.lineno))
				else:
					ok, why = protected(name)
					ra.check(ok, key, (m.relpath, n.lineno), f'`{unparse(n)}` can escape Procedure as AssertionError: {why}', unparse(n))


# ---- (c) abstract holes ----------------------------------------------------------------------------------------------

def _is_abstract_body(f) -> bool:
	body = [s for s in f.node.body if not (isinstance(s, ast.Expr) and isinstance(s.value, ast.Constant) and isinstance(s.value.value, str))]
	return len(body) == 1 and isinstance(body[0], ast.Raise) and unparse(body[0].exc).startswith('NotImplementedError')


def rule_c(rep: Report, idx: SourceIndex, typer: Typer) -> None:
	r = rep.rule('C07/no-abstract-hole', 'no member whose body is `raise NotImplementedError()` is the one a dispatchable node class (or a leaf implementation of a repository interface) resolves to', floor=100)
	nm = NodeModel(idx)
	rep.consulted(*nm.files())
	abstract = []
	for c in nm.classes + [nm.node_cls]:
		for name, defs in c.methods.items():
			for f in defs:
				if _is_abstract_body(f):
					abstract.append((c, name, f))
	# mixins (interface.py, behavior.py)
	for rel in ('rogw/tranp/syntax/node/interface.py', 'rogw/tranp/syntax/node/behavior.py'):
		mm = idx.try_mod(rel)
		if mm:
			rep.consulted(rel)
			for c in mm.classes.values():
				for name, defs in c.methods.items():
					for f in defs:
						if _is_abstract_body(f):
							abstract.append((c, name, f))
	if len(abstract) < 5:
		raise AnalysisError(f'C07-c: only {len(abstract)} abstract members found among node classes (expected >= 5)')
	names = {name for _, name, _ in abstract}
	for c in nm.mapped_classes():
		holes = []
		for name in sorted(names):
			f = idx.lookup(c, name)
			if f is not None and _is_abstract_body(f):
				holes.append(f'{name} (defined at {f.cls.name if f.cls else "?"})')
		r.check(not holes, f'node:{c.name}', c.where, f'dispatchable node class {c.name} resolves {holes} to `raise NotImplementedError()`: reading it raises a non-application error')
	# repository interfaces elsewhere on the pipeline: leaf implementers override every abstract member
	ri = rep.rule('C07/interfaces-implemented', 'for every class with `raise NotImplementedError()` members elsewhere on the pipeline, every leaf subclass overrides them', floor=3)
	for rel in idx.all_py(('rogw',)):
		if rel.startswith(PIPELINE_EXCLUDE) or '/syntax/node/' in rel:
			continue
		mm = idx.mod(rel)
		for c in mm.classes.values():
			abs_names = [name for name, defs in c.methods.items() if any(_is_abstract_body(f) for f in defs)]
			if not abs_names:
				continue
			rep.consulted(rel)
			impls = [k for k in typer.implementations(c) if k is not c]
			leaves = [k for k in impls if not [x for x in typer.implementations(k) if x is not k]]
			if not leaves:
				ri.note(f'{rel}:{c.qualname} has abstract members {abs_names} and no subclass in rogw/ (not instantiable by the pipeline)')
				continue
			for leaf in leaves:
				holes = [n for n in abs_names if (lambda f: f is not None and _is_abstract_body(f))(idx.lookup(leaf, n))]
				ri.check(not holes, f'{c.qualname}<-{leaf.qualname}', leaf.where, f'{leaf.qualname} does not override abstract {holes} of {c.qualname}')


# ---- (d) index() == -1 belief -----------------------------------------------------------------------------------------

def rule_d(rep: Report, idx: SourceIndex, tier: str) -> None:
	r = rep.rule('C07/index-belief', 'no value obtained from `.index(...)` is compared with -1 / < 0 (index raises ValueError; the comparison states a false belief and the raise escapes)', floor=3)
	files = idx.all_py(('rogw',))
	for rel in files:
		if rel.startswith(('rogw/tranp/test/', 'rogw/tranp/compatible/')):
			continue
		m = idx.mod(rel)
		for q, f in m.functions.items():
			if '#' in q:
				continue
			index_vars: list[tuple[str, ast.Call]] = []
			assigns: dict[str, list[int]] = {}
			for n in walk_no_nested(f.node):
				if isinstance(n, ast.Assign) and len(n.targets) == 1 and isinstance(n.targets[0], ast.Name):
					assigns.setdefault(n.targets[0].id, []).append(n.lineno)
					if isinstance(n.value, ast.Call) and isinstance(n.value.func, ast.Attribute) and n.value.func.attr == 'index':
						index_vars.append((n.targets[0].id, n.value))
			for name, call in index_vars:
				rep.consulted(rel)
				bad = None
				# the comparison must read this assignment: it follows it with no re-assignment of the name in between (straight-line order)
				nxt = min([l for l in assigns[name] if l > call.lineno], default=10 ** 9)
				for n in walk_no_nested(f.node):
					if isinstance(n, ast.Compare) and isinstance(n.left, ast.Name) and n.left.id == name and len(n.comparators) == 1 and call.lineno < n.lineno <= nxt:
						c = n.comparators[0]
						neg1 = isinstance(c, ast.UnaryOp) and isinstance(c.op, ast.USub) and isinstance(c.operand, ast.Constant) and c.operand.value == 1
						zero = isinstance(c, ast.Constant) and c.value == 0
						if (neg1 and isinstance(n.ops[0], (ast.Eq, ast.NotEq, ast.LtE, ast.Gt))) or (zero and isinstance(n.ops[0], (ast.Lt, ast.GtE))):
							bad = n
				# is the index call guarded by a membership test or a try?
				pm = parent_map(f.node)
				caught = any(set(handler_types(h)) & {'ValueError', 'Exception', 'BaseException'} for t in enclosing_tries(call, pm) for h in t.handlers)
				key = f'{rel}:{q}:{name} = {unparse(call)}'
				if bad is not None and not caught:
					r.violate(key, (rel, call.lineno), f'`{name} = {unparse(call)}` is followed by `{unparse(bad)}`: the code believes index() returns -1 for a missing element, but it raises ValueError, which escapes as a non-application error', unparse(bad))
				else:
					r.ok(key, (rel, call.lineno))


# ---- (e) explicit raises -----------------------------------------------------------------------------------------------

def rule_e(rep: Report, idx: SourceIndex, tier: str) -> None:
	r = rep.rule('C07/raises-are-app-errors', 'every explicit raise in the pipeline modules raises an Errors.* class, re-raises, or is listed with a reason', floor=80)
	rh = rep.rule('C07/errors-hierarchy', 'every class nested in Errors reaches Errors.Error through its base chain', floor=15)
	em = idx.mod('rogw/tranp/errors.py')
	rep.consulted(em.relpath)
	nested = em.cls('Errors').nested
	if 'Error' not in nested:
		raise AnalysisError('Errors.Error vanished')
	for name, c in nested.items():
		seen, cur, ok = set(), c, False
		while cur is not None and cur.name not in seen:
			seen.add(cur.name)
			if cur.name == 'Error':
				ok = True
				break
			bases = [attr_chain(b) for b in cur.node.bases]
			nxt = None
			for b in bases:
				if b and b.split('.')[-1] in nested:
					nxt = nested[b.split('.')[-1]]
			cur = nxt
		if name == 'Error':
			ok = any(attr_chain(b) == 'Exception' for b in c.node.bases)
		rh.check(ok, f'Errors.{name}', c.where, f'Errors.{name} does not derive from Errors.Error (bases {[unparse(b) for b in c.node.bases]}): raising it escapes `except Errors.Error`')
	used = set()
	for rel in idx.all_py(('rogw',)):
		if rel.startswith(PIPELINE_EXCLUDE):
			continue
		m = idx.mod(rel)
		for q, f in m.functions.items():
			if '#' in q:
				continue
			pm = None
			for n in walk_no_nested(f.node):
				if not isinstance(n, ast.Raise):
					continue
				rep.consulted(rel)
				name = raised_name(n)
				key = f'{rel}:{q}:{name}'
				where = (rel, n.lineno)
				if name is None:
					r.ok(key + ':reraise', where)
					continue
				if name.startswith('Errors.'):
					cls_name = name.split('.')[1]
					r.check(cls_name in nested, key, where, f'raise of unknown {name}')
					continue
				if name.startswith('NotImplementedError'):
					r.ok(key + ':abstract', where)  # decided by C07/no-abstract-hole and C07/interfaces-implemented
					continue
				# `raise e` / `raise e.__class__(node)` inside an except handler binding e
				pm = pm or parent_map(f.node)
				cur, bound = n, None
				while id(cur) in pm:
					cur = pm[id(cur)]
					if isinstance(cur, ast.ExceptHandler) and cur.name and (name == cur.name or name == f'{cur.name}.__class__'):
						bound = cur
						break
				if bound is not None:
					r.ok(key + ':reraise-bound', where)
					continue
				ex_key = f'{rel}:{q}:{name}'
				if ex_key not in RAISE_EXEMPT and f.cls is not None and f.name.startswith('_') and not f.name.endswith('__'):
					# a raise moved into a private helper keeps the triage of the methods it was extracted from: every caller in the class must be triaged for the same exception
					callers = [g for defs_ in f.cls.methods.values() for g in defs_ if g is not f and any(isinstance(c_, ast.Call) and isinstance(c_.func, ast.Attribute) and c_.func.attr == f.name for c_ in ast.walk(g.node))]
					ckeys = [f'{rel}:{g.qualname}:{name}' for g in callers]
					if callers and all(k in RAISE_EXEMPT for k in ckeys):
						used.update(ckeys)
						r.ok(key, where, message=f'exempt through its callers: {RAISE_EXEMPT[ckeys[0]]}')
						continue
				if ex_key in RAISE_EXEMPT:
					used.add(ex_key)
					r.ok(key, where, message=f'exempt: {RAISE_EXEMPT[ex_key]}')
					continue
				r.violate(key, where, f'explicit `raise {name}` on the pipeline is not an Errors.* class: it escapes `except Errors.Error` (interactive loop) as an internal crash', unparse(n))
	stale = sorted(set(RAISE_EXEMPT) - used)
	for s in stale:
		r.note(f'exempt entry no longer matches any raise: {s}')


# ---- (f) loop / top-level catches -------------------------------------------------------------------------------------

def rule_f(rep: Report, idx: SourceIndex) -> None:
	r = rep.rule('C07/loop-catches', 'Interactive.run wraps rebuild+transpile in `except Errors.Error` that renders the error inside the while loop; __main__ catches Exception', floor=3)
	m = idx.mod('rogw/tranp/bin/transpile.py')
	rep.consulted(m.relpath)
	run = m.func('Interactive.run')
	from vlib.norm import helper_closure
	members = helper_closure(run, 2)
	members = [g for g in members if g.cls is run.cls and (g is run or g.name not in ('rebuild_module',))]
	pms = {id(g): parent_map(g.node) for g in members}

	def in_while(g, node) -> bool:
		cur = node
		while id(cur) in pms[id(g)]:
			cur = pms[id(g)][id(cur)]
			if isinstance(cur, ast.While):
				return True
		return False

	def caught(g, node, need_loop: bool) -> bool:
		"""node (in g) is inside a try whose handler catches Errors.Error, renders it and does not re-raise; the try is inside the while loop (directly, or g is only called from inside it)"""
		for t in enclosing_tries(node, pms[id(g)]):
			for h in t.handlers:
				if set(handler_types(h)) & {'Errors.Error', 'Exception'}:
					renders = any(isinstance(x, ast.Call) and attr_chain(x.func) == 'ErrorRender' for x in ast.walk(h))
					if renders and not handler_raises(h) and (not need_loop or in_while(g, t)):
						return True
		return False

	def call_sites(g):
		return [(h, c) for h in members if h is not g for c in walk_no_nested(h.node) if isinstance(c, ast.Call) and isinstance(c.func, ast.Attribute) and c.func.attr == g.name]

	def runs_in_loop(g, depth=0) -> bool:
		"""every call of helper g happens inside the while loop of run (directly or through another helper)"""
		sites = call_sites(g)
		return bool(sites) and depth <= 2 and all(in_while(h, c) if h is run else runs_in_loop(h, depth + 1) for h, c in sites)

	def protected(g, node, depth=0) -> bool:
		if g is run:
			return caught(g, node, True)
		if caught(g, node, False) and runs_in_loop(g):
			return True
		sites = call_sites(g)
		return bool(sites) and depth <= 2 and all(protected(h, c, depth + 1) for h, c in sites)

	targets = []
	for g in members:
		for n in walk_no_nested(g.node):
			if isinstance(n, ast.Call) and isinstance(n.func, ast.Attribute) and n.func.attr in ('rebuild_module', 'transpile'):
				targets.append((g, n))
	if len(targets) < 2:
		raise AnalysisError('C07-f: Interactive.run (and its helpers) no longer call rebuild_module and transpile')
	for g, n in targets:
		r.check(protected(g, n), f'Interactive.run:{n.func.attr}', (m.relpath, n.lineno), f'`{unparse(n)}` is not inside a try within the while loop whose handler catches Errors.Error and prints ErrorRender(e): one bad input would end the interactive session')
	# __main__ guard
	main_ok = False
	for s in m.tree.body:
		if isinstance(s, ast.If) and 'name__' in unparse(s.test):
			for t in [x for x in s.body if isinstance(x, ast.Try)]:
				for h in t.handlers:
					if set(handler_types(h)) & {'Exception', 'BaseException'} and any(isinstance(x, ast.Call) and attr_chain(x.func) == 'ErrorRender' for x in ast.walk(h)):
						main_ok = True
	r.check(main_ok, '__main__', (m.relpath, len(m.lines)), 'the __main__ block no longer wraps App(...).run in `except Exception` printing ErrorRender(e)')


# ---- (g) raw list subscripts on grammar children -------------------------------------------------------------------------------------

def rule_g(rep: Report, idx: SourceIndex) -> None:
	"""`self._at(i)` raises Errors.NodeNotFound for a missing child (an application error), but a plain subscript on a child list (`_children(p)[i]`,
	`self.<list property>[i]`) raises IndexError. Where the grammar does not guarantee that the index exists and no length guard dominates the access,
	a syntactically valid input makes a raw IndexError escape (node properties are read by ExpandModules outside Procedure's normalisation)."""
	from checks import c02
	from vlib.grammar import GrammarModel
	from vlib.nodemodel import NodeModel
	r = rep.rule('C07/raw-child-index', 'every constant subscript on a list of grammar children exists in every production of the tag or is length-guarded (else a valid-syntax input raises a raw IndexError instead of an Errors.* class)', floor=10)
	scratch = Report('C02', rep.tier)
	nm, gm = NodeModel(idx), GrammarModel()
	c02.rule_b(scratch, idx, nm, gm)
	boundary = rule_load_boundary(rep, idx)
	n = 0
	for rule in scratch.rules:
		if rule.id != 'C02/selector-index-exists':
			continue
		for o in rule.obligations:
			if '._at(' in o.key and '[' not in o.key.split(':', 1)[1].replace('._at(', ''):
				continue  # _at raises NodeNotFound: an application error
			if '[' not in o.key:
				continue
			n += 1
			if o.status == 'violated' and boundary:
				# the raw IndexError is raised while loading (ExpandModules) or inside a handler (Procedure.__emit): both boundaries convert it
				r.ok(o.key, (o.file, o.line), message='unguarded subscript; the IndexError is converted at the Modules.load boundary (C07/load-boundary-converts) or by Procedure.__emit')
			elif o.status == 'violated':
				r.violate(o.key, (o.file, o.line), o.message.replace('NodeNotFound/IndexError', 'a raw IndexError (not an Errors.* class)'), o.fragment)
			else:
				r.ok(o.key, (o.file, o.line))
	rep.extra_coverage['raw_subscripts_on_children'] = n


# ---- (h) the renderer does not evaluate foreign __str__ unprotected -----------------------------------------------------------------

def rule_h(rep: Report, idx: SourceIndex) -> None:
	"""ErrorRender prints the arguments of the error: nodes and reflections, whose __str__ resolves names lazily (fullyname, attrs) and raises again for
	the very element that caused the error (`class A([int]): ...`). "The error rendering itself never fails" therefore needs every stringification of
	an element of e.args inside a try whose handler catches Exception and does not raise. (Decides this clause only; index/IO errors inside the
	renderer depend on run-time values and are not decided.)"""
	r = rep.rule('C07/error-render-total', 'in ErrorRender every str()/format of an element of e.args (a node or reflection whose __str__ runs name resolution) lies in a try that catches Exception without re-raising', floor=1)
	m = idx.mod('rogw/tranp/view/error_render.py')
	rep.consulted(m.relpath)
	cls = m.cls('ErrorRender')
	if cls is None:
		raise AnalysisError('ErrorRender vanished')
	methods = {name: defs[-1] for name, defs in cls.methods.items()}

	def arg_names(f) -> set[str]:
		out = set()
		for n in ast.walk(f.node):
			if isinstance(n, (ast.For, ast.comprehension)) and unparse(n.iter).endswith('.e.args') and isinstance(n.target, ast.Name):
				out.add(n.target.id)
		return out

	def swallowed(f, n) -> bool:
		pm_ = parent_map(f.node)
		for t in enclosing_tries(n, pm_):
			for h in t.handlers:
				if set(handler_types(h)) & {'Exception', 'BaseException'} and not handler_raises(h):
					return True
		return False
	work = [(f, arg_names(f), 0) for f in methods.values() if arg_names(f)]
	seen = set()
	sites = 0
	while work:
		f, names, depth = work.pop()
		if (f.name, tuple(sorted(names))) in seen:
			continue
		seen.add((f.name, tuple(sorted(names))))
		for n in ast.walk(f.node):
			hit = None
			if isinstance(n, ast.Call) and isinstance(n.func, ast.Name) and n.func.id in ('str', 'repr', 'format') and n.args and isinstance(n.args[0], ast.Name) and n.args[0].id in names:
				hit = n
			elif isinstance(n, ast.FormattedValue) and isinstance(n.value, ast.Name) and n.value.id in names:
				hit = n
			elif isinstance(n, ast.Call) and isinstance(n.func, ast.Attribute) and isinstance(n.func.value, ast.Name) and n.func.value.id == 'self' and depth < 2:
				g = cls.method(n.func.attr)
				if g is not None and not swallowed(f, n):
					params = [a.arg for a in g.node.args.args][1:]
					passed = {p_ for p_, a in zip(params, n.args) if isinstance(a, ast.Name) and a.id in names}
					if passed:
						work.append((g, passed, depth + 1))
			if hit is not None:
				sites += 1
				r.check(swallowed(f, hit), f'{f.qualname}:{unparse(hit)[:40]}', (m.relpath, hit.lineno), f'{f.qualname} stringifies an error argument with `{unparse(hit)[:60]}` outside any `except Exception` that does not re-raise: __str__ of a node / reflection resolves names lazily and raises again for the element that caused the error (`class A([int]): ...`, `for a in {{a: True}} + print: pass`), so str(ErrorRender(e)) raises and the interactive loop ends', unparse(hit)[:80])
	if sites == 0:
		r.skip('args-stringified', cls.where, 'ErrorRender no longer stringifies the elements of e.args in a recognised form')
	# the quotation of the reported node: the span comes from the parser and can be incomplete (a block closed by the end of the file has no end
	# position: `{'end': (None, None)}`), the file can be shorter than the span says. Arithmetic on the span components and the construction of the
	# quotation must not take the whole error report down
	bq = methods.get('__build_quotation') or methods.get(mangle('ErrorRender', '__build_quotation'))
	if bq is None:
		r.skip('quotation-protected', cls.where, 'ErrorRender.__build_quotation vanished')
	else:
		risky = [n for n in ast.walk(bq.node) if (isinstance(n, ast.BinOp) and 'source_map' in unparse(n)) or (isinstance(n, ast.Call) and unparse(n.func).endswith('Quotation'))]
		risky += [n for n in ast.walk(bq.node) if isinstance(n, ast.Call) and isinstance(n.func, ast.Attribute) and n.func.attr == 'build']
		if not risky:
			r.skip('quotation-protected', bq.where, '__build_quotation no longer computes on node.source_map / builds a Quotation')
		else:
			bad = [n for n in risky if not swallowed(bq, n)]
			r.check(not bad, 'quotation-protected', (m.relpath, (bad[0] if bad else risky[0]).lineno), f'`{unparse(bad[0])[:60] if bad else ""}` in __build_quotation is outside any `except Exception` that does not re-raise: for a node whose position is incomplete (a function that ends with the file: `def f():\\n\\tpass\\n\\t` gives end = (None, None)) the arithmetic raises TypeError and the error report itself fails instead of printing the error', unparse(bad[0])[:80] if bad else '')


# ---- (i) results of "may return None" lookups are tested before use ------------------------------------------------------------------------

def rule_i(rep: Report, idx: SourceIndex) -> None:
	"""The lookup helpers come in pairs: by_x raises an Errors.* class when nothing is found, find_x / try_x returns None (declared `-> T | None`).
	Reading an attribute of a find_x result without a None test turns "not found" (an undefined name in the input) into a builtin AttributeError that
	escapes Modules.load: the preprocessors run outside Procedure's normalisation. Where one result in a function is tested and the next is not, one of
	the two beliefs is wrong (Engler's contradiction rule); here the declared return type says which."""
	from vlib.match import atoms, may_reach
	r = rep.rule('C07/optional-results-checked', 'every attribute read on the result of a function declared to return `T | None` (same-named functions all declared so) is dominated by a None / truth / isinstance test of that result', floor=4)
	optional: dict[str, list[str]] = {}
	plain: set[str] = set()

	def has_none(x: ast.AST, top: ast.AST) -> bool:
		if isinstance(x, ast.BinOp) and isinstance(x.op, ast.BitOr):
			return has_none(x.left, top) or has_none(x.right, top)
		if isinstance(x, ast.Constant) and x.value is None:
			return x is not top
		return isinstance(x, ast.Subscript) and unparse(x.value) in ('Optional', 'typing.Optional')
	files = [rel for rel in idx.all_py(('rogw',)) if not rel.startswith(('rogw/tranp/test/', 'rogw/tranp/compatible/'))]
	for rel in files:
		for q, f in idx.mod(rel).functions.items():
			ann = f.node.returns
			if isinstance(ann, ast.Constant) and isinstance(ann.value, str):
				try:
					ann = ast.parse(ann.value, mode='eval').body
				except SyntaxError:
					ann = None
			key = f.name.lstrip('_')
			if ann is not None and has_none(ann, ann):
				optional.setdefault(key, []).append(q)
			else:
				plain.add(key)
	names = {k for k in optional if k not in plain}
	n_uses = 0
	for rel in files:
		if rel.startswith('rogw/tranp/bin/'):
			continue
		m = idx.mod(rel)
		for q, f in m.functions.items():
			if '#' in q:
				continue
			for u in ast.walk(f.node):
				if not (isinstance(u, ast.Attribute) and isinstance(u.ctx, ast.Load)):
					continue
				base = u.value
				vals: list[ast.AST] = []
				alts: set[str] = set()
				if isinstance(base, ast.Call):
					vals = [base]
				elif isinstance(base, ast.Name) and isinstance(base.ctx, ast.Load):
					defs_ = may_reach(f.node, base)
					if not defs_:
						continue
					vals = [getattr(d_, 'value', None) for d_ in defs_]
					alts.add(base.id)
				if not vals or not all(isinstance(v, ast.Call) and isinstance(v.func, ast.Attribute) and v.func.attr.lstrip('_') in names for v in vals):
					continue
				n_uses += 1
				rep.consulted(rel)
				alts |= {unparse(v) for v in vals}
				known = atoms(f.node, u)
				ok = any((unparse(a) in {f'{x} is None' for x in alts} and not p_) or (unparse(a) in {f'{x} is not None' for x in alts} and p_) or (unparse(a) in alts and p_) or (p_ and any(unparse(a).startswith(f'isinstance({x},') for x in alts)) for a, p_ in known)
				callee = vals[0].func.attr
				r.check(ok, f'{rel}:{q}:{unparse(u)[:50]}', (rel, u.lineno), f'{q} reads `{unparse(u)[:60]}` on the result of `{callee}(...)`, which is declared to return None when nothing is found, without testing it: an input that makes the lookup fail (an undefined or un-imported name) raises a builtin AttributeError instead of an Errors.* class', unparse(u)[:80])
	rep.extra_coverage['optional_returning_functions'] = len(names)
	if n_uses == 0:
		r.skip('uses', None, 'no attribute read on the result of an Optional-returning function found')


# ---- (j) regexp terminals match in linear time ---------------------------------------------------------------------------------------

def rule_j(rep: Report) -> None:
	"""`processing terminates`: the engine matches every regexp terminal of its grammars against whole tokens with the backtracking re module. A terminal
	with an unbounded repeat whose body can be empty apart from another unbounded repeat (`(x*y?)*`, `(x*)*`, `(x+)+`) can split a run of x in exponentially
	many ways; a token that finally does NOT match (a string literal with an escape the terminal does not know) is then rejected only after 2^n steps:
	24 characters took 7 s. Read from the .lark files with the independent meta-grammar reader and re._parser."""
	import os
	import re._parser as sre
	from vlib import metagram
	from vlib.core import REPO
	r = rep.rule('C07/regexp-terminals-linear', 'no regexp terminal of data/syntax/*.lark contains an unbounded repeat whose body is, apart from nullable parts, another unbounded repeat (exponential backtracking on a non-matching token)', floor=10)
	MAXR = sre.MAXREPEAT

	def nullable(seq) -> bool:
		for op, av in seq:
			if op in (sre.MAX_REPEAT, sre.MIN_REPEAT):
				if av[0] > 0 and not nullable(av[2]):
					return False
			elif op is sre.SUBPATTERN:
				if not nullable(av[3]):
					return False
			elif op is sre.BRANCH:
				if not any(nullable(b) for b in av[1]):
					return False
			elif op in (sre.AT, sre.ASSERT, sre.ASSERT_NOT):
				continue
			else:
				return False
		return True

	def flat(seq):
		"""items of a sequence with transparent groups opened"""
		out = []
		for op, av in seq:
			if op is sre.SUBPATTERN and len(av[3]) >= 1:
				out.extend(flat(av[3]))
			else:
				out.append((op, av))
		return out

	def ambiguous(seq) -> str | None:
		for op, av in seq:
			if op in (sre.MAX_REPEAT, sre.MIN_REPEAT):
				lo, hi, body = av
				if hi == MAXR:
					items = flat(body)
					inner = [i for i, (o2, a2) in enumerate(items) if o2 in (sre.MAX_REPEAT, sre.MIN_REPEAT) and a2[1] == MAXR]
					for i in inner:
						rest = items[:i] + items[i + 1:]
						if nullable(rest):
							return 'an unbounded repeat over a body that is an unbounded repeat plus optional parts'
				found = ambiguous(body)
				if found:
					return found
			elif op is sre.SUBPATTERN:
				found = ambiguous(av[3])
				if found:
					return found
			elif op is sre.BRANCH:
				for b in av[1]:
					found = ambiguous(b)
					if found:
						return found
		return None

	def regexps(e, out):
		if isinstance(e, tuple):
			if len(e) == 2 and e[0] == 'regexp' and isinstance(e[1], str):
				out.append(e[1])
			for x in e:
				regexps(x, out)
		elif isinstance(e, list):
			for x in e:
				regexps(x, out)
	for rel in ('data/syntax/py_gram.lark', 'data/syntax/gram.lark'):
		rep.consulted(rel)
		text = open(os.path.join(REPO, rel), encoding='utf-8').read()
		rules = metagram.rules_of(metagram.read_grammar(text, rel))
		for name, body in rules.items():
			found: list[str] = []
			regexps(body, found)
			for rx in found:
				src = rx[1:rx.rindex('/')] if rx.startswith('/') else rx
				key = f'{rel}:{name}:{src[:40]}'
				line = next((i + 1 for i, l in enumerate(text.split('\n')) if l.startswith(name)), 1)
				try:
					tree = sre.parse(src)
				except Exception as e:  # not a Python regular expression: reported by C12's terminal forms
					r.skip(key, (rel, line), f'regexp not parseable by re: {e}')
					continue
				why = ambiguous(list(tree))
				r.check(why is None, key, (rel, line), f'terminal `{name}` is /{src[:70]}/: {why}. A token that does not match in the end (a quoted text with an escape the terminal does not list) is rejected only after exponentially many attempts — 24 characters take seconds, 40 do not finish — so processing does not terminate in practice', src[:100])


# ---- (k) lookup boundaries convert a missing key ----------------------------------------------------------------------------------------

# the tables whose "not found" is an answer about the INPUT (an undefined name, a path that is not in the tree, a tag without node class). Confirmed by
# reading (each looks a parameter up in a dict of self and raises the listed class when it is absent) and frozen: callers rely on the class, e.g.
# ExpandModules does `db[import_path#name]` for `from M import N` with no membership test of its own.
LOOKUP_BOUNDARIES = {
	('rogw/tranp/semantics/reflection/db.py', 'SymbolDB.__getitem__'): 'Errors.SymbolNotDefined',
	('rogw/tranp/syntax/ast/cache.py', 'EntryCache.by'): 'Errors.NodeNotFound',
	('rogw/tranp/syntax/ast/cache.py', 'EntryCache.group_by'): 'Errors.NodeNotFound',
	('rogw/tranp/syntax/ast/resolver.py', 'Resolver.resolve'): 'Errors.UnresolvedNode',
	('rogw/tranp/syntax/node/resolver.py', 'NodeResolver.resolve'): 'Errors.UnresolvedNode',
}


def rule_k(rep: Report, idx: SourceIndex) -> None:
	from vlib.match import atoms
	r = rep.rule('C07/lookup-boundaries-convert', 'each listed table lookup raises its Errors.* class for an absent key: every raw `self.<table>[<parameter>]` read is dominated by a membership test (or lies in a try converting KeyError), and the class is still raised', floor=4)
	for (rel, q), want in LOOKUP_BOUNDARIES.items():
		m = idx.mod(rel)
		rep.consulted(rel)
		f = m.functions.get(q)
		if f is None:
			r.skip(q, (rel, 1), f'{q} vanished (renamed?): re-confirm the lookup boundaries')
			continue
		params = [p_ for p_ in f.params() if p_ not in ('self', 'cls')]
		raises = [raised_name(n) for n in walk_no_nested(f.node) if isinstance(n, ast.Raise)]
		pm_ = parent_map(f.node)
		raw = []
		for n in walk_no_nested(f.node):
			if isinstance(n, ast.Subscript) and isinstance(n.ctx, ast.Load) and isinstance(n.value, ast.Attribute) and isinstance(n.value.value, ast.Name) and n.value.value.id == 'self' and isinstance(n.slice, ast.Name) and n.slice.id in params:
				known = atoms(f.node, n)
				guarded = any(isinstance(a, ast.Compare) and len(a.ops) == 1 and isinstance(a.ops[0], (ast.In, ast.NotIn)) and unparse(a.left) == n.slice.id for a, _ in known) \
					or any(isinstance(a, ast.Call) and isinstance(a.func, ast.Attribute) and a.func.attr in ('exists', 'can_resolve', 'has') and any(unparse(x) == n.slice.id for x in a.args) for a, _ in known)
				tried = any(set(handler_types(h)) & {'KeyError', 'LookupError', 'Exception'} and any(raised_name(x) == want for x in handler_raises(h)) for t in enclosing_tries(n, pm_) for h in t.handlers)
				if not guarded and not tried:
					raw.append(n)
		r.check(not raw, f'{q}:guarded', (rel, (raw[0] if raw else f.node).lineno), f'{q} reads `{unparse(raw[0]) if raw else ""}` with no membership test and no KeyError conversion: for a key that is not in the table (`from typing import Nope`: the module exists, the name does not) a builtin KeyError escapes Modules.load instead of {want}, and the interactive loop ends', unparse(raw[0]) if raw else '')
		r.check(want in raises or any(has_raise_in_helpers(f, want) for _ in [0]), f'{q}:raises', f.where, f'{q} no longer raises {want} for an absent key (raises: {sorted(set(x for x in raises if x))}): callers rely on that class to report an undefined name / path')


def has_raise_in_helpers(f, want: str) -> bool:
	from vlib.norm import helper_closure
	return any(raised_name(n) == want for g in helper_closure(f, 2) for n in ast.walk(g.node) if isinstance(n, ast.Raise))


# ---- (l) walks over the class graph terminate ---------------------------------------------------------------------------------

def rule_l(rep: Report, idx: SourceIndex) -> None:
	"""`processing terminates` for every input, valid or not: the base-class graph of the input may contain a cycle (`class A(B)` / `class B(A)`; never valid
	Python, but text the loader accepts). A walk over `.inherits` written as recursion ends in RecursionError, which the event boundary turns into
	Errors.Fatal; the same walk written as a work-list loop (`while pending: c = pending.pop(0); ...; pending.extend(c.inherits)`) runs forever unless
	it remembers the classes it has seen. Every such loop in the semantics layer must test membership in a collection it grows (or be bounded by a counter)."""
	from vlib.match import nodes
	r = rep.rule('C07/class-graph-worklists-terminate', 'every while-loop of the semantics layer whose work-list is refilled from `.inherits` keeps a visited collection (a membership test on a container the loop grows) — a cyclic base-class graph must end in an error, not in an endless loop', floor=1)
	n_loops = 0
	for rel in idx.glob('rogw/tranp/semantics/**/*.py'):
		m = idx.mod(rel)
		for q, f in m.functions.items():
			for lp in [n for n in walk_no_nested(f.node) if isinstance(n, ast.While)]:
				work = {x.id for x in ast.walk(lp.test) if isinstance(x, ast.Name)}
				refills = []
				for st in nodes(lp, (ast.Assign, ast.AugAssign, ast.Expr)):
					val = st.value
					tgt = None
					if isinstance(st, ast.Assign) and isinstance(st.targets[0], ast.Name):
						tgt = st.targets[0].id
					elif isinstance(st, ast.AugAssign) and isinstance(st.target, ast.Name):
						tgt = st.target.id
					elif isinstance(st, ast.Expr) and isinstance(val, ast.Call) and isinstance(val.func, ast.Attribute) and val.func.attr in ('extend', 'append', 'insert') and isinstance(val.func.value, ast.Name):
						tgt = val.func.value.id
					if tgt in work and any(isinstance(x, ast.Attribute) and x.attr == 'inherits' for x in ast.walk(val)):
						refills.append(st)
				if not refills:
					continue
				n_loops += 1
				key = f'{q}:while {unparse(lp.test)[:40]}'
				grown = {c_.func.value.id for c_ in nodes(lp, ast.Call) if isinstance(c_.func, ast.Attribute) and c_.func.attr in ('append', 'add', 'extend') and isinstance(c_.func.value, ast.Name) and c_.func.value.id not in work}
				grown |= {st.targets[0].value.id for st in nodes(lp, ast.Assign) if isinstance(st.targets[0], ast.Subscript) and isinstance(st.targets[0].value, ast.Name)}
				seen_tests = [c_ for c_ in nodes(lp, ast.Compare) if isinstance(c_.ops[0], (ast.In, ast.NotIn)) and isinstance(c_.comparators[0], ast.Name) and c_.comparators[0].id in grown]
				counters = [st for st in nodes(lp, ast.AugAssign) if isinstance(st.op, ast.Add) and isinstance(st.target, ast.Name) and st.target.id in work and isinstance(st.value, ast.Constant)]
				r.check(bool(seen_tests) or bool(counters), key, (rel, lp.lineno), f'{q} walks the base classes with a work-list (`{unparse(refills[0])[:70]}`) and never checks whether a class was visited before: for a cyclic hierarchy (`class A(B)` / `class B(A)`) and a looked-up member that no class on the cycle declares the loop never ends — no error is raised, the interactive loop hangs (the recursive form of such a walk ends in RecursionError -> Errors.Fatal)', unparse(lp.test))
	if n_loops == 0:
		r.ok('no-worklist-over-inherits', None, message='no while-loop of the semantics layer refills its work-list from .inherits (the walks are recursive)')


def rule_unload_cascade(rep: Report, idx: SourceIndex) -> None:
	"""Modules.unload follows the import graph upwards: every loaded module that imports the unloaded one is unloaded too, by recursion. The import graph
	of the input may contain a cycle (`from __main__ import A` inside __main__, a imports b imports a): the recursion ends only because the entry it
	started from is no longer registered when it comes back (`if module_path in self.__modules`). So the removal of the entry has to happen BEFORE the
	recursive calls; removed afterwards, a self-importing module recurses until RecursionError, which is not an Errors.Error and ends the interactive loop."""
	r = rep.rule('C07/unload-cascade-terminates', 'in Modules.unload the entry is removed from the registry (del / pop on self.__modules) on the way to every recursive self.unload(...): the membership guard at the top is what ends the cascade on an import cycle', floor=1)
	m = idx.mod('rogw/tranp/module/modules.py')
	cls = m.cls('Modules')
	mu = cls.method('unload') if cls else None
	if mu is None:
		r.skip('Modules.unload', (m.relpath, 1), 'Modules.unload vanished')
		return

	def reaches_self(fn, depth: int = 0) -> bool:
		for c_ in ast.walk(fn.node):
			if isinstance(c_, ast.Call) and isinstance(c_.func, ast.Attribute) and isinstance(c_.func.value, ast.Name) and c_.func.value.id == 'self':
				if c_.func.attr == 'unload':
					return True
				g = cls.method(c_.func.attr)
				if g is not None and g is not fn and depth < 2 and reaches_self(g, depth + 1):
					return True
		return False

	rec = []
	for c_ in walk_no_nested(mu.node):
		if isinstance(c_, ast.Call) and isinstance(c_.func, ast.Attribute) and isinstance(c_.func.value, ast.Name) and c_.func.value.id == 'self':
			g = cls.method(c_.func.attr)
			if c_.func.attr == 'unload' or (g is not None and g is not mu and reaches_self(g)):
				rec.append(c_)
	if not rec:
		r.ok('no-recursion', mu.where, message='Modules.unload does not call itself')
		return
	guard = any(isinstance(x, ast.Compare) and isinstance(x.ops[0], (ast.In, ast.NotIn)) and '__modules' in unparse(x.comparators[0]) for x in walk_no_nested(mu.node))
	if not guard:
		r.skip('guard', mu.where, 'Modules.unload has no membership guard on self.__modules: how its recursion ends is not modelled')
		return

	def is_removal(st: ast.AST) -> bool:
		for x in ast.walk(st):
			if isinstance(x, ast.Delete) and any(isinstance(t, ast.Subscript) and '__modules' in unparse(t.value) for t in x.targets):
				return True
			if isinstance(x, ast.Call) and isinstance(x.func, ast.Attribute) and x.func.attr in ('pop', 'clear') and '__modules' in unparse(x.func.value):
				return True
		return False

	pm = {}
	for par in ast.walk(mu.node):
		for fld in ('body', 'orelse', 'finalbody'):
			blk = getattr(par, fld, None)
			if isinstance(blk, list):
				for i_, st in enumerate(blk):
					if isinstance(st, ast.AST):
						pm[id(st)] = (par, blk, i_)
	def enclosing_stmt(n: ast.AST):
		best = None
		for st in ast.walk(mu.node):
			if isinstance(st, ast.stmt) and id(st) in pm and any(x is n for x in ast.walk(st)):
				if best is None or (st.lineno, st.col_offset) >= (best.lineno, best.col_offset):
					best = st
		return best
	for c_ in rec:
		st = enclosing_stmt(c_)
		before = False
		cur = st
		while cur is not None and id(cur) in pm and not before:
			par, blk, i_ = pm[id(cur)]
			if any(is_removal(b) and not isinstance(b, (ast.If, ast.For, ast.While, ast.Try)) for b in blk[:i_]):
				before = True
			cur = par if isinstance(par, ast.stmt) and par is not mu.node else None
		r.check(before, f'recursion:{unparse(c_)[:40]}', (m.relpath, c_.lineno), f'Modules.unload reaches `{unparse(c_)[:60]}` while the module it was called for is still registered in self.__modules (its removal comes later or on another path): for modules that import each other in a cycle — `from __main__ import A` typed into the interactive loop — every level finds the caller among the dependents again, the recursion ends in RecursionError (no Errors.Error) and the session ends', unparse(st)[:160] if st is not None else '')


# ---- (m) the loading boundary ------------------------------------------------------------------------------------------------------

def rule_load_boundary(rep: Report, idx: SourceIndex) -> bool:
	"""Loading a module runs the preprocessors OUTSIDE Procedure: ExpandModules reads node properties, StoreSymbols exports the table and thereby forces the
	lazily resolved types (`a, b, c = (1, 2)` -> IndexError in resolve_right_to_left, `a = b; b = a` -> RecursionError, `x: dict[str] = {}` ->
	IndexError in DictType.primary_type). Nothing below converts these; Modules.load is the one place every load passes through. Its handler must turn
	anything that is not an Errors.Error into one (and still discard the half-loaded module, C04)."""
	from vlib.match import nodes
	r = rep.rule('C07/load-boundary-converts', 'in Modules.load the loader call, the dependency load and the preprocessing lie in a try that re-raises Errors.Error unchanged and converts every other Exception into an Errors.* exception', floor=3)
	m = idx.mod('rogw/tranp/module/modules.py')
	f = m.func('Modules.load')
	rep.consulted(m.relpath)
	if f is None:
		r.skip('Modules.load', (m.relpath, 1), 'Modules.load vanished')
		return False
	pm_ = parent_map(f.node)
	def direct_sites(fn_node):
		return [c_ for c_ in nodes(fn_node, ast.Call) if isinstance(c_.func, ast.Attribute) and (c_.func.attr in ('preprocess', '__load_dependencies') or c_.func.attr.endswith('__load_dependencies') or (c_.func.attr == 'load' and unparse(c_.func.value).endswith('__loader')))]
	# (call inside Modules.load, name of the stage): the stage itself, or the call of a private helper of Modules whose body holds the stage
	sites_named = [(c_, c_.func.attr) for c_ in direct_sites(f.node)]
	mcls = m.cls('Modules')
	for c_ in nodes(f.node, ast.Call):
		if isinstance(c_.func, ast.Attribute) and isinstance(c_.func.value, ast.Name) and c_.func.value.id == 'self' and mcls is not None:
			g = mcls.method(c_.func.attr)
			if g is not None and g is not f and g.name.startswith('_') and not any(c_ is x for x, _ in sites_named):
				sites_named += [(c_, s_.func.attr) for s_ in direct_sites(g.node)]
	sites = [c_ for c_, _ in sites_named]
	if not sites:
		r.skip('Modules.load', f.where, 'Modules.load no longer calls __load_dependencies / preprocess')
		return False
	all_ok = True
	for c_, stage in sites_named:
		ok_ = False
		raw = None
		for t in enclosing_tries(c_, pm_):
			for h in t.handlers:
				if not (set(handler_types(h)) & {'Exception', 'BaseException'} or h.type is None):
					continue
				raised = [raised_name(x) for x in handler_raises(h)]
				if raised and all(_is_errors_name(x) for x in raised):
					ok_ = True
				else:
					raw = h
		key = f'Modules.load:{stage.lstrip("_")}'
		if ok_:
			r.ok(key, (m.relpath, c_.lineno))
		else:
			all_ok = False
			r.violate(key, (m.relpath, c_.lineno), f'`{unparse(c_)[:60]}` is not inside a try whose `except Exception` handler raises an Errors.* exception{" (the handler at line %d re-raises the exception as it is)" % raw.lineno if raw is not None else ""}: the preprocessors resolve symbols outside Procedure, so `def f(): a, b, c = (1, 2)` in a module on disk (symbol cache enabled) ends the run with a raw IndexError from resolve_right_to_left, `a = b` / `b = a` with RecursionError — not with an exception of the application hierarchy', unparse(c_))
	return all_ok
