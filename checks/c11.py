"""C11 — the self-hosted parser builds the trees CPython builds: narrow structural clauses
(a py_gram ladder ~ CPython precedence, b full consumption dominates the only return of parse, c rules in sync (see C12))."""
from __future__ import annotations

import ast
import os
import re

from vlib import metagram
from vlib.core import REPO, AnalysisError, Report
from vlib.precedence import python_precedence
from vlib.match import FI, X, atoms, calls, nodes
from vlib.norm import helper_closure
from vlib.srcindex import SourceIndex, unparse, walk_no_nested

EXPLANATION = (
	'(a) the operator ladder of data/syntax/py_gram.lark (read with the independent meta-grammar reader: levels `(A op)* A`, `(op)? X`, the ternary, walrus and lambda prefixes, operator tokens from string/regexp terminals) '
	'is order-isomorphic to CPython\'s precedence table for every operator both define; '
	'(b) SyntaxParser.parse has a single return, dominated by the test `step.steps != length -> raise Errors.Syntax`, i.e. a tree is returned only when every token was consumed; '
	'(c) the rule module the engine is run with is the compiled form of the reviewed grammar text (same obligation as C12, evaluated for the py pair). '
	'(d) the unwrap markers are applied by _unwrap_children over ALL children of a tree: `[1]` replaces a tree by its only child under len(children) == 1, `[*]` splices every child (placeholders of omitted optional parts count). '
	'Ordered-choice / no-backtracking hazards, which rules carry which marker, and error summaries need sentences, not shapes, and are not decided.'
)
ASSUMPTIONS = ['operator tokens are read from the string / regexp terminals of the op_* rules (character classes and alternations of literals)']
TRUSTED_BASE = ['CPython ast._Precedence/_Unparser tables', 'vlib/metagram.py', 're._parser (regexp terminals)']

PY_GRAM = 'data/syntax/py_gram.lark'
PY_RULES = 'data/syntax/py_rules.py'
SYNTAX_PY = 'rogw/tranp/implements/syntax/tranp/syntax.py'


def _read(rel: str) -> str:
	try:
		with open(os.path.join(REPO, rel), 'rb') as f:
			return f.read().decode('utf-8')
	except OSError as e:
		raise AnalysisError(f'anchor file vanished: {rel} ({e})')


def regex_tokens(rx: str) -> list[str] | None:
	"""literal alternatives of a simple regexp terminal: [abc], a|b|cd"""
	import re._parser as sre
	try:
		p = sre.parse(rx)
	except re.error:
		return None
	def lit_seq(items) -> list[str] | None:
		outs = ['']
		for op, av in items:
			name = str(op)
			if name == 'LITERAL':
				outs = [o + chr(av) for o in outs]
			elif name == 'IN':
				chars = []
				for o2, a2 in av:
					if str(o2) == 'LITERAL':
						chars.append(chr(a2))
					else:
						return None
				outs = [o + c for o in outs for c in chars]
			elif name == 'BRANCH':
				alts = []
				for br in av[1]:
					s = lit_seq(br)
					if s is None:
						return None
					alts.extend(s)
				outs = [o + a for o in outs for a in alts]
			else:
				return None
		return outs
	return lit_seq(list(p))


def run(rep: Report, tier: str) -> None:
	rule_a(rep)
	rule_b(rep)
	rule_c(rep)
	rule_d(rep)
	rule_e(rep)
	rule_f(rep)
	rule_g(rep)
	rule_h(rep)
	rule_i(rep)
	rule_j(rep)
	rule_k(rep)


def rule_g(rep: Report) -> None:
	"""one SyntaxParser / Tokenizer instance parses many texts (gram_check's interactive loop, the test helpers): whatever it remembers between parse()
	calls can answer for another text. The container attributes of the engine classes are inventoried by C04/instance-state-inventory; here only those
	of the parser, tokenizer and lexer count."""
	from checks import c04
	idx = SourceIndex()
	r = rep.rule('C11/parser-keeps-no-parse-state', 'SyntaxParser, Tokenizer and Lexer hold no container or memo besides their constant dispatch tables (a memo keyed by cursor positions survives a rejected text and answers for the next one)', floor=3)
	scratch = Report('C04', rep.tier)
	c04.rule_g(scratch, idx)
	n_ = 0
	for rule in scratch.rules:
		for o in rule.obligations:
			if not o.key.startswith(('SyntaxParser.', 'Tokenizer.', 'Lexer.', 'ProgreessMonitor.', 'ErrorCollector.')):
				continue
			n_ += 1
			if o.status == 'violated':
				r.violate(o.key, (o.file, o.line), o.message, o.fragment)
			else:
				r.ok(o.key, (o.file, o.line))
	rep.consulted(SYNTAX_PY)
	# scalar progress state: what the parser writes on its monitor during a parse is re-initialised when the next parse starts
	m = idx.mod(SYNTAX_PY)
	sp = m.cls('SyntaxParser')
	written: dict[str, tuple] = {}
	for name, defs in sp.methods.items():
		if name == '__init__':
			continue
		for n in ast.walk(defs[-1].node):
			if isinstance(n, (ast.Assign, ast.AugAssign)):
				for t in (n.targets if isinstance(n, ast.Assign) else [n.target]):
					if isinstance(t, ast.Attribute) and isinstance(t.value, ast.Attribute) and unparse(t.value.value) == 'self':
						written.setdefault(f'{t.value.attr}.{t.attr}', (name, n))
	pf = sp.method('parse')
	for wa, (by, n) in sorted(written.items()):
		holder, attr = wa.split('.')
		resets = []
		for c_ in ast.walk(pf.node):
			if isinstance(c_, ast.Call) and isinstance(c_.func, ast.Attribute) and unparse(c_.func.value) == f'self.{holder}':
				for cls_ in m.classes.values():
					g = cls_.method(c_.func.attr)
					if g is not None:
						resets += [x for x in ast.walk(g.node) if isinstance(x, ast.Assign) and any(unparse(t) == f'self.{attr}' for t in x.targets) and isinstance(x.value, ast.Constant)]
			if isinstance(c_, ast.Assign) and any(unparse(t) in (f'self.{holder}.{attr}', f'self.{holder}') for t in c_.targets):
				resets.append(c_)
		r.check(bool(resets), f'SyntaxParser.{wa}:reset-per-parse', (SYNTAX_PY, n.lineno), f'SyntaxParser.{by} writes self.{wa} during a parse and nothing re-initialises it when the next parse starts: a reused parser (gram_check loop) reports the next rejected text at a position left over from the previous one', unparse(n))


def rule_f(rep: Report) -> None:
	"""block := "\\INDENT" (statement)+ "\\DEDENT": statement nesting is decided by the INDENT/DEDENT tokens the tokenizer synthesises at line breaks; the
	state rules of C13 (level follows the last line, one DEDENT per closed level) are therefore obligations of C11's nesting clause as well"""
	from checks import c13
	idx = SourceIndex()
	r = rep.rule('C11/block-tokens-follow-indentation', 'the INDENT/DEDENT tokens that delimit `block` are synthesised from the indentation of the new line: level assigned from Context.to_nest, one DEDENT per closed level (shared with C13/indent-state-follows-last-line)', floor=4)
	scratch = Report('C13', rep.tier)
	c13.rule_indent_state(scratch, idx.mod(c13.TOKENIZER_PY), idx.mod(c13.TOKEN_PY))
	rep.consulted(c13.TOKENIZER_PY, c13.TOKEN_PY)
	for rule in scratch.rules:
		for o in rule.obligations:
			if o.status == 'violated':
				r.violate(o.key, (o.file, o.line), o.message, o.fragment)
			elif o.message.startswith('NOT EVALUATED'):
				r.skip(o.key, (o.file, o.line), o.message)
			else:
				r.ok(o.key, (o.file, o.line))


def rule_d(rep: Report) -> None:
	"""keywords (string terminals) are excluded from regexp terminals: the keyword set must contain the terminals of nested groups too"""
	r = rep.rule('C11/keywords-cover-nested-terminals', 'Rules._collect_keyword recurses into nested pattern groups, so every string terminal of the grammar — including those that occur only inside ( )?, ( )*, [ ] — is a keyword and cannot be matched by a regexp terminal', floor=2)
	idx = SourceIndex()
	m = idx.mod('rogw/tranp/implements/syntax/tranp/rule.py')
	rep.consulted(m.relpath)
	f = m.func('Rules._collect_keyword')
	# the Patterns branch must iterate the group and call the collector on each entry (directly or through a recursive helper)
	recursive = any(isinstance(n, ast.Call) and isinstance(n.func, ast.Attribute) and n.func.attr == '_collect_keyword' for g in helper_closure(f, 1) for n in ast.walk(g.node))
	# which terminals would be lost: string terminals that occur only nested, and that some regexp terminal of the grammar matches
	text = _read(PY_GRAM)
	tree = metagram.read_grammar(text, PY_GRAM)
	top, nested, regexps = set(), set(), []
	def walk(e, depth):
		if e[0] == 'string':
			(nested if depth > 0 else top).add(e[1][1:-1])
		elif e[0] == 'regexp':
			regexps.append(e[1][1:-1])
		elif isinstance(e[1], list):
			for c in e[1]:
				walk(c, depth + (1 if e[0] in ('expr_rep', 'expr_opt') else 0))
	for name, rl in metagram.rules_of(tree).items():
		walk(rl[1][2], 0)
	at_risk = sorted(t for t in nested - top if any(_fullmatch(rx, t) for rx in regexps))
	r.check(recursive, 'collector-recursive', f.where, f'Rules._collect_keyword no longer descends into nested groups: terminals that occur only inside ( )?/( )*/[ ] are not keywords any more; of those, {at_risk} match a regexp terminal (e.g. `name`), so `lambda: x` is tokenised as a name and rejected / mis-parsed', unparse(f.node)[:200])
	kw = m.func('Rules.keywords')
	kx = X(kw)
	whole = False
	for g in nodes(kx, (ast.For, ast.comprehension)):
		it = g.iter
		if isinstance(it, ast.Call) and unparse(it.func) in ('self.values', 'self.items') and not it.args:
			whole = True
	r.check(whole and bool(calls(kx, '_collect_keyword')), 'all-rules-collected', kw.where, 'Rules.keywords no longer collects over every rule of the rule set (self.values())')
	cmp_ = idx.mod(SYNTAX_PY).func('SyntaxParser._compare_token')
	cx = X(cmp_)
	from vlib.match import closure_fi
	bodies = [cx] + [b for b in closure_fi(cmp_, 2)]
	rx_calls = calls(cx, ('re.fullmatch', 're.match', 're.search'))
	# a regexp terminal describes the WHOLE token. Only fullmatch says that for every pattern: `^(?:...)$` written as f'^{expr}$' anchors just the first
	# and the last alternative of a top-level alternation (`0|[1-9]\d*` then accepts `0.5`, `False|True` accepts `Falsey`), match()/search() accept a prefix
	matchers = [c_ for b in bodies for c_ in ast.walk(b) if isinstance(c_, ast.Call) and isinstance(c_.func, ast.Attribute) and c_.func.attr in ('fullmatch', 'match', 'search', 'findall')]
	if not matchers:
		r.skip('regexp-terminal-matches-whole-token', cmp_.where, '_compare_token (and helpers) no longer match regexp terminals with a re call')
	for c_ in matchers:
		r.check(c_.func.attr == 'fullmatch', 'regexp-terminal-matches-whole-token', (SYNTAX_PY, c_.lineno), f'regexp terminals are matched with `{unparse(c_)[:80]}`: {c_.func.attr}() (even with ^...$ pasted around the expression) does not require the whole token to match every alternative of the terminal: `digit := /0|[1-9]\\d*/` then accepts the token `0.5`, `boolean` accepts `Falsey`, and the ordered choice takes that alternative', unparse(c_)[:120])
	if not rx_calls:
		rx_calls = [c_ for c_ in matchers if any(c_ is x for x in ast.walk(cx))]
	if not rx_calls:
		r.skip('keywords-excluded-from-regexp', cmp_.where, '_compare_token no longer matches regexp terminals directly (the match moved into a helper)')
	for rc_ in rx_calls:
		known = atoms(cx, rc_)
		r.check(any(not p_ and isinstance(a, ast.Compare) and isinstance(a.ops[0], ast.In) and unparse(a.comparators[0]).endswith('rules.keywords') and unparse(a.left).endswith('.string') for a, p_ in known), 'keywords-excluded-from-regexp', cmp_.where, f'SyntaxParser._compare_token must refuse keywords for regexp terminals (conditions at the regexp match: {[(unparse(a), p_) for a, p_ in known]})', unparse(rc_))
	r.note(f'string terminals of py_gram.lark that occur only inside nested groups and match a regexp terminal: {at_risk}')


def _fullmatch(rx: str, t: str) -> bool:
	try:
		return re.fullmatch(rx, t) is not None
	except re.error:
		return False


def rule_a(rep: Report) -> None:
	r = rep.rule('C11/ladder-isomorphic', 'for every two operator tokens py_gram.lark and CPython both define: grammar level order == CPython precedence order', floor=100)
	rs = rep.rule('C11/ladder-found', 'the expression ladder of py_gram.lark is recognised level by level (binary chains, optional prefixes, ternary, walrus, lambda)', floor=8)
	text = _read(PY_GRAM)
	rep.consulted(PY_GRAM)
	tree = metagram.read_grammar(text, PY_GRAM)
	rules = {name: r_[1][2] for name, r_ in metagram.rules_of(tree).items()}
	line_of = {}
	for i, l in enumerate(text.split('\n')):
		m = re.match(r'(\w+)(\[[1*]\])?\s*:=', l)
		if m:
			line_of[m.group(1)] = i + 1

	def sym(e):
		return e[1] if e[0] == 'symbol' else None

	def op_tokens(name: str, seen=()) -> list[str] | None:
		"""spellings an operator rule can match; sequences of optional parts are joined with a space"""
		if name in seen or name not in rules:
			return None
		body = rules[name]
		return expr_tokens(body, seen + (name,))

	def expr_tokens(e, seen) -> list[str] | None:
		k = e[0]
		if k == 'string':
			return [e[1][1:-1].replace('\\OP_UNARY_MINUS', 'u-')]
		if k == 'regexp':
			return regex_tokens(e[1][1:-1])
		if k == 'symbol':
			return op_tokens(e[1], seen)
		if k == 'terms_or':
			out = []
			for a in e[1]:
				t = expr_tokens(a, seen)
				if t is None:
					return None
				out.extend(t)
			return out
		if k == 'terms':
			outs = ['']
			for a in e[1]:
				t = expr_tokens(a, seen)
				if t is None:
					return None
				outs = [(o + ' ' + x).strip() for o in outs for x in t]
			return outs
		if k == 'expr_rep':
			inner = expr_tokens(e[1][0], seen)
			rep_ = e[1][1]
			if inner is None:
				return None
			if rep_[0] == 'repeat' and rep_[1] == '?':
				return [''] + inner
			if rep_[0] == '__empty__':
				return inner
			return None
		if k == 'expr_opt':
			inner = expr_tokens(e[1][0], seen)
			return None if inner is None else [''] + inner
		return None

	levels = []  # (rule, kind, tokens, depth)
	cur, depth, seen = 'expr', 0, set()
	while cur in rules and cur not in seen:
		seen.add(cur)
		body = rules[cur]
		nxt = None
		if body[0] == 'symbol':
			nxt = body[1]
		elif body[0] == 'terms' and len(body[1]) == 2 and body[1][0][0] == 'expr_rep':
			pre, tail = body[1][0], body[1][1]
			inner, rep_ = pre[1][0], pre[1][1]
			rp = rep_[1] if rep_[0] == 'repeat' else ''
			tail_sym = sym(tail)
			if inner[0] == 'terms':
				parts = inner[1]
				strings = [p[1][1:-1] for p in parts if p[0] == 'string']
				syms = [sym(p) for p in parts]
				if rp == '*' and len(parts) == 2 and syms[0] and syms[1] and tail_sym == syms[0]:
					toks = op_tokens(syms[1])
					levels.append((cur, 'binary', toks, depth))
					nxt = tail_sym
				elif rp == '?' and strings == ['if', 'else'] and len(parts) == 4:
					levels.append((cur, 'ternary', ['if-else'], depth))
					nxt = tail_sym
				elif rp == '?' and strings == [':='] and len(parts) == 2:
					levels.append((cur, 'walrus', [':='], depth))
					nxt = tail_sym
				elif rp == '?' and strings[:1] == ['lambda']:
					levels.append((cur, 'lambda', ['lambda'], depth))
					nxt = tail_sym
			elif inner[0] == 'symbol' and rp == '?':
				toks = op_tokens(inner[1])
				levels.append((cur, 'prefix', toks, depth))
				nxt = tail_sym
		if nxt is None:
			break
		cur = nxt
		depth += 1
	for name, kind, toks, d in levels:
		rs.check(toks is not None and len(toks) > 0, f'{name}:{kind}', (PY_GRAM, line_of.get(name, 1)), f'operator tokens of level {name} could not be read from its op rule')
	if len(levels) < 8:
		raise AnalysisError(f'C11-a: only {len(levels)} ladder levels recognised in py_gram.lark: {[(n, k) for n, k, _, _ in levels]}')
	rs.note('ladder: ' + ' > '.join(f'{n}({k}: {" ".join(t or [])})' for n, k, t, _ in levels))

	prec = python_precedence()
	toks = []
	for name, kind, tl, d in levels:
		for t in tl or []:
			if not t:
				continue
			key = t
			if kind == 'prefix' and t in ('+', '-', '~'):
				key = 'u' + t
			if kind == 'binary' and t in ('+', '-'):
				key = 'b' + t
			if key in prec:
				toks.append((key, d, name))
			else:
				r.note(f'token `{t}` of {name} is not a CPython operator')
	for i, (a, da, na) in enumerate(toks):
		for b, db, nb in toks[i + 1:]:
			key = f'{a}@{na} vs {b}@{nb}'
			if {a, b} == {'lambda', 'if-else'}:
				# CPython lists both at TEST; a lambda body extends as far right as possible, so lambda is the outer (looser) construct
				la = da if a == 'lambda' else db
				lt = db if a == 'lambda' else da
				r.check(la <= lt, key, (PY_GRAM, line_of.get(na, 1)), 'lambda must not bind tighter than the conditional expression')
				continue
			ok = (da < db) == (prec[a] < prec[b]) and (da == db) == (prec[a] == prec[b])
			r.check(ok, key, (PY_GRAM, line_of.get(na if da > db else nb, 1)), f'py_gram.lark puts `{a}` at level {da} ({na}) and `{b}` at level {db} ({nb}) but CPython precedence is {prec[a]} vs {prec[b]}: a sentence mixing them is grouped differently from ast.parse', text.split('\n')[line_of.get(na, 1) - 1])


def rule_b(rep: Report) -> None:
	r = rep.rule('C11/full-consumption', 'SyntaxParser.parse has one return, and it is reached only when the number of consumed tokens equals the number of tokens (else Errors.Syntax)', floor=2)
	idx = SourceIndex()
	m = idx.mod(SYNTAX_PY)
	rep.consulted(SYNTAX_PY)
	f = m.func('SyntaxParser.parse')
	fx = FI(f)
	src_param = f.params()[1] if len(f.params()) > 1 else 'source'
	rets = [n for n in nodes(fx, ast.Return) if n.value is not None]
	r.check(bool(rets), 'returns', f.where, 'parse no longer returns a tree')

	def consumed_all(a: ast.AST) -> bool:
		"""<x>.steps == len(<tokens of the whole source>)"""
		if not (isinstance(a, ast.Compare) and len(a.ops) == 1 and isinstance(a.ops[0], ast.Eq)):
			return False
		sides = [a.left, a.comparators[0]]
		steps = [x for x in sides if isinstance(x, ast.Attribute) and x.attr == 'steps']
		lens = [x for x in sides if isinstance(x, ast.Call) and unparse(x.func) == 'len' and len(x.args) == 1]
		if len(steps) != 1 or len(lens) != 1:
			return False
		toks = lens[0].args[0]
		return isinstance(toks, ast.Call) and unparse(toks.func).endswith('tokenizer.parse') and len(toks.args) == 1 and unparse(toks.args[0]) == src_param

	for ret in rets:
		known = atoms(fx, ret)
		r.check(any(p_ and consumed_all(a) for a, p_ in known), 'guard-dominates-return', f.where, f'parse must return only when the number of consumed tokens equals the number of tokens of the whole source (else raise Errors.Syntax): trailing tokens would be dropped silently (conditions at the return: {[(unparse(a), p_) for a, p_ in known]})', unparse(ret))
	# text the lexer cannot classify is text outside the grammar as well: the tokenizer call sits inside a try that converts any failure into Errors.Syntax
	from vlib.flow import enclosing_tries, handler_raises, handler_types, parent_map, raised_name
	pm_ = parent_map(f.node)
	tok_calls = [c_ for c_ in walk_no_nested(f.node) if isinstance(c_, ast.Call) and unparse(c_.func).endswith('tokenizer.parse')]
	if not tok_calls:
		r.skip('tokenizer-boundary', f.where, 'parse no longer calls self.tokenizer.parse')
	for c_ in tok_calls:
		conv = any(set(handler_types(h)) & {'Exception', 'BaseException'} and any(raised_name(x) == 'Errors.Syntax' for x in handler_raises(h)) for t in enclosing_tries(c_, pm_) for h in t.handlers)
		r.check(conv, 'tokenizer-boundary', (SYNTAX_PY, c_.lineno), '`self.tokenizer.parse(source)` runs outside `except Exception -> raise Errors.Syntax`: a character the lexer cannot classify (backslash, non-ASCII identifier) escapes as AssertionError and a source ending in `-` as IndexError instead of Errors.Syntax', unparse(c_))
	r.check(any(isinstance(n, ast.Raise) and 'Errors.Syntax' in unparse(n) for n in ast.walk(fx)), 'raises-syntax-error', f.where, 'parse no longer raises Errors.Syntax for an incomplete match')
	# the summary names a token of the input: the index handed to ErrorCollector is `len - 1 - peek` with peek the furthest cursor reached (counted from the
	# END, and equal to len(tokens) when the matcher probed one entry before token 0), so it is -1 unless clamped at 0
	from vlib.match import FI as _FI
	pfx = _FI(f)
	ecs = [c_ for c_ in ast.walk(pfx) if isinstance(c_, ast.Call) and unparse(c_.func).endswith('ErrorCollector') and len(c_.args) >= 3]
	if not ecs:
		r.skip('cause-index-in-range', f.where, 'parse no longer builds ErrorCollector(source, tokens, index)')
	for c_ in ecs:
		ix = c_.args[2]
		clamped = isinstance(ix, ast.Call) and unparse(ix.func) == 'max' and any(isinstance(a, ast.Constant) and a.value == 0 for a in ix.args)
		guarded = any(isinstance(a, ast.Compare) and len(a.ops) == 1 and isinstance(a.ops[0], (ast.GtE, ast.Lt, ast.Gt, ast.LtE)) and 'peek' in unparse(a) for a, _ in atoms(pfx, c_))
		uses_peek = any(isinstance(x, ast.Attribute) and x.attr == 'peek' for x in ast.walk(ix))
		if clamped or guarded or not uses_peek:
			r.ok('cause-index-in-range', (SYNTAX_PY, c_.lineno))
		else:
			r.violate('cause-index-in-range', (SYNTAX_PY, c_.lineno), f'parse reports the cause token at index `{unparse(ix)[:80]}` with no lower bound: monitor.peek equals len(tokens) when the matcher has walked back to the first token and probed beyond it (`= b`, `+ b`, `elif b: ...`), so the index is -1 and the summary names the LAST token and line `(0)`, not a token of the rejected position', unparse(c_)[:160])


def rule_c(rep: Report) -> None:
	r = rep.rule('C11/rules-in-sync', 'py_rules.py is the compiled form of py_gram.lark (rule by rule; regexps compared as parsed regular expressions)', floor=60)
	from checks.c12 import _norm
	rep.consulted(PY_RULES)
	left = metagram.read_grammar(_read(PY_GRAM), PY_GRAM)
	right = metagram.read_rules_module(_read(PY_RULES), PY_RULES)
	lr, rr = metagram.rules_of(left), {}
	for x in right[1]:
		rr.setdefault(x[1][0][1], x)
	for name in lr:
		if name not in rr:
			r.violate(name, (PY_RULES, 1), f'rule `{name}` of py_gram.lark is missing from py_rules.py: the engine parses a different grammar than the reviewed one')
			continue
		d = metagram.first_diff(_norm(lr[name]), _norm(rr[name]), name)
		r.check(d is None, name, (PY_GRAM, 1), f'py_gram.lark and py_rules.py disagree at {d}')
	for name in rr:
		if name not in lr:
			r.violate(f'extra:{name}', (PY_RULES, 1), f'py_rules.py defines `{name}`, which py_gram.lark does not')


# ---- (e) repetition bounds per repeat kind ---------------------------------------------------------------------------------------------

def rule_e(rep: Report) -> None:
	"""SyntaxParser._match_repeat is a finite dispatch over Repeators: `*` 0..n, `+` 1..n, `?` 0..1, `[ ]` 0..1 (with an empty placeholder when absent).
	The bounds are recomputed from the code by evaluating every test on `patterns.rep` for each member."""
	r = rep.rule('C11/repeat-bounds', 'for each repeat kind the matcher accepts exactly the documented number of repetitions: * = 0..n, + = 1..n, ? = 0..1, [ ] = 0..1 with an empty placeholder', floor=4)
	idx = SourceIndex()
	m = idx.mod(SYNTAX_PY)
	rm = idx.mod('rogw/tranp/implements/syntax/tranp/rule.py')
	f = m.func('SyntaxParser._match_repeat')
	members = {k: (v.value if isinstance(v, ast.Constant) else None) for k, v in rm.cls('Repeators').class_attrs.items()}
	want = {'*': (0, 'n', False), '+': (1, 'n', False), '?': (0, 1, False)}
	# which member is the [ ] kind: the one ASTSerializer._for_expr_opt uses
	opt = rm.func('ASTSerializer._for_expr_opt')
	opt_member = next((n.attr for n in ast.walk(opt.node) if isinstance(n, ast.Attribute) and isinstance(n.value, ast.Name) and n.value.id == 'Repeators'), None)

	# the function is read with `return self._helper(...)` replaced by the helper's body (the zero-match dispatch may live in a private helper)
	import types
	from vlib.match import merged_function
	try:
		fnode = merged_function(f)
	except RecursionError:
		fnode = fnode
	if not any(isinstance(n, (ast.While, ast.For)) for n in fnode.body):
		fnode = fnode
	# locals assigned at the top level of the function before the loop: name -> expression over patterns.rep (limits, flags)
	limits = {n.targets[0].id: n.value for n in fnode.body if isinstance(n, ast.Assign) and isinstance(n.targets[0], ast.Name)}

	def ev(e: ast.AST, member: str):
		"""evaluate a test over patterns.rep for `member`; None if it involves anything else"""
		if isinstance(e, ast.Compare) and len(e.ops) == 1 and unparse(e.left) == rep_expr:
			rhs = e.comparators[0]
			names = [x.attr for x in (rhs.elts if isinstance(rhs, (ast.List, ast.Tuple)) else [rhs]) if isinstance(x, ast.Attribute)]
			if isinstance(e.ops[0], ast.In):
				return member in names
			if isinstance(e.ops[0], ast.NotIn):
				return member not in names
			if isinstance(e.ops[0], ast.Eq):
				return names == [member]
			if isinstance(e.ops[0], ast.NotEq):
				return names != [member]
		if isinstance(e, ast.Name) and e.id in limits:
			return ev(limits[e.id], member)  # `once = patterns.rep in (...)` before the loop
		if isinstance(e, ast.UnaryOp) and isinstance(e.op, ast.Not):
			v = ev(e.operand, member)
			return None if v is None else (not v)
		if isinstance(e, ast.BoolOp):
			vs = [ev(v, member) for v in e.values]
			if isinstance(e.op, ast.And):
				return False if False in vs else (True if all(v is True for v in vs) else None)
			return True if True in vs else (False if all(v is False for v in vs) else None)
		return None

	loop = next((n for n in fnode.body if isinstance(n, (ast.While, ast.For))), None)
	# the repetition counter: the local incremented by one inside the loop
	counter = next((unparse(n.target) for n in ast.walk(loop) if isinstance(n, ast.AugAssign) and isinstance(n.op, ast.Add) and isinstance(n.value, ast.Constant) and n.value.value == 1), None) if loop is not None else None
	if counter is None and loop is not None:
		# a flag instead of a count: False in front of the loop, set to True after a successful match
		flags = [n.targets[0].id for n in ast.walk(loop) if isinstance(n, ast.Assign) and isinstance(n.targets[0], ast.Name) and isinstance(n.value, ast.Constant) and n.value.value is True]
		counter = next((x for x in flags if any(isinstance(n, ast.Assign) and isinstance(n.targets[0], ast.Name) and n.targets[0].id == x and isinstance(n.value, ast.Constant) and n.value.value is False for n in fnode.body)), None)
	zero = next((n for n in fnode.body if isinstance(n, ast.If) and counter is not None and unparse(n.test) in (f'{counter} == 0', f'not {counter}', f'{counter} < 1', f'0 == {counter}')), None)
	if zero is None and counter is not None:
		# the inverse form: `if <count> > 0: return ...` and the zero case as the rest of the function
		for i_, n in enumerate(fnode.body):
			if isinstance(n, ast.If) and unparse(n.test) in (f'{counter} > 0', f'{counter}', f'{counter} >= 1', f'{counter} != 0', f'0 < {counter}') and not n.orelse and n.body and isinstance(n.body[-1], ast.Return):
				zero = ast.If(test=n.test, body=fnode.body[i_ + 1:], orelse=[])
	if loop is None or zero is None:
		r.skip('shape', f.where, '_match_repeat no longer has the shape `loop: match, count; ... if <count> == 0: ...`')
		r.floor = 1
		return
	rep_expr = next((unparse(e.left) for e in ast.walk(fnode) if isinstance(e, ast.Compare) and isinstance(e.left, ast.Attribute) and e.left.attr == 'rep'), 'patterns.rep')
	found = counter

	def max_reps(member: str):
		# a break at the end of the body whose guard is true for this member
		for s_ in loop.body:
			if isinstance(s_, ast.If) and any(isinstance(x, ast.Break) for x in s_.body) and ev(s_.test, member) is True:
				return 1
		# loop test `found < limit`
		for c in ast.walk(loop.test):
			if isinstance(c, ast.Compare) and unparse(c.left) == found and isinstance(c.ops[0], ast.Lt) and isinstance(c.comparators[0], ast.Name) and c.comparators[0].id in limits:
				lv = limits[c.comparators[0].id]
				if isinstance(lv, ast.IfExp):
					t = ev(lv.test, member)
					val = lv.body if t is True else (lv.orelse if t is False else None)
					if isinstance(val, ast.Constant):
						return val.value
					return 'n' if val is not None else None
				if isinstance(lv, ast.Constant):
					return lv.value
		return 'n'

	def min_reps(member: str):
		"""(minimum repetitions, empty placeholder?) from the zero-match part: an if/elif/else chain, or a sequence of `if ...: return` statements ending
		in a plain return"""
		def verdict(stmts: list[ast.stmt]):
			ret = next((x for x in ast.walk(ast.Module(body=stmts, type_ignores=[])) if isinstance(x, ast.Return)), None)
			src = unparse(ret.value) if ret else ''
			return (0, 'empty()' in src) if 'Step.ok' in src else (1, False)

		def walk(stmts: list[ast.stmt]):
			for st in stmts:
				if isinstance(st, ast.If):
					t = ev(st.test, member)
					if t is None:
						return None
					if t is True:
						inner = walk(st.body)
						return inner if inner is not None else None
					if st.orelse:
						inner = walk(st.orelse)
						if inner is not None:
							return inner
						if any(isinstance(x, ast.Return) for x in ast.walk(ast.Module(body=st.orelse, type_ignores=[]))):
							return None
					continue
				if isinstance(st, ast.Return):
					return verdict([st])
				if isinstance(st, (ast.Expr, ast.Assign, ast.AnnAssign, ast.Pass)):
					continue
				return None
			return None
		return walk(zero.body)

	from vlib.match import atoms
	before = fnode.body[:fnode.body.index(loop)]
	early = [x for st in before for x in ast.walk(st) if isinstance(x, ast.Return) and x.value is not None]
	for member, sym in members.items():
		if member == 'NoRepeat' or sym is None:
			continue
		exp = want.get(sym)
		if member == opt_member:
			exp = (0, 1, True)
		if exp is None:
			r.undecided(f'{member}', f.where, f'unknown repeat kind {member} = {sym!r}')
			continue
		mn = min_reps(member)
		mx = max_reps(member)
		if mn is None or mx is None:
			r.skip(f'{member}', f.where, f'cannot evaluate the bounds of {member}')
			continue
		got = (mn[0], mx, mn[1])
		# an exit in front of the loop (`if <nothing left>: return ...`) is a zero-match exit too: what it returns for this member must be what the
		# zero-match dispatch returns — `[x]` without its placeholder shifts every later child of the tree by one
		for ret in early:
			reach = True
			for a_, pol_ in atoms(fnode, ret):
				t_ = ev(a_, member)
				if t_ is not None and t_ != pol_:
					reach = False
			if not reach:
				continue
			val = ret.value
			hops = 0
			while isinstance(val, ast.IfExp) and hops < 4:
				t_ = ev(val.test, member)
				if t_ is None:
					break
				val = val.body if t_ else val.orelse
				hops += 1
			if val is None or isinstance(val, ast.IfExp):
				r.skip(f'{member}:early-exit', (SYNTAX_PY, ret.lineno), f'cannot evaluate the early exit `{unparse(ret)[:80]}` for {member}')
				continue
			src_ = unparse(val)
			ev_got = (0, 'empty()' in src_) if 'Step.ok' in src_ else (1, False)
			r.check(ev_got == (exp[0], exp[2]), f'{member} ({sym}):early-exit', (SYNTAX_PY, ret.lineno), f'_match_repeat leaves in front of the loop with `{src_[:70]}` for repeat kind {member} (`{sym}`{" / [ ]" if member == opt_member else ""}): min {ev_got[0]}, empty placeholder {ev_got[1]}, while no match means min {exp[0]}, placeholder {exp[2]} for this kind — an omitted `[x]` at the very start of the text loses its `__empty__` child and every later child of that tree moves up by one', unparse(ret)[:160])
		r.check(got == exp, f'{member} ({sym})', f.where, f'repeat kind {member} (`{sym}`{" / [ ]" if member == opt_member else ""}) accepts min {got[0]}, max {got[1]} repetitions (empty placeholder: {got[2]}); the meta-grammar means min {exp[0]}, max {exp[1]} (placeholder: {exp[2]}): text that repeats an optional group (e.g. `f(a b)`) would be accepted', unparse(loop)[:160])


# ---- (h) unwrap markers ---------------------------------------------------------------------------------------------------------------

def rule_h(rep: Report) -> None:
	"""`sym[1]` replaces a child tree by its only child when it has exactly ONE child, `sym[*]` splices all children, anything else is kept. The count is
	over ALL children of the tree, the `__empty__` placeholders of omitted `[ ]` groups included: `lambda[1] := ("lambda" [var_names] ":")? ternary`
	with an empty parameter list has the children (__empty__, body) and must stay a lambda; counting (or splicing) a filtered list turns `lambda: x`
	into `x`. Decided on SyntaxParser._unwrap_children: what is put into the result per arm, and under which conditions."""
	from vlib.match import FI, atoms, expand_use, nodes
	r = rep.rule('C11/unwrap-markers', '_unwrap_children: under the one-time marker a child tree is replaced by child.children[0] only if len(child.children) == 1 counted over all children; under the always marker all of child.children are spliced; otherwise the child itself is kept', floor=3)
	idx = SourceIndex()
	m = idx.mod(SYNTAX_PY)
	f = m.func('SyntaxParser._unwrap_children')
	if f is None:
		r.skip('_unwrap_children', (SYNTAX_PY, 1), 'SyntaxParser._unwrap_children vanished')
		r.floor = 1
		return
	fx = f.node
	loops = [lp for lp in nodes(fx, ast.For) if isinstance(lp.target, ast.Name)]
	if len(loops) != 1:
		r.skip('_unwrap_children', f.where, 'not one loop over the children')
		r.floor = 1
		return
	cv = loops[0].target.id
	kids = f'{cv}.children'
	n_sites = 0
	for c_ in nodes(loops[0], ast.Call):
		if not (isinstance(c_.func, ast.Attribute) and c_.func.attr in ('append', 'extend') and len(c_.args) == 1):
			continue
		val = expand_use(fx, c_.args[0])
		txt = unparse(val)
		known = [(expand_use(fx, a), p_) for a, p_ in atoms(fx, c_)]
		marker = next((x.attr for a, p_ in known if p_ and isinstance(a, ast.Compare) and isinstance(a.ops[0], ast.Eq) for x in ast.walk(a) if isinstance(x, ast.Attribute) and isinstance(x.value, ast.Name) and x.value.id == 'Unwraps'), None)
		key = f'{c_.func.attr}({unparse(c_.args[0])[:40]})'
		where = (SYNTAX_PY, c_.lineno)
		n_sites += 1
		if txt == cv:
			r.ok(f'keep:{key}', where)
			continue
		if kids not in txt:
			r.skip(key, where, f'value `{txt[:60]}` is neither the child nor built from {kids}')
			continue
		whole = txt == kids and c_.func.attr == 'extend'
		first = txt == f'{kids}[0]' and c_.func.attr == 'append' or (txt in (f'{kids}[:1]', kids) and c_.func.attr == 'extend')
		if marker == 'Always':
			r.check(whole, f'always:{key}', where, f'under the always marker _unwrap_children adds `{txt[:80]}` instead of splicing all of {kids}: children (among them the placeholders that keep the positions of omitted optional parts) are lost or reordered', unparse(c_))
			continue
		if marker != 'OneTime':
			r.skip(key, where, f'children of the child are spliced under conditions that name no unwrap marker: {[unparse(a)[:50] for a, _ in known]}')
			continue
		lens = [a for a, p_ in known if p_ and isinstance(a, ast.Compare) and len(a.ops) == 1 and isinstance(a.ops[0], ast.Eq) and any(isinstance(x, ast.Call) and isinstance(x.func, ast.Name) and x.func.id == 'len' for x in ast.walk(a))]
		if not lens:
			r.violate(f'one-time:{key}', where, f'the one-time unwrap is not conditioned on the number of children: a tree with several children loses all but the spliced ones', unparse(c_))
			continue
		a = lens[0]
		side, other = (a.left, a.comparators[0]) if isinstance(a.left, ast.Call) else (a.comparators[0], a.left)
		counted = unparse(side.args[0]) if isinstance(side, ast.Call) and side.args else '?'
		if counted != kids:
			r.violate(f'one-time:{key}', where, f'the one-time unwrap counts `{counted[:90]}` instead of all of {kids}: a tree whose other children are placeholders of omitted optional parts (`lambda: x` = (__empty__, body) under `lambda[1]`) is replaced by its one real child, so the lambda disappears from the tree', unparse(a))
		elif not (isinstance(other, ast.Constant) and other.value == 1):
			r.violate(f'one-time:{key}', where, f'the one-time unwrap applies when `{unparse(a)}`; the marker means exactly one child', unparse(a))
		elif not first:
			r.violate(f'one-time:{key}', where, f'the one-time unwrap adds `{txt[:80]}` instead of the only child {kids}[0]', unparse(c_))
		else:
			r.ok(f'one-time:{key}', where)
	if n_sites == 0:
		r.skip('_unwrap_children', f.where, 'no append / extend in the loop')


def rule_i(rep: Report) -> None:
	"""every derivable sentence is consumed: the lexer's sign / subtraction decision for `-` must say "sign" in front of every operand the grammar allows
	after op_unary (the rule and its FIRST-set computation live in checks/c13.py; the obligation is C11's as much as C13's)"""
	from checks import c13
	c13.rule_unary_minus(rep, SourceIndex(), 'C11/unary-minus-covers-every-operand-start')


def rule_j(rep: Report) -> None:
	"""The matcher reads the token list from its end: the token at cursor c is tokens[len(tokens) - 1 - c], so a token is available exactly when
	d = len(tokens) - c >= 1. Two guards compare the cursor with the length: the loop condition of _match_repeat (must hold whenever a token is
	available at cursor + steps, or the first tokens of a source can never be taken by a repeat) and the early `no match` of _match_terminal (must hold
	exactly when no token is available: too narrow wraps to a negative index and reads a token a second time, too wide loses the first token). Both are
	decided on the linear normal form of the comparison after expanding single-assignment locals and one-line helpers."""
	import copy
	from vlib.linear import linear
	from vlib.match import inline_simple_calls
	r = rep.rule('C11/cursor-guards-admit-every-token', 'with the token at cursor c being tokens[len(tokens) - 1 - c]: the loop of _match_repeat continues whenever len(tokens) - cursor - steps >= 1, and _match_terminal refuses exactly when len(tokens) - cursor < 1', floor=2)
	idx = SourceIndex()
	m = idx.mod(SYNTAX_PY)

	def expand(f, e: ast.AST) -> ast.AST:
		e = inline_simple_calls(f, e)
		for _ in range(3):
			changed = False
			class T(ast.NodeTransformer):
				def visit_Name(self, n: ast.Name):
					nonlocal changed
					stores = [s for s in ast.walk(f.node) if isinstance(s, ast.Name) and s.id == n.id and isinstance(s.ctx, ast.Store)]
					defs = [a for a in ast.walk(f.node) if isinstance(a, (ast.Assign, ast.AnnAssign)) and a.value is not None and any(isinstance(t, ast.Name) and t.id == n.id for t in (a.targets if isinstance(a, ast.Assign) else [a.target]))]
					if len(stores) == 1 and len(defs) == 1 and isinstance(n.ctx, ast.Load):
						changed = True
						return inline_simple_calls(f, copy.deepcopy(defs[0].value))
					return n
			e = T().visit(copy.deepcopy(e))
			if not changed:
				break
		return e

	def truth(f, test: ast.AST, steps_names: set[str]):
		"""function d -> bool for a comparison over len(tokens), context.cursor and the step counter; None when not of that form"""
		test = expand(f, test)
		if not (isinstance(test, ast.Compare) and len(test.ops) == 1):
			return None
		terms, const = linear(ast.BinOp(test.left, ast.Sub(), test.comparators[0]))
		k = terms.get('len(tokens)', 0)
		if k not in (1, -1) or terms.get('context.cursor', 0) != -k:
			return None
		rest = {a: v for a, v in terms.items() if a not in ('len(tokens)', 'context.cursor')}
		if any(a not in steps_names or v != -k for a, v in rest.items()) or (steps_names and not rest):
			return None
		op = type(test.ops[0])
		cmpf = {ast.Lt: lambda v: v < 0, ast.LtE: lambda v: v <= 0, ast.Gt: lambda v: v > 0, ast.GtE: lambda v: v >= 0, ast.Eq: lambda v: v == 0, ast.NotEq: lambda v: v != 0}.get(op)
		if cmpf is None:
			return None
		return lambda d: cmpf(k * d + const)

	# --- the repeat loop
	f = m.func('SyntaxParser._match_repeat')
	loop = next((n for n in f.node.body if isinstance(n, ast.While)), None) if f else None
	if f is None or loop is None:
		r.skip('_match_repeat', (SYNTAX_PY, 1), 'SyntaxParser._match_repeat has no while loop at its top level')
	else:
		counters = {unparse(n.target) for n in ast.walk(loop) if isinstance(n, ast.AugAssign) and isinstance(n.op, ast.Add) and not isinstance(n.value, ast.Constant)}
		if isinstance(loop.test, ast.Constant) and loop.test.value is True:
			r.ok('_match_repeat:loop', (SYNTAX_PY, loop.lineno), message='unbounded loop, ended by the first failed match')
		else:
			conj = loop.test.values if isinstance(loop.test, ast.BoolOp) and isinstance(loop.test.op, ast.And) else [loop.test]
			fs = [(c, truth(f, c, counters)) for c in conj if 'tokens' in unparse(expand(f, c)) or 'cursor' in unparse(expand(f, c))]
			if not fs or any(t is None for _, t in fs):
				r.skip('_match_repeat:loop', (SYNTAX_PY, loop.lineno), f'loop condition `{unparse(loop.test)[:100]}` is not a linear comparison of len(tokens), context.cursor and the step counter {sorted(counters)}')
			else:
				bad = [d for d in range(1, 6) if not all(t(d) for _, t in fs)]
				r.check(not bad, '_match_repeat:loop', (SYNTAX_PY, loop.lineno), f'the repeat loop `while {unparse(loop.test)[:100]}` stops although {bad[0] if bad else "?"} token(s) are still unread at cursor + steps (token index len(tokens) - 1 - cursor - steps = {bad[0] - 1 if bad else "?"}): a `*` / `+` / `?` / `[ ]` part can never take the first token(s) of the source, so e.g. the first statement of a file, or a decorator list at the top, fails to parse or is parsed differently', unparse(expand(f, loop.test))[:200])

	# --- the terminal guard
	g = m.func('SyntaxParser._match_terminal')
	guard = next((n for n in g.node.body if isinstance(n, ast.If) and n.body and isinstance(n.body[-1], ast.Return) and 'Step.ng' in unparse(n.body[-1]) and ('tokens' in unparse(expand(g, n.test)) or 'cursor' in unparse(expand(g, n.test)))), None) if g else None
	if g is None or guard is None:
		r.skip('_match_terminal', (SYNTAX_PY, 1), 'SyntaxParser._match_terminal has no early `return Step.ng()` guarded by a comparison of the cursor with the token count')
	else:
		t = truth(g, guard.test, set())
		if t is None:
			r.skip('_match_terminal:guard', (SYNTAX_PY, guard.lineno), f'guard `{unparse(guard.test)[:100]}` is not a linear comparison of len(tokens) and context.cursor')
		else:
			lost = [d for d in range(1, 6) if t(d)]
			wrap = [d for d in range(-4, 1) if not t(d)]
			r.check(not lost and not wrap, '_match_terminal:guard', (SYNTAX_PY, guard.lineno), (f'the guard `{unparse(guard.test)[:80]}` refuses a match although {lost[0]} token(s) remain (the first token(s) of the source are unreachable)' if lost else f'the guard `{unparse(guard.test)[:80]}` lets cursor = len(tokens) + {-wrap[-1] if wrap else 0} through: the index len(tokens) - 1 - cursor is negative and tokens[...] wraps round to the END of the list, so an already consumed token is matched again'), unparse(expand(g, guard.test))[:200])


def rule_k(rep: Report) -> None:
	"""A pattern group is (entries, operator, repeat): `a | b` and `a b` have the same entries and differ in the operator only. Wherever the engine builds
	a group FROM the entries of another group (flattening a bracketed group into the repeat around it, cloning, rewriting) the operator has to travel
	with the entries; `Patterns(inner.entries, rep=rep)` silently turns the OR group `(name "=" | packing)?` of the argument rule into the sequence
	`(name "=" packing)?`: every call with a keyword or packed argument is rejected and `f(k=*a)` is accepted."""
	r = rep.rule('C11/regrouped-entries-keep-their-operator', 'every Patterns(...) built from `<group>.entries` in the engine package passes that group\'s operator along (op=<group>.op)', floor=0)
	idx = SourceIndex()

	def sites(fn_node: ast.AST):
		for c_ in walk_no_nested(fn_node):
			if not (isinstance(c_, ast.Call) and unparse(c_.func) in ('Patterns', 'cls', 'self.__class__') and c_.args):
				continue
			donors = {unparse(x.value) for x in ast.walk(c_.args[0]) if isinstance(x, ast.Attribute) and x.attr == 'entries'}
			if not donors:
				continue
			op_arg = c_.args[1] if len(c_.args) > 1 else next((kw.value for kw in c_.keywords if kw.arg == 'op'), None)
			yield c_, donors, op_arg, op_arg is not None and any(unparse(op_arg) == f'{d}.op' for d in donors)

	# the expected number of sites on today's tree is zero: the recogniser is exercised on a positive example on every run
	fixture = ast.parse('def _enclosed(inner, rep):\n\ta = Patterns(inner.entries, rep=rep)\n\tb = Patterns(inner.entries, op=inner.op, rep=rep)\n').body[0]
	if sorted(ok for _, _, _, ok in sites(fixture)) != [False, True]:
		raise AnalysisError('C11/regrouped-entries-keep-their-operator: the recogniser no longer tells the two forms of its positive example apart')
	n_ = 0
	for rel in ('rogw/tranp/implements/syntax/tranp/rule.py', SYNTAX_PY):
		m = idx.mod(rel)
		for q, f in m.functions.items():
			if '#' in q:
				continue
			for c_, donors, op_arg, ok in sites(f.node):
				n_ += 1
				r.check(ok, f'{q}:{unparse(c_)[:40]}', (rel, c_.lineno), f'`{unparse(c_)[:80]}` takes the entries of {sorted(donors)} but not its operator' + (f' (op is `{unparse(op_arg)}`)' if op_arg is not None else ' (the default is AND)') + ': an OR group regrouped this way becomes a sequence — `arg := (name "=" | packing)? expr` is restored as `(name "=" packing)? expr`, so `f(k=1)`, `f(*a)`, `f(**d)` no longer parse and `f(k=*a)` does', unparse(c_)[:100])
	if n_ == 0:
		r.ok('no-regrouping', None, message='no Patterns(...) is built from the entries of another group')
