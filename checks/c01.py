"""C01 — transpiled C++ behaves like the Python source: structural necessary conditions
(a precedence compatibility, b template/helper existence, c handler<->props (see C09), d scope containment anchored,
e dunder -> C++ operator table, f i18n keys exist)."""
from __future__ import annotations

import ast
import os

from vlib.anchoring import Taint, find_sites
from vlib.core import REPO, AnalysisError, Report
from vlib.flow import parent_map
from vlib.grammar import GrammarModel, ladder
from vlib.nodemodel import NodeModel
from vlib.opforms import handler_forms
from vlib.precedence import CPP_PASTE, CPP_PREC
from vlib.py2cpp_model import PY2CPP, Py2CppModel
from vlib.srcindex import SourceIndex, attr_chain, const_str, unparse, walk_no_nested
from vlib.templates import TemplateModel

EXPLANATION = (
	'Necessary conditions of "same value, every expression grouped the way Python groups it, never rejected" that are visible in the source: '
	'(a) for every parent/child operator pair the grammar lets through without parentheses, the C++ operators Py2Cpp emits (read from the handlers and the Jinja ASTs of operation/*.j2) are '
	'order-compatible with Python, or the handler/template wraps that operand in parentheses; prefix operators are not pasted into ++/--; '
	'(b) every template name a render call site can resolve to exists and parses, and every helper function/filter a template calls is registered; '
	'(c) handler parameters equal the node properties (same rule as C09-b, evaluated for Py2Cpp); (d) scope containment tests are element-anchored; '
	'(e) the special-method -> C++ operator table maps each dunder to the token CPython dispatches to it; (f) every i18n(module, local) key a template prints exists in data/i18n.yml. '
	'Equality of run-time values and acceptance by a C++20 compiler are not decided.'
)
ASSUMPTIONS = ['ISO C++ operator precedence is a frozen 17-level table (vlib/precedence.py)', 'the grammar ladder is the Python side of rule (a); its agreement with CPython is C02-a',
	'rule (a) covers operator nodes; operands of postfix-shaped slots rely on the type-directed exclusion that is recomputed from the stub library']
TRUSTED_BASE = ['CPython ast', 'lark grammar compiler and jinja2 parser as readers of data files', 'PyYAML as reader of data/i18n.yml', 'frozen ISO C++ precedence table']

JINJA_BUILTIN_FILTERS = None


def run(rep: Report, tier: str) -> None:
	idx = SourceIndex()
	pm = Py2CppModel(idx)
	tm = TemplateModel()
	nm = NodeModel(idx)
	gm = GrammarModel()
	rep.consulted(PY2CPP, gm.relpath, *[tm.relpath(n) for n in tm.sources], *nm.files())
	rule_a(rep, idx, pm, tm, nm, gm)
	rule_b(rep, idx, pm, tm)
	rule_c(rep, idx, pm, nm)
	rule_d(rep, idx, tier)
	rule_e(rep, idx)
	rule_f(rep, idx, pm, tm)
	rule_g(rep, idx, pm)
	rule_chain(rep, idx, pm)
	rule_primary_closed(rep, tm)
	rule_comparison_chain(rep, idx, pm, gm)
	rule_keyword_arguments(rep, idx, pm, tm)
	rule_len_signed(rep, tm)
	rule_slice_keys(rep, tm, pm)
	rule_group_parens(rep, pm, tm)
	rule_range_arguments(rep, pm, tm)
	rule_initializer_conversion(rep, pm)
	rule_fill_list_roles(rep, pm)
	rule_string_requoted(rep, idx, pm, tm)
	rule_declaration_merge(rep, idx)
	rule_capture_list(rep, idx)
	rule_decorator_decisions(rep, idx, pm)
	rule_constructor_hoisting(rep, idx, pm)
	rule_enumerate_index(rep, tm)
	rule_range_bound_closed(rep, idx, pm, tm, nm)
	rule_comment_line(rep, tm)
	rule_exception_aliases(rep, idx)
	from checks import c17
	c17.rule_member_refs_only(rep, idx, 'C01/only-member-references-are-literalised')


# ---- (a) precedence ---------------------------------------------------------------------------------------------------

def _wraps(pm: Py2CppModel, nm: NodeModel, idx: SourceIndex) -> list[tuple[set[str], set[str], str]]:
	"""(parent classifications, wrapped child class names, where) for every conditional parenthesisation keyed on a child node class:
	`f'({x})' if isinstance(<child>, <classes>) else x` (also inside comprehensions), scoped by the handler or an enclosing `if isinstance(node, defs.P)`"""
	out = []
	from vlib.flow import parent_map

	def classes_of(expr: ast.AST, f) -> set[str]:
		names = []
		if isinstance(expr, ast.Tuple):
			for e in expr.elts:
				names.append(attr_chain(e))
		elif isinstance(expr, ast.Name):
			# local bound to a tuple of classes
			for n in walk_no_nested(f.node):
				tgt = n.targets[0] if isinstance(n, ast.Assign) and len(n.targets) == 1 else n.target if isinstance(n, ast.AnnAssign) and n.value is not None else None
				if isinstance(tgt, ast.Name) and tgt.id == expr.id:
					return classes_of(n.value, f)
			names.append(expr.id)
		else:
			names.append(attr_chain(expr))
		res: set[str] = set()
		for nme in names:
			if not nme:
				continue
			base = nm.by_name.get(nme.split('.')[-1])
			if base is None:
				continue
			for c in nm.classes:
				if base in idx.mro(c):
					res.add(c.name)
		return res

	from vlib.match import X, atoms, concat_parts
	from vlib.nodemodel import snakelize
	for name, f in pm.methods.items():
		fx = X(f)
		node_param = f.params()[1] if len(f.params()) > 1 else 'node'
		for n in ast.walk(fx):
			if not isinstance(n, (ast.JoinedStr, ast.BinOp)):
				continue
			parts = concat_parts(n)
			if not (len(parts) == 3 and parts[0] == ('const', '(') and parts[2] == ('const', ')') and parts[1][0] == 'expr'):
				continue
			child_classes: set[str] = set()
			parents: set[str] = set()
			for a, pol in atoms(fx, n):
				if pol and isinstance(a, ast.Call) and isinstance(a.func, ast.Name) and a.func.id == 'isinstance' and len(a.args) == 2:
					if unparse(a.args[0]) == node_param:
						parents |= {snakelize(x) for x in classes_of(a.args[1], f)}
					else:
						child_classes |= classes_of(a.args[1], f)
			if not child_classes:
				continue
			if not parents:
				parents = {name[3:]} if name.startswith('on_') else pm.classifications_reaching(name)
			# the class test and the text that gets the parentheses must speak about the SAME operand: where they are drawn from two sequences
			# (a comprehension / loop over the operands), the sequences have to be position-aligned
			tested = next((a.args[0] for a, pol in atoms(fx, n) if pol and isinstance(a, ast.Call) and isinstance(a.func, ast.Name) and a.func.id == 'isinstance' and len(a.args) == 2 and unparse(a.args[0]) != node_param), None)
			misaligned = _unaligned(pm, f, fx, n, parts[1][1], tested, node_param) if tested is not None else None
			if misaligned:
				UNALIGNED_WRAPS.append((parents, child_classes, f'{f.qualname}:{n.lineno}', misaligned))
				continue
			out.append((parents, child_classes, f'{f.qualname}:{n.lineno}'))
	return out


UNALIGNED_WRAPS: list = []


def _unaligned(pm: Py2CppModel, f, fx: ast.AST, wrap: ast.AST, text: ast.AST, tested: ast.AST, node_param: str, depth: int = 0) -> str | None:
	"""None when the tested node and the wrapped text are the same operand; else why not. Scalar pairings (`node.value` / `value`) are taken as they
	are; a pairing through two sequences A (nodes) and B (texts) is aligned when B is A with `node.<prop>` replaced by the handler parameter `<prop>` —
	the protocol of Procedure hands a handler the results of `node.<prop>` under that name, in the same order."""
	from vlib.flow import parent_map
	from vlib.match import X, deref
	import copy
	pm_ = parent_map(fx)
	# the enclosing comprehension / for loop that binds both names
	seqs = None
	cur = wrap
	names = {x.id for x in ast.walk(text) if isinstance(x, ast.Name)} | {x.id for x in ast.walk(tested) if isinstance(x, ast.Name)}
	while id(cur) in pm_ and seqs is None:
		cur = pm_[id(cur)]
		gens = cur.generators if isinstance(cur, (ast.ListComp, ast.GeneratorExp, ast.SetComp, ast.DictComp)) else ([cur] if isinstance(cur, ast.For) else [])
		for g in gens:
			tnames = [x.id for x in ast.walk(g.target) if isinstance(x, ast.Name)]
			if not (set(tnames) & names):
				continue
			it = g.iter
			if isinstance(it, ast.Name):
				it = deref(fx, it)
			if isinstance(it, ast.Call) and unparse(it.func) == 'list' and len(it.args) == 1:
				it = it.args[0]
			if isinstance(it, ast.Call) and unparse(it.func) == 'zip' and len(it.args) == 2 and isinstance(g.target, ast.Tuple) and len(g.target.elts) == 2 and all(isinstance(e, ast.Name) for e in g.target.elts):
				a_, b_ = it.args
				if unparse(tested) == g.target.elts[1].id and unparse(text) == g.target.elts[0].id:
					a_, b_ = b_, a_
				elif not (unparse(tested) == g.target.elts[0].id and unparse(text) == g.target.elts[1].id):
					return f'`{unparse(tested)}` / `{unparse(text)}` are not the two targets of `{unparse(g.target)} in {unparse(it)[:60]}`'
				seqs = (a_, b_)
			elif isinstance(it, ast.Call) and unparse(it.func) == 'enumerate' and len(it.args) == 1 and isinstance(g.target, ast.Tuple) and len(g.target.elts) == 2 and all(isinstance(e, ast.Name) for e in g.target.elts):
				i_, v_ = g.target.elts[0].id, g.target.elts[1].id
				if unparse(text) == v_ and isinstance(tested, ast.Subscript) and unparse(tested.slice) == i_:
					seqs = (tested.value, it.args[0])
				elif unparse(tested) == v_ and isinstance(text, ast.Subscript) and unparse(text.slice) == i_:
					seqs = (it.args[0], text.value)
				else:
					return f'`{unparse(tested)}` / `{unparse(text)}` are not indexed by the counter of `{unparse(g.target)} in {unparse(it)[:60]}`'
			elif isinstance(g.target, ast.Name) and isinstance(tested, ast.Subscript) and isinstance(text, ast.Subscript) and unparse(tested.slice) == unparse(text.slice) == g.target.id:
				seqs = (tested.value, text.value)
	if seqs is None:
		return None  # scalar pairing
	a_, b_ = seqs

	def expand(e: ast.AST, depth_: int = 0, own=f, body=fx) -> ast.AST:
		class T(ast.NodeTransformer):
			def visit_Name(self, x: ast.Name):
				if not isinstance(x.ctx, ast.Load) or x.id in own.params() or depth_ > 4:
					return x
				d_ = deref(body, x)
				return expand(d_, depth_ + 1, own, body) if d_ is not x else x
		return T().visit(copy.deepcopy(e))

	def to_text_side(e: ast.AST) -> ast.AST:
		class T(ast.NodeTransformer):
			def visit_Attribute(self, x: ast.Attribute):
				if isinstance(x.value, ast.Name) and x.value.id == node_param:
					return ast.Name(id=x.attr, ctx=ast.Load())
				return self.generic_visit(x)
		return T().visit(copy.deepcopy(e))
	ea, eb = expand(a_), expand(b_)
	if unparse(to_text_side(ea)) == unparse(to_text_side(eb)) and unparse(ea) != unparse(eb):
		return None
	# both sequences are parameters of a helper: aligned when every call passes aligned arguments
	params = f.params()
	if isinstance(a_, ast.Name) and isinstance(b_, ast.Name) and a_.id in params and b_.id in params and depth < 2:
		ia, ib = params.index(a_.id) - 1, params.index(b_.id) - 1
		sites = [(g, X(g), c_) for g in pm.methods.values() for c_ in ast.walk(X(g)) if isinstance(c_, ast.Call) and isinstance(c_.func, ast.Attribute) and c_.func.attr == f.name and isinstance(c_.func.value, ast.Name) and c_.func.value.id == 'self']
		if not sites:
			return f'helper {f.name} is never called'
		for g, gx, c_ in sites:
			if max(ia, ib) >= len(c_.args):
				return f'call `{unparse(c_)[:80]}` does not pass both sequences positionally'
			gp = g.params()[1] if len(g.params()) > 1 else 'node'

			def expand_g(e: ast.AST) -> ast.AST:
				return expand(e, 0, g, gx)

			def to_text_g(e: ast.AST) -> ast.AST:
				class T(ast.NodeTransformer):
					def visit_Attribute(self, x: ast.Attribute):
						if isinstance(x.value, ast.Name) and x.value.id == gp:
							return ast.Name(id=x.attr, ctx=ast.Load())
						return self.generic_visit(x)
				return T().visit(copy.deepcopy(e))
			xa, xb = expand_g(c_.args[ia]), expand_g(c_.args[ib])
			if not (unparse(to_text_g(xa)) == unparse(to_text_g(xb)) and unparse(xa) != unparse(xb)):
				return f'{g.name} calls {f.name}({unparse(c_.args[ia])[:40]}, {unparse(c_.args[ib])[:40]}): the node sequence `{unparse(xa)[:70]}` and the text sequence `{unparse(xb)[:70]}` are not the same selection of operands'
		return None
	return f'the node sequence `{unparse(ea)[:70]}` and the text sequence `{unparse(eb)[:70]}` are not the same selection of operands'


def rule_a(rep, idx, pm, tm, nm, gm) -> None:
	r = rep.rule('C01/precedence-compatible', 'for every (parent operator, un-parenthesised child operator) pair the grammar allows: emitted C++ operators keep the Python grouping, or the operand is wrapped in parentheses', floor=150)
	rp = rep.rule('C01/no-token-pasting', 'a prefix operator template without separator never pastes with an operand that starts with an operator into another C++ token (--a, ++a)', floor=9)
	rs = rep.rule('C01/same-level-consistent', 'operators Python puts on one level and that are rendered as open C++ infix operators share one C++ level (comparison chains are reported only)', floor=5)
	levels = ladder(gm)
	if len(levels) < 11:
		raise AnalysisError(f'C01-a: operator ladder of data/grammar.lark has only {len(levels)} levels (expected >= 11)')
	t2c = nm.tag_to_classes()
	prods = gm.productions()
	UNALIGNED_WRAPS.clear()
	wraps = _wraps(pm, nm, idx)
	info: dict[str, dict] = {}
	for lv in levels:
		classes = t2c.get(lv.tag, [])
		if len(classes) != 1:
			r.undecided(f'level {lv.tag}', (gm.relpath, 1), f'operator tag {lv.tag} maps to {len(classes)} node classes')
			continue
		cls = classes[0]
		hname = f'on_{nm.classification(cls)}'
		h = pm.handlers.get(hname)
		if h is None:
			r.violate(f'handler {hname}', (PY2CPP, 1), f'no Py2Cpp handler {hname} for operator tag {lv.tag}')
			continue
		toks = ['if-else'] if lv.kind == 'ternary' else [t.replace(' ', '.') for t in lv.tokens if _cpython_accepts(t, lv.kind)]
		skipped = [t for t in lv.tokens if lv.kind != 'ternary' and not _cpython_accepts(t, lv.kind)]
		if skipped:
			r.note(f'level {lv.tag}: tokens {skipped} are accepted by the grammar but not by CPython (outside the property\'s domain)')
		forms = {}
		for t in toks:
			fs, problems = handler_forms(pm, tm, h, t)
			for p in problems:
				r.undecided(f'{hname}:{t}', h.where, p)
			if not fs:
				r.undecided(f'{hname}:{t}', h.where, f'no rendering form found for token {t}')
			forms[t] = fs
		info[lv.tag] = {'level': lv, 'cls': cls, 'handler': h, 'forms': forms}
	rep.extra_coverage['operator_forms'] = {tag: {t: [f'{f.kind}:{f.cpp or f.pattern[:40]}' for f in fs] for t, fs in d['forms'].items()} for tag, d in info.items()}
	rep.extra_coverage['handler_wraps'] = [f'{sorted(p)} wraps {sorted(c)} at {w}' for p, c, w in wraps]

	def wrapped(parent_tag: str, child_cls_name: str) -> bool:
		pc = nm.classification(info[parent_tag]['cls'])
		return any(pc in ps and child_cls_name in cs for ps, cs, _ in wraps)

	def cpp_prec_of(form) -> int | None:
		if form.kind == 'infix':
			return CPP_PREC.get(form.cpp)
		if form.kind == 'prefix':
			return CPP_PREC.get('u' + form.cpp)
		if form.kind == 'ternary':
			return CPP_PREC['?:']
		return None

	for ptag, pd in info.items():
		child_tags = gm.child_tags(ptag)
		# slot positions: first slot = left operand; the rest = right operands
		for ctag, cd in info.items():
			if ctag not in child_tags:
				continue
			first_slot_tags = set()
			later_tags = set()
			for p in prods.get(ptag, []):
				if p:
					first_slot_tags |= set(p[0].tags)
				for s in p[1:]:
					later_tags |= set(s.tags)
			for pt, pforms in pd['forms'].items():
				for ct, cforms in cd['forms'].items():
					key = f'{ptag}({pt})>{ctag}({ct})'
					where = pd['handler'].where
					bad = []
					for pf in pforms:
						for cf in cforms:
							cprec = cpp_prec_of(cf)
							if cprec is None:
								# closed or postfix-tight child: fits any slot
								continue
							if pf.kind == 'infix':
								pprec = CPP_PREC.get(pf.cpp)
								if pprec is None:
									r.undecided(key, where, f'unknown C++ operator {pf.cpp!r}')
									continue
								if ctag == ptag:
									continue  # same node: flat chain, handled by same-level rule
								ok_left = cprec >= pprec
								ok_right = cprec > pprec
								if (ctag in first_slot_tags and not ok_left) or (ctag in later_tags and not ok_right):
									bad.append(f'C++ `{cf.cpp}` (level {cprec}) does not bind tighter than `{pf.cpp}` (level {pprec})')
							elif pf.kind == 'prefix':
								pprec = CPP_PREC.get('u' + pf.cpp)
								if pprec is None:
									r.undecided(key, where, f'unknown C++ prefix operator {pf.cpp!r}')
									continue
								if cprec < pprec:
									bad.append(f'C++ prefix `{pf.cpp}` binds tighter than the operand\'s `{cf.cpp}`')
							elif pf.kind == 'ternary':
								# condition must be a logical-or-expression; branches are full expressions
								if ctag in first_slot_tags or True:
									if cf.kind != 'ternary' and cprec < CPP_PREC['||']:
										bad.append(f'C++ conditional operand `{cf.cpp}` is looser than ||')
							else:
								# closed / postfix-on parent: argument slots are delimited; postfix slots need postfix-tight operands
								for slot, need in pf.open_slots.items():
									if need == 'postfix':
										pass  # decided by the type-directed exclusion below
					if bad and not wrapped(ptag, cd['cls'].name):
						pc_ = nm.classification(info[ptag]['cls'])
						near = [(w_, why_) for ps_, cs_, w_, why_ in UNALIGNED_WRAPS if pc_ in ps_ and cd['cls'].name in cs_]
						r.violate(key, where, f'Python groups `{ct}` inside `{pt}` without parentheses, but as emitted {bad[0]}; ' + (f'the parenthesisation at {near[0][0]} tests the class of one operand and wraps the text of another ({near[0][1]}), so some operand — e.g. the right-hand one — is emitted without its parentheses (e.g. `{_example(pt, ct)}`)' if near else f'neither the template nor the handler wraps the operand (e.g. `{_example(pt, ct)}`)'), f'{pd["handler"].qualname} -> {[f.pattern for f in pforms][:2]}')
					else:
						r.ok(key, where, message='wrapped by handler' if bad else '')

	# token pasting for prefix templates without separator
	for ptag, pd in info.items():
		for pt, pforms in pd['forms'].items():
			for pf in pforms:
				if pf.kind != 'prefix':
					continue
				sep = ' ' in pf.pattern
				for ctag in gm.child_tags(ptag):
					starts: list[tuple[str, str]] = []
					if ctag in info:
						for ct, cforms in info[ctag]['forms'].items():
							for cf in cforms:
								if cf.kind == 'prefix':
									starts.append((ct, cf.cpp))
					for ct, cstart in starts:
						key = f'{ptag}({pt})+{ctag}({ct})'
						pasted = (pf.cpp + cstart[:1]) in CPP_PASTE
						cname = info[ctag]['cls'].name
						if pasted and not sep and not wrapped(ptag, cname):
							rp.violate(key, pd['handler'].where, f'`{pt} {ct}a` is rendered `{pf.cpp}{cstart}a`: C++ lexes `{pf.cpp + cstart[:1]}` as one token (pre-increment/decrement), and nothing separates or wraps the operand', pf.pattern)
						else:
							rp.ok(key, pd['handler'].where)

	# same-level consistency
	for tag, d in info.items():
		lv = d['level']
		if lv.kind != 'binary':
			continue
		precs = {}
		for t, fs in d['forms'].items():
			for f in fs:
				if f.kind == 'infix':
					precs.setdefault(CPP_PREC.get(f.cpp), []).append(f'{t}->{f.cpp}')
		if tag == 'comparison':
			if len(precs) > 1:
				rs.note(f'comparison tokens map to {len(precs)} C++ levels {dict(precs)}; chained comparisons (a < b == c) differ semantically anyway and are kept flat by design')
			rs.ok(f'level {tag}', d['handler'].where)
		else:
			rs.check(len(precs) <= 1, f'level {tag}', d['handler'].where, f'Python level {tag} is emitted on several C++ levels {dict(precs)}: a flat left-to-right chain regroups')

	# type-directed exclusion for postfix slots ({{right}}.contains / .begin()): list/dict typed operands cannot be operator expressions
	rx = rep.rule('C01/postfix-slot-exclusion', 'operands printed in postfix position ({{right}}.f()) are list/dict typed; the stub library declares no open-rendered operator that yields list or dict', floor=2)
	cm = idx.mod('rogw/tranp/compatible/libralies/classes.py')
	rep.consulted(cm.relpath)
	for c in cm.classes.values():
		act = None
		for d in c.node.decorator_list:
			if isinstance(d, ast.Call) and attr_chain(d.func) == '__actual__' and d.args:
				act = const_str(d.args[0])
		if act in ('list', 'dict'):
			ops = [m for m in c.methods if m in ('__add__', '__sub__', '__or__', '__and__', '__xor__', '__mod__', '__truediv__', '__lshift__', '__rshift__', '__matmul__', '__radd__', '__ror__')]
			mul_closed = True
			if '__mul__' in c.methods:
				fs, _ = handler_forms(pm, tm, pm.handlers['on_term'], '*')
				mul_closed = any(f.kind == 'closed' and 'binary_fill_list' in f.template for f in fs)
			rx.check(not ops and mul_closed, f'stub {act}', c.where, f'stub class for {act} declares operators {ops} (or list * n is no longer rendered closed): an operator expression could then appear where the template prints `{{{{right}}}}.method()`')


def _cpython_accepts(tok: str, kind: str) -> bool:
	try:
		ast.parse(f'{tok} a' if kind == 'prefix' else f'a {tok} b')
		return True
	except SyntaxError:
		return False


def _example(pt: str, ct: str) -> str:
	pt, ct = pt.replace('.', ' '), ct.replace('.', ' ')
	if pt in ('not', '+', '-', '~') and ct not in ('not',):
		return f'{pt} a {ct} b' if ct not in ('+', '-', '~') or pt == 'not' else f'{pt} {ct}a'
	return f'a {ct} b {pt} c'


# ---- (b) templates and helpers ------------------------------------------------------------------------------------------

def rule_b(rep, idx, pm, tm) -> None:
	r1 = rep.rule('C01/template-exists', 'every template name a Py2Cpp render call site can resolve to exists under data/cpp/template and parses', floor=100)
	sites = pm.render_sites()
	referenced: set[str] = set()
	for s in sites:
		key = f'{s.func.qualname}:{unparse(s.tmpl)}'
		if s.unresolved:
			r1.undecided(key, s.where, s.unresolved)
			continue
		missing = sorted(n for n in s.names if not tm.exists(n))
		broken = sorted(n for n in s.names if tm.exists(n) and not tm.parses(n))
		referenced |= s.names
		if missing or broken:
			r1.violate(key + (f'->{missing[0]}' if missing else f'->{broken[0]}'), s.where, f'render call can resolve to template(s) that do not exist {missing} / do not parse {broken}: every program reaching this branch fails with TemplateNotFound', unparse(s.call)[:160])
		else:
			r1.ok(key, s.where)
	# includes/imports inside templates
	r1b = rep.rule('C01/template-includes-exist', 'every template named by a constant include/import inside a parseable template exists and parses', floor=40)
	for name in sorted(tm.asts):
		for inc in tm.includes(name):
			if inc == '<dynamic>':
				continue
			r1b.check(tm.parses(inc), f'{name}->{inc}', (tm.relpath(name), 1), f'template {name} includes {inc}, which is missing or unparseable')
			referenced.add(inc)
	for name, err in tm.errors.items():
		r1.note(f'template {name} does not parse ({err}); referenced by a call site: {name in referenced}')

	r2 = rep.rule('C01/template-helpers-registered', 'every global function / filter called in a template is registered by the renderer helper providers or is a Jinja builtin', floor=100)
	import jinja2
	builtin_filters = set(jinja2.Environment().filters)
	builtin_globals = set(jinja2.Environment().globals)
	reg_funcs, reg_filters = _registered_helpers(idx, rep)
	for name in sorted(tm.asts):
		local = tm.locally_defined(name)
		for callee, node in tm.calls(name):
			if callee in local:
				continue
			ok = callee in reg_funcs or callee in builtin_globals
			r2.check(ok, f'{name}:{callee}()', (tm.relpath(name), getattr(node, 'lineno', 1)), f'template {name} calls `{callee}(...)`, which no helper provider registers (registered: {sorted(reg_funcs)})')
		for fname, node in tm.filters(name):
			ok = fname in reg_filters or fname in builtin_filters
			r2.check(ok, f'{name}|{fname}', (tm.relpath(name), getattr(node, 'lineno', 1)), f'template {name} uses filter `{fname}`, which is neither registered nor a Jinja builtin')


def _registered_helpers(idx: SourceIndex, rep: Report) -> tuple[set[str], set[str]]:
	funcs: set[str] = set()
	filters: set[str] = set()
	prov = idx.mod('rogw/tranp/implements/cpp/providers/view.py')
	rep.consulted(prov.relpath)
	p = prov.func('renderer_helper_provider_cpp')
	called = {attr_chain(n.func) for n in ast.walk(p.node) if isinstance(n, ast.Call)}
	if not {'factories', 'factories_for_cpp'} <= called:
		raise AnalysisError('renderer_helper_provider_cpp no longer combines factories() and factories_for_cpp()')
	for rel, fn in (('rogw/tranp/view/helper/helper.py', 'factories'), ('rogw/tranp/implements/cpp/view/cpp_view_helper.py', 'factories_for_cpp')):
		m = idx.mod(rel)
		rep.consulted(rel)
		f = m.func(fn)
		from vlib.match import FI as _FI
		ret = [n for n in ast.walk(_FI(f)) if isinstance(n, ast.Return)]  # locals holding the two lists are substituted
		if len(ret) != 1 or not isinstance(ret[0].value, ast.Tuple) or len(ret[0].value.elts) != 2:
			raise AnalysisError(f'{rel}:{fn} no longer returns a (functions, filters) tuple literal')
		for target, lst in zip((funcs, filters), ret[0].value.elts):
			if not isinstance(lst, ast.List):
				raise AnalysisError(f'{rel}:{fn} returns a non-literal list')
			for e in lst.elts:
				if not isinstance(e, ast.Name) or e.id not in m.functions:
					raise AnalysisError(f'{rel}:{fn} lists {unparse(e)}, which is not a module-level function')
				target.add(e.id)
	return funcs, filters


# ---- (c) handler <-> props (Py2Cpp) -------------------------------------------------------------------------------------------

def rule_c(rep, idx, pm, nm) -> None:
	from checks.c09 import handler_contract
	handler_contract(rep, idx, nm, 'C01/handler-props', PY2CPP, 'Py2Cpp', floor=90)


# ---- (d) scope containment ---------------------------------------------------------------------------------------------------

def rule_d(rep, idx, tier) -> None:
	r = rep.rule('C01/scope-containment-anchored', 'prefix/suffix tests on scope/namespace DSNs (whose flow elements end in numeric ids, f.for@22) compare whole elements', floor=1)
	files = idx.glob('rogw/tranp/syntax/node/definition/*.py') + ['rogw/tranp/syntax/node/node.py', 'rogw/tranp/semantics/finder.py', 'rogw/tranp/semantics/reflections.py']
	n_scope_reads = 0
	for rel in files:
		m = idx.mod(rel)
		rep.consulted(rel)
		for q, f in m.functions.items():
			if '#' in q:
				continue
			for node in ast.walk(f.node):
				if isinstance(node, ast.Attribute) and node.attr in ('scope', 'namespace'):
					n_scope_reads += 1
			t = Taint(f, lambda e: {'scope'} if e.attr in ('scope', 'namespace') else None, lambda fn, p: None)
			for s in find_sites(f, t):
				if not s.labels or s.kind not in ('prefix', 'suffix', 'substr', 'slicelen'):
					continue
				if s.anchored:
					r.ok(s.key, (rel, s.node.lineno), fragment=s.text)
				else:
					r.violate(s.key, (rel, s.node.lineno), f'{s.kind} test `{s.text}` on a scope DSN is not element-anchored: `f.for@224` starts with `f.for@22`, so unrelated sibling scopes count as nested (declaration merging then drops a variable)', s.text)
	if n_scope_reads < 10:
		raise AnalysisError(f'C01-d: only {n_scope_reads} reads of .scope/.namespace found (analysis blind)')
	r.ok('scope-reads-inventory', None, message=f'{n_scope_reads} reads of .scope/.namespace scanned in {len(files)} files')


# ---- (e) dunder -> operator table --------------------------------------------------------------------------------------------

def rule_e(rep, idx) -> None:
	from checks.c03 import _dispatched
	r = rep.rule('C01/dunder-operator-table', 'ClassOperationMaps.operators maps each special method to `operator<tok>` where <tok> is the token CPython dispatches to that method', floor=12)
	m = idx.mod(PY2CPP)
	c = m.cls('ClassOperationMaps')
	table = c.class_attrs.get('operators')
	if not isinstance(table, ast.Dict):
		raise AnalysisError('ClassOperationMaps.operators is no longer a dict literal')
	for k, v in zip(table.keys, table.values):
		dunder, op = const_str(k), const_str(v)
		if dunder is None or op is None or not op.startswith('operator'):
			r.undecided(unparse(k), (PY2CPP, k.lineno), 'non-constant row')
			continue
		tok = op[len('operator'):]
		if dunder == '__getitem__':
			r.check(tok == '[]', dunder, (PY2CPP, k.lineno), f'{dunder} must map to operator[] (maps to {op})')
			continue
		got = _dispatched(tok)
		r.check(got == dunder, dunder, (PY2CPP, k.lineno), f'{dunder} is emitted as `{op}`, but in Python `a {tok} b` dispatches {got}: a user-defined operator would change meaning')


# ---- (f) i18n keys -----------------------------------------------------------------------------------------------------------------

def rule_f(rep, idx, pm, tm) -> None:
	r = rep.rule('C01/i18n-keys-exist', 'every i18n(module, local) call in a template has constant arguments whose aliases.<module> and <prefix>#<local> keys exist in data/i18n.yml (a missing key prints nothing)', floor=80)
	try:
		import yaml
	except ImportError as e:
		raise AnalysisError(f'PyYAML not importable: {e}')
	path = os.path.join(REPO, 'data/i18n.yml')
	try:
		with open(path, encoding='utf-8') as f:
			data = yaml.safe_load(f)
	except OSError as e:
		raise AnalysisError(f'data/i18n.yml vanished: {e}')
	rep.consulted('data/i18n.yml')
	if not isinstance(data, dict):
		raise AnalysisError('data/i18n.yml is not a mapping')
	n = tm.nodes
	for name in sorted(tm.asts):
		i18n_calls = [(c_.node.name, c_) for c_ in tm.flat(name).find_all(n.Call) if isinstance(c_.node, n.Name)]
		combos = []
		for callee, node in i18n_calls:
			if callee != 'i18n':
				continue
			where = (tm.relpath(name), getattr(node, 'lineno', 1))
			if len(node.args) != 2:
				r.skip(f'{name}:i18n(?)', where, 'i18n call without exactly two arguments')
				continue
			alts0, alts1 = tm.alternatives(node.args[0]), tm.alternatives(node.args[1])
			if not all(isinstance(a, n.Const) and isinstance(a.value, str) for a in alts0 + alts1):
				r.skip(f'{name}:i18n(?)', where, 'i18n call with non-constant arguments')
				continue
			combos.extend((where, a0.value, a1.value) for a0 in alts0 for a1 in alts1)
		for where, mod_key, local in dict.fromkeys(combos):
			alias_key = f'aliases.{mod_key}'
			key = f'{name}:i18n({mod_key!r}, {local!r})'
			if alias_key not in data:
				r.violate(key, where, f'`{alias_key}` is not a key of data/i18n.yml: the template prints an empty string instead of the C++ name')
				continue
			full = f'{data[alias_key]}#{local}'
			r.check(full in data, key, where, f'`{full}` is not a key of data/i18n.yml: the template prints an empty string instead of the C++ name')
	# accessor keys composed by Py2Cpp.to_accessor
	acc = pm.methods.get('to_accessor')
	if acc is None or "alias_dsn('lang')" not in unparse(acc.node) or "'accessor'" not in unparse(acc.node):
		r.undecided('to_accessor', (PY2CPP, 1), 'Py2Cpp.to_accessor no longer composes <aliases.lang>#accessor.<name>')
	else:
		prefix = data.get('aliases.lang')
		for a in ('public', 'protected', 'private'):
			r.check(prefix is not None and f'{prefix}#accessor.{a}' in data, f'accessor.{a}', acc.where, f'`{prefix}#accessor.{a}` missing from data/i18n.yml: members would be emitted without an access specifier')


# ---- (g) dict-view loop binding tables ---------------------------------------------------------------------------------------------

def rule_g(rep, idx, pm) -> None:
	"""`for k in d.keys()` / `for v in d.values()` / `for k, v in d.items()` are emitted as a C++ structured binding `[a, b] : d` over (key, value) pairs.
	Every copy of the method -> binding table must put the loop symbol first for keys and second for values."""
	r = rep.rule('C01/dict-view-binding-table', 'every dict-view table maps keys -> [symbol, _], values -> [_, symbol], items -> symbols (C++ binds (key, value) in that order); all copies agree', floor=2)
	tables = []
	for name, f in pm.methods.items():
		for n in ast.walk(f.node):
			if isinstance(n, ast.Dict) and len(n.keys) == 3 and {unparse(k) for k in n.keys} == {'dict.items.__name__', 'dict.keys.__name__', 'dict.values.__name__'}:
				# skip the receiver-type context table (values are reflections, not binding lists)
				if all(isinstance(v, (ast.List, ast.Name)) for v in n.values):
					tables.append((f, n))
	if not tables:
		r.skip('tables', (PY2CPP, 1), 'no dict-view binding table ({items, keys, values} -> binding list) found in Py2Cpp')
		r.floor = 1
		return
	for f, n in tables:
		rows = {unparse(k).split('.')[1]: v for k, v in zip(n.keys, n.values)}
		def shape(v):
			if isinstance(v, ast.Name):
				return 'all'
			if isinstance(v, ast.List) and len(v.elts) == 2:
				return tuple('_' if const_str(e) == '_' else 'sym' for e in v.elts)
			return '?'
		got = {k: shape(v) for k, v in rows.items()}
		want = {'items': 'all', 'keys': ('sym', '_'), 'values': ('_', 'sym')}
		for k in ('items', 'keys', 'values'):
			r.check(got.get(k) == want[k], f'{f.name}:{k}', (PY2CPP, n.lineno), f'{f.qualname}: the `{k}` row binds {got.get(k)}, but a C++ structured binding over a map yields (key, value), so `{k}` must bind {want[k]}: a loop over d.{k}() would walk the other half of each pair', unparse(n)[:160])


def rule_chain(rep, idx, pm) -> None:
	"""`a - b - c` is one node with elements [a, -, b, -, c]; Py2Cpp renders it step by step. Each step must print ITS operator and the steps must run left to right
	(the printed text is re-parsed by the C++ compiler, which groups the same level left to right as Python does)."""
	from vlib import fold
	r = rep.rule('C01/chain-rendered-per-operator', 'Py2Cpp.proc_binary_operation_expression renders a flattened operator chain front to back and passes the operator of each step (loop-variant) to the template', floor=2)
	f = pm.methods.get('proc_binary_operation_expression')
	if f is None:
		r.skip('fold-site', (PY2CPP, 1), 'Py2Cpp.proc_binary_operation_expression vanished')
		r.floor = 1
		return
	n_sites = 0
	for c_ in ast.walk(f.node):
		if not (isinstance(c_, ast.Call) and isinstance(c_.func, ast.Attribute) and c_.func.attr == 'render'):
			continue
		vars_expr = next((k.value for k in c_.keywords if k.arg == 'vars'), None)
		if not isinstance(vars_expr, ast.Dict):
			continue
		opv = next((v for k, v in zip(vars_expr.keys, vars_expr.values) if const_str(k) == 'operator'), None)
		lp = fold.enclosing_loop(f.node, c_)
		if opv is None or lp is None:
			continue
		n_sites += 1
		r.check(fold.is_variant(lp, opv), f'operator-per-step:{const_str(c_.args[1]) if len(c_.args) > 1 else "?"}', (PY2CPP, c_.lineno), f'the template gets operator `{unparse(opv)}`, which does not change from one step of the chain to the next: `a - b + c` would be printed with the first operator twice', unparse(c_)[:120])
		leftv = next((v for k, v in zip(vars_expr.keys, vars_expr.values) if const_str(k) == 'left'), None)
		pmap = parent_map(f.node)
		stmt = c_
		while id(stmt) in pmap and not isinstance(stmt, ast.stmt):
			stmt = pmap[id(stmt)]
		if isinstance(stmt, ast.Assign) and leftv is not None:
			r.check(unparse(stmt.targets[0]) == unparse(leftv), f'accumulator-is-left:{const_str(c_.args[1]) if len(c_.args) > 1 else "?"}', (PY2CPP, c_.lineno), f'the rendered step is stored in `{unparse(stmt.targets[0])}` but the next step prints `{unparse(leftv)}` on the left: the chain must accumulate on the left (left-associative, as Python evaluates it)', unparse(stmt)[:120])
	if not n_sites:
		r.skip('fold-site', f.where, 'no render(..., vars={operator: ...}) inside a loop of proc_binary_operation_expression')
	back = fold.backward_consumers(f.node, set(f.params()[1:]))
	r.check(not back, 'front-to-back', f.where, f'the chain is consumed from the end ({[unparse(b) for b in back][:2]})')


def _top_level_text(pat: str) -> str:
	"""the pattern with every bracketed / quoted region removed"""
	out, depth, q = '', 0, None
	for ch in pat:
		if q:
			if ch == q:
				q = None
			continue
		if ch in '"\'':
			q = ch
			continue
		if ch in '([{':
			depth += 1
			continue
		if ch in ')]}':
			depth -= 1
			continue
		if depth == 0:
			out += ch
	return out


def rule_primary_closed(rep, tm) -> None:
	"""A call, subscript, attribute reference or literal is a primary expression in Python: it binds tighter than every operator. The C++ text a template
	renders for such a node is pasted into operator expressions as it is, so it must itself be a primary/postfix expression (or be parenthesised);
	a template that renders `c ? a : b` or `a + b` for a call is regrouped by the C++ compiler as soon as the call is an operand."""
	import re
	r = rep.rule('C01/primary-templates-render-closed', 'every template rendered for a Python primary expression (func_call/, indexer/, relay/, reference/, literal/) renders a C++ primary/postfix expression or a parenthesised one: no top-level `?:` or binary operator', floor=60)
	ops = r' \? | (\+|-|\*|/|%|==|!=|&&|\|\||<|>|<=|>=|&|\||\^|<<|>>) '
	for name in sorted(tm.asts):
		if not name.startswith(('func_call/', 'indexer/', 'relay/', 'reference/', 'literal/')) or name.split('/')[-1].startswith('_'):
			continue
		try:
			branches = tm.branches(name)
		except Exception as e:  # unparseable shapes are reported by template-exists
			r.skip(f'{name}', (tm.relpath(name), 1), f'branches not readable: {e}')
			continue
		for cond, parts in branches:
			pat = ''
			for p_ in parts:
				pat += p_[1] if p_[0] == 'text' else ('X' if p_[0] in ('var', 'expr') else '')
			pat = pat.strip().rstrip(';').strip()
			if pat.count('\n') > 0:
				r.ok(f'{name}[{cond[:30]}]', (tm.relpath(name), 1), message='multi-line (statement-level) output')
				continue
			top = _top_level_text(pat)
			m = re.search(ops, top)
			r.check(m is None, f'{name}[{cond[:30]}]', (tm.relpath(name), 1), f'{name}.j2 renders `{pat[:100]}` for a Python primary expression: the top-level `{m.group(0).strip() if m else ""}` is not parenthesised, so as an operand (`2 * d.get("b", 3)`, `d.get("a", 0) + 1`) the C++ compiler groups it with the surrounding operator (`2 * d.contains("b") ? d["b"] : 3`)', pat[:120])


def rule_comparison_chain(rep, idx, pm, gm) -> None:
	"""`a < b < c` is ONE comparison node with two operators; Python evaluates it as `a < b and b < c`. Rendering the chain with the generic left fold
	gives C++ `(a < b) < c` (bool compared with c). A comparison chain must be rendered as a conjunction or be rejected."""
	from vlib.norm import helper_closure
	r = rep.rule('C01/comparison-chain-semantics', 'a comparison node with more than one operator is not rendered by the plain left fold of binary operators: the handler joins the pairwise comparisons with && or refuses chains', floor=1)
	chains = [lv for lv in ladder(gm) if lv.kind == 'binary' and {'<', '=='} <= set(lv.tokens)]
	h = pm.handlers.get('on_comparison')
	if not chains or h is None:
		r.skip('chain', (PY2CPP, 1), 'no comparison level in the grammar ladder or no on_comparison handler')
		return
	members = helper_closure(h, 3)
	conj = any(isinstance(n, ast.Constant) and isinstance(n.value, str) and '&&' in n.value for g in members for n in ast.walk(g.node))
	refuses = False
	for g in members:
		for n in ast.walk(g.node):
			if isinstance(n, ast.If) and any(isinstance(x, ast.Call) and unparse(x.func) == 'len' for x in ast.walk(n.test)) and any(isinstance(x, ast.Raise) for x in ast.walk(n)) and 'Comparison' in unparse(g.node):
				refuses = True
	r.check(conj or refuses, 'on_comparison:chain', h.where, f'on_comparison renders every comparison through {[g.name for g in members][1:]} — the left fold used for arithmetic — with no conjunction and no rejection of chains: `a < b < c` is emitted verbatim and C++ evaluates `(a < b) < c` (for 3, 2, 1: Python False, C++ true)', 'a < b < c')


def rule_len_signed(rep, tm) -> None:
	"""len() is a Python int: `len(xs) - 1` is -1 for an empty list, `len(xs) - 1 < 0` is True, `range(len(xs) - 1)` is empty. The member the template
	renders (`size()` of the std containers / std::string) returns an UNSIGNED size_type, and C++ converts the other operand of `-`, `<`, `i < bound`
	to unsigned as well: the difference wraps to 2**64 - 1. The rendered expression therefore needs a conversion to a signed type around it."""
	import re
	r = rep.rule('C01/len-result-is-signed', 'every branch of func_call/len.j2 renders the container size inside a conversion to a signed integer type (static_cast<int>(...), int(...), (int)..., std::ssize(...))', floor=1)
	name = 'func_call/len'
	if not tm.parses(name):
		r.skip(name, (tm.relpath(name), 1), 'func_call/len.j2 not readable')
		return
	unsigned: list[str] = []
	n_sized = 0
	for cond, parts in tm.branches(name):
		pat = ''
		for p_ in parts:
			pat += p_[1] if p_[0] == 'text' else ('X' if p_[0] in ('var', 'expr') else '')
		pat = pat.strip().rstrip(';').strip()
		sized = any(p_[0] in ('var', 'expr') and '.size' in p_[1] for p_ in parts) or '.size()' in pat
		if not sized:
			r.skip(f'{name}[{cond[:30]}]', (tm.relpath(name), 1), f'branch renders `{pat[:60]}`, not a size() member call')
			continue
		n_sized += 1
		if re.match(r'^(static_cast<\s*(int|long|long long|int32_t|int64_t|ssize_t|std::ptrdiff_t|ptrdiff_t)\s*>\(|int\(|\(int\)|std::ssize\()', pat) is None:
			unsigned.append(pat[:40])
	if n_sized:
		r.check(not unsigned, name, (tm.relpath(name), 1), f'func_call/len.j2 renders {unsigned}: size() of the std containers is unsigned, so arithmetic and comparisons with it are done modulo 2**64 — for an empty list `len(xs) - 1 < 0` is false in C++ (CPython: True) and `for i in range(len(xs) - 1)` is emitted `for (auto i = 0; i < xs.size() - 1; ...)`, which runs past the end (CPython: no iteration); compiled and run with g++ -std=c++20')


def rule_slice_keys(rep, tm, pm) -> None:
	"""A slice `x[a:b:c]` reaches its template as keys = [a, b, c] (an omitted part is empty). The templates of the two receiver kinds (list, str) are
	siblings: each has to consume all three keys — a template that never reads keys[2] renders `s[::2]` exactly like `s[:]`."""
	r = rep.rule('C01/slice-templates-use-every-key', 'every indexer/slice_* template reads keys[0], keys[1] and keys[2] (start, stop, step)', floor=2)
	n = tm.nodes
	names = sorted(nm for nm in tm.asts if nm.startswith('indexer/slice_'))
	if not names:
		r.skip('indexer/slice_*', ('data/cpp/template/indexer', 1), 'no indexer/slice_* template')
	for nm in names:
		used = set()
		for g in tm.asts[nm].find_all(n.Getitem):
			if isinstance(g.node, n.Name) and g.node.name == 'keys' and isinstance(g.arg, n.Const) and isinstance(g.arg.value, int):
				used.add(g.arg.value)
		whole = any(isinstance(x, n.Name) and x.name == 'keys' for x in tm.asts[nm].find_all(n.Name)) and not used
		if whole:
			r.skip(nm, (tm.relpath(nm), 1), 'keys is consumed as a whole (loop / filter), not by index')
			continue
		missing = sorted({0, 1, 2} - used)
		what = {0: 'start', 1: 'stop', 2: 'step'}
		r.check(not missing, nm, (tm.relpath(nm), 1), f'{nm}.j2 never reads keys[{missing[0] if missing else "?"}] (the {what.get(missing[0]) if missing else "?"} of the slice): `s[::2]` is rendered like `s[:]` — `s.substr(0, s.size())` — and returns every character (CPython: every second one); the sibling templates read {sorted(used)} / all three')


def rule_keyword_arguments(rep, idx, pm, tm) -> None:
	"""`f(b=1, a=2)` binds by name in Python. The C++ call is positional, so the label must either be used to reorder the arguments into parameter order
	or a labelled argument out of order must be rejected; dropping the label emits the values in call order."""
	from vlib.norm import helper_closure
	r = rep.rule('C01/keyword-arguments-honoured', 'the label of a keyword argument is used: printed/consulted by expression/argument.j2, or on_func_call reorders or rejects labelled arguments', floor=1)
	h = pm.handlers.get('on_argument')
	if h is None or not tm.parses('expression/argument'):
		r.skip('argument', (PY2CPP, 1), 'no on_argument handler / expression/argument.j2')
		return
	n = tm.nodes
	used_in_template = any(x.name == 'label' for x in tm.asts['expression/argument'].find_all(n.Name))
	fc = pm.handlers.get('on_func_call')
	# a use of the labels counts only where the callee's parameters are consulted as well (str.format's named placeholders read labels for another purpose)
	used_in_call = fc is not None and any(any(isinstance(x, ast.Attribute) and x.attr in ('label', 'labels') for x in ast.walk(g.node)) and (any(isinstance(x, ast.Attribute) and x.attr in ('parameters', 'parameter_at') for x in ast.walk(g.node)) or any(isinstance(x, ast.Raise) for x in ast.walk(g.node))) for g in helper_closure(fc, 2))
	used_in_handler = any(isinstance(x, ast.Name) and x.id == 'label' and isinstance(x.ctx, ast.Load) for x in ast.walk(h.node) if not isinstance(x, ast.Dict)) and any(isinstance(x, (ast.If, ast.IfExp, ast.Raise)) for x in ast.walk(h.node))
	r.check(used_in_template or used_in_call or used_in_handler, 'label-used', h.where, 'on_argument passes `label` to expression/argument.j2, which prints only `{{ value }}`, and on_func_call never looks at the labels: `sub(b=1, a=2)` is emitted as `sub(1, 2)` — the values reach the wrong parameters (Python 1, C++ -1)', 'sub(b=1, a=2)')


def rule_group_parens(rep, pm, tm) -> None:
	"""`(e)` in the source overrides operator precedence. The handler receives the rendered text of e, which carries no information about the
	operators inside (`(a + 1) * (b + 2)` starts with `(` and ends with `)` and is not a parenthesised expression), so the group must be rendered
	with its parentheses on every path; a decision to drop them can only be made on the node, never on the text."""
	from vlib.match import atoms, nodes, resolved_returns, X
	r = rep.rule('C01/group-keeps-parentheses', 'every return of the group handler renders the group template, and every branch of that template encloses the expression in ( )', floor=2)
	h = pm.handlers.get('on_group')
	if h is None:
		r.skip('on_group', (PY2CPP, 1), 'no on_group handler')
		return
	sites = {id(s.call): s for s in pm.render_sites() if s.func is h}
	hx = X(h)
	params = set(h.params()) - {'self', 'node'}
	for ret in nodes(hx, ast.Return):
		v = ret.value
		if v is None:
			continue
		site = next((s for s in sites.values() if unparse(s.call) == unparse(v) or (isinstance(v, ast.Call) and s.call.lineno == v.lineno and unparse(s.call.func) == unparse(v.func))), None)
		if site is not None and site.names:
			for t in sorted(site.names):
				if t not in tm.asts:
					continue
				for cond, parts in tm.branches(t):
					pat = ''.join(p_[1] if p_[0] == 'text' else 'X' for p_ in parts).strip()
					r.check(pat.startswith('(') and pat.endswith(')') and _top_level_text(pat) == '', f'{t}[{cond[:30]}]', (tm.relpath(t), 1), f'{t}.j2 renders a Python group as `{pat[:80]}`: the parentheses of the source are lost, so `(a + b) * c` is emitted as `a + b * c`', pat[:80])
			r.ok(f'on_group:return@{unparse(v)[:50]}', h.where)
			continue
		known = atoms(hx, ret)
		textual = all({n.id for n in ast.walk(a) if isinstance(n, ast.Name)} <= params | {'len'} for a, _ in known)
		if textual:
			r.violate('on_group:return-without-parentheses', h.where, f'on_group returns `{unparse(v)[:80]}` under {[(unparse(a), p_) for a, p_ in known]}: the rendered text of the inner expression cannot tell whether it is already one parenthesised unit (`(a + 1) * (b + 2)` also starts with `(` and ends with `)`), so `((a + 1) * (b + 2)) % c` is emitted as `(a + 1) * (b + 2) % c`', unparse(v)[:100])
		else:
			r.skip('on_group:return-without-parentheses', h.where, f'a return that does not render the group template depends on conditions this rule does not model: {[(unparse(a), p_) for a, p_ in known]}')


def rule_range_arguments(rep, pm, tm) -> None:
	"""range(size) / range(begin, size) / range(begin, size, step): a counting loop rendered for `range` must take its start, bound and increment from the
	SEPARATE arguments. The for statement (proc_for_range) and the comprehension (comp/comp_for_range) are sibling renderings of the same construct and
	must agree: a template that pastes the whole argument text as the bound emits `i < 2, n` (comma operator) for range(2, n)."""
	r = rep.rule('C01/range-arguments-honoured', 'every template rendered for a range() loop compares the counter with ONE separated argument (a handler-supplied variable or an element of break_separator(...)), and starts at the constant 0 only in a branch conditioned on the argument count', floor=2)
	names = sorted({t for s_ in pm.render_sites() for t in s_.names if t.split('/')[-1].endswith('range') and t in tm.asts})
	if not names:
		r.skip('range-templates', (PY2CPP, 1), 'no template whose name ends in `range` is rendered by Py2Cpp')
		return
	for name in names:
		for cond, parts in tm.branches(name):
			texts = [(i, p_) for i, p_ in enumerate(parts)]
			bound = None
			for i, p_ in texts:
				if p_[0] == 'text' and p_[1].rstrip().endswith('<') and i + 1 < len(parts) and parts[i + 1][0] != 'text':
					bound = parts[i + 1]
					break
			key = f'{name}[{cond[:40]}]'
			where = (tm.relpath(name), 1)
			if bound is None:
				r.skip(key, where, 'no `<` comparison with a variable found in this branch')
				continue
			src = bound[1][1] if isinstance(bound[1], tuple) else str(bound[1])
			whole = 'break_last_block' in src and 'break_separator' not in src
			if whole:
				r.violate(key, where, f'{name}.j2 compares the loop counter with `{src[:80]}`, the WHOLE argument text of the range call: `[i for i in range(2, n)]` is emitted as `for (auto i = 0; i < 2, n; i++)` (comma operator; start and step ignored), while the for statement renders the same call correctly', src[:100])
				continue
			starts_zero = any(p_[0] == 'text' and '= 0;' in p_[1] for p_ in parts)
			if starts_zero and 'break_' in ''.join(str(p_[1]) for p_ in parts if p_[0] != 'text') and 'length' not in cond:
				r.violate(key, where, f'{name}.j2 starts the counter at the constant 0 in a branch that is not conditioned on the number of range() arguments ({cond}): range(begin, size) loops from 0', cond)
				continue
			r.ok(key, where)


def rule_initializer_conversion(rep, pm) -> None:
	"""`T x = T(a, b);` is rewritten to `T x{a, b};` when the template variable is_initializer is set. For a user class both call the same constructor; for
	std::vector braces select the initializer-list constructor (`std::vector<int>(n, v)` has n elements, `std::vector<int>{n, v}` has two). The rendered
	text `T(...)` is also what `[v] * n` renders to, so the flag may only be set when the assigned NODE is a call (a constructor call written by the user):
	every site that sets it tests isinstance(node.value, defs.FuncCall). The assignment handlers are siblings and must agree."""
	from vlib.match import X, atoms, conjuncts, deref, nodes
	r = rep.rule('C01/initializer-conversion-for-calls-only', 'every render call that sets is_initializer does so only when the assigned node is a FuncCall (tested on the node, not on the rendered text)', floor=2)
	n_sites = 0
	for name, f in pm.methods.items():
		fx = X(f)
		setters: list[tuple[ast.AST, ast.AST]] = []  # (site, flag value): dict literals carrying the key and `vars[key] = value` assignments
		for d in nodes(fx, ast.Dict):
			for k, v in zip(d.keys, d.values):
				if k is not None and const_str(k) == 'is_initializer':
					setters.append((d, v))
		for st in nodes(fx, ast.Assign):
			for t in st.targets:
				if isinstance(t, ast.Subscript) and const_str(t.slice) == 'is_initializer':
					setters.append((st, st.value))
		for site, flag in setters:
			if isinstance(flag, ast.Constant) and flag.value is False:
				continue
			n_sites += 1
			known = list(atoms(fx, site))
			if not (isinstance(flag, ast.Constant) and flag.value is True):
				known += conjuncts(deref(fx, flag) if isinstance(flag, ast.Name) else flag, True)
			node_test = any(p_ and isinstance(a, ast.Call) and unparse(a.func) == 'isinstance' and len(a.args) == 2 and unparse(a.args[0]).endswith('.value') and 'FuncCall' in unparse(a.args[1]) for a, p_ in known)
			r.check(node_test, f'{name}:is_initializer', (PY2CPP, site.lineno), f'{name} sets is_initializer under {[(unparse(a)[:60], p_) for a, p_ in known]}: without `isinstance(node.value, defs.FuncCall)` the brace conversion also hits every expression that merely RENDERS as `T(...)`: `xs = [v] * n` becomes `std::vector<int> xs{{n, v}};` (two elements instead of n)', unparse(site)[:140])
	if n_sites == 0:
		r.skip('is_initializer-sites', (PY2CPP, 1), 'no render call sets is_initializer')


def rule_fill_list_roles(rep, pm) -> None:
	"""`[v] * n` and `n * [v]` are the same list in Python, and proc_binary_operation accepts both orders: it decides by TYPE which operand is the list
	(the fill value) and which the size. Everything the fill-list rendering knows about the fill operand must come from that selected operand
	(default_raw / default); an access to a fixed position of the node (`node.elements[0]`) silently assumes the list on the left, and
	`n * [7]` is emitted as `std::vector<int>(n)` (n zeros) instead of `std::vector<int>(n, 7)`."""
	from vlib.match import X, closure, nodes
	r = rep.rule('C01/fill-list-operand-by-role', 'the handler that renders operation/binary_fill_list reads the fill operand and the size through the operands selected by type, never through a fixed position of the node', floor=1)
	sites = [s_ for s_ in pm.render_sites() if 'operation/binary_fill_list' in s_.names]
	if not sites:
		r.skip('binary_fill_list', (PY2CPP, 1), 'no render site of operation/binary_fill_list')
		return
	for s_ in sites:
		f = s_.func
		bad = []
		for b in closure(f, 1):
			for n in nodes(b, ast.Subscript):
				if isinstance(n.value, ast.Attribute) and n.value.attr in ('elements', '_elements') and isinstance(n.slice, ast.Constant) and isinstance(n.slice.value, int):
					bad.append(n)
			for n in nodes(b, ast.Attribute):
				if n.attr in ('left', 'right', 'first', 'last') and isinstance(n.value, ast.Name) and n.value.id == 'node':
					bad.append(n)
		r.check(not bad, f'{f.name}:positional-operand', s_.where, f'{f.name} reads `{unparse(bad[0])[:60] if bad else ""}`: a fixed position of the operator node, while the caller accepts the list on either side; for `n * [v]` the flag / value describes the size operand, and the list is emitted without its fill value (`std::vector<T>(n)`: n zero-initialised elements)', unparse(bad[0])[:80] if bad else '')


def rule_string_requoted(rep: Report, idx: SourceIndex, pm: Py2CppModel, tm: TemplateModel) -> None:
	"""A Python string literal may be written between single or double quotes; the C++ literal is always written between double quotes. The body of a
	single-quoted literal may contain an unescaped `"` (`'say "hi"'`): pasted verbatim between double quotes it ends the C++ literal early. The handler
	must hand over a body converted for the new delimiter, or the template must look at the original delimiter."""
	r = rep.rule('C01/string-literal-body-fits-its-quotes', 'a string literal emitted between double quotes has a body that was converted for that delimiter (handler-side conversion or a delimiter test in literal/string.j2), not the body as written between single quotes', floor=1)
	f = pm.methods.get('on_string')
	if f is None or 'literal/string' not in tm.asts:
		r.skip('literal/string', (PY2CPP, 1), 'Py2Cpp.on_string or literal/string.j2 vanished')
		return
	vars_ = [s.vars_expr for s in pm.render_sites() if s.func is f and isinstance(s.vars_expr, ast.Dict)]
	if len(vars_) != 1:
		r.skip('literal/string', f.where, 'on_string does not render with one literal vars dict')
		return
	handed = {const_str(k): v for k, v in zip(vars_[0].keys, vars_[0].values) if k is not None}
	verbatim = {k for k, v in handed.items() if unparse(v).endswith('.tokens')}
	N = tm.nodes
	tree = tm.flat('literal/string')
	outs = list(tree.find_all(N.Output))
	tests = [n for n in tree.find_all((N.If, N.CondExpr))]
	pasted = []
	for o in outs:
		quoted = any(isinstance(p_, N.TemplateData) and '"' in p_.data for p_ in o.nodes)
		for p_ in o.nodes:
			if isinstance(p_, N.Getitem) and isinstance(p_.node, N.Name) and p_.node.name in verbatim and isinstance(p_.arg, N.Slice) and quoted:
				pasted.append(p_.node.name)
	delimiter_aware = any(isinstance(x, N.Getitem) and isinstance(x.node, N.Name) and x.node.name in verbatim and isinstance(x.arg, N.Const) and x.arg.value == 0 for t in tests for x in t.test.find_all(N.Getitem))
	if not verbatim:
		r.ok('literal/string', f.where, message=f'on_string converts the literal before rendering ({ {k: unparse(v)[:40] for k, v in handed.items()} })')
	elif pasted and not delimiter_aware:
		r.violate('literal/string', (tm.relpath('literal/string'), 1), f'on_string hands the literal as written (`{pasted[0]}` = node.tokens) and literal/string.j2 pastes `{pasted[0]}[1:-1]` between double quotes whatever the original delimiter was: `s = \'say "hi"\'` is emitted `std::string s = "say "hi"";`, which no C++ compiler accepts (an escaped quote `\'it\\\'s\'` happens to stay valid)', tm.sources['literal/string'].strip()[:80])
	elif pasted:
		r.ok('literal/string', (tm.relpath('literal/string'), 1), message='the template tests the original delimiter')
	else:
		r.skip('literal/string', (tm.relpath('literal/string'), 1), 'literal/string.j2 no longer pastes a slice of the handed value between double quotes')


def rule_declaration_merge(rep: Report, idx: SourceIndex) -> None:
	"""Whether `t = v` in a nested block is emitted `int t = v;` (a new C++ variable that shadows the outer one) or `t = v;` is decided by
	VarsCollector._merged: the statement declares only if NO collected declaration of the same name lives in an enclosing scope. The obligations are
	C08/declaration-merge-searches-all's (the search ranges over every collected declaration and stops early only on a positive scope comparison);
	a slip there compiles and returns the stale outer value."""
	from checks import c08
	r = rep.rule('C01/assignment-declares-only-when-no-enclosing-declaration', 'VarsCollector._merged compares an added variable with every collected declaration of the same name and stops the search only on a positive scope comparison (obligations shared with C08/declaration-merge-searches-all)', floor=2)
	scratch = Report('C08', rep.tier)
	c08.rule_merge(scratch, idx)
	for rule in scratch.rules:
		for o in rule.obligations:
			if o.status == 'violated':
				r.violate(o.key, (o.file, o.line), o.message, o.fragment)
			elif o.message.startswith('NOT EVALUATED'):
				r.skip(o.key, (o.file, o.line), o.message)
			else:
				r.ok(o.key, (o.file, o.line))


def rule_capture_list(rep: Report, idx: SourceIndex) -> None:
	"""A nested `def` / `lambda` becomes a C++ lambda whose capture list is `ref_vars()`: the variables referenced below the node that are not its own.
	A comprehension or a lambda INSIDE the closure declares variables too (the loop variable, the parameters); they exist only inside that inner scope,
	and capturing them (`auto g = [z, items](int k) { ... for (auto& z : items) ... }`) names an undeclared variable: the program does not compile.
	The node classes that declare variables inside an expression are read from the node model (scope classes with `decl_vars` that are not function /
	class definitions); the collector must look at the `decl_vars` of each of them on the way from the reference up to the closure."""
	from vlib.nodemodel import NodeModel
	from vlib.norm import helper_closure
	r = rep.rule('C01/captures-exclude-variables-of-nested-scopes', 'the variable collector behind Closure.ref_vars / Lambda.ref_vars skips references to variables declared by a comprehension or lambda nested below the closure (kind test over every expression-level scope class of the node model, consulting its decl_vars)', floor=1)
	nm = NodeModel(idx)
	prim = idx.mod('rogw/tranp/syntax/node/definition/primary.py')
	iscope = next((c for m in nm.def_mods + [nm.node_mod] + [idx.mod(p_) for p_ in idx.glob('rogw/tranp/syntax/node/*.py')] for c in m.classes.values() if c.name == 'IScope'), None)
	scopes = []
	for c in nm.classes:
		try:
			mro = idx.mro(c)
		except AnalysisError:
			continue
		if iscope is not None and iscope not in mro:
			continue
		if idx.lookup(c, 'decl_vars') is None:
			continue
		if any(k.name in ('ClassDef', 'Entrypoint') for k in mro):
			continue
		scopes.append(c)
	if not scopes:
		r.skip('scope-classes', (prim.relpath, 1), 'no expression-level scope class with decl_vars found in the node model')
		return
	users = [f for f in (idx.lookup(nm.by_name[n], 'ref_vars') for n in ('Closure', 'Lambda') if n in nm.by_name) if f is not None]
	if not users:
		r.skip('ref_vars', (prim.relpath, 1), 'Closure.ref_vars / Lambda.ref_vars vanished')
		return
	# the collector: functions reachable from ref_vars (same class or the PluckVars helper)
	reach = []
	for u in users:
		for g in helper_closure(u):
			if g not in reach:
				reach.append(g)
		for c_ in ast.walk(u.node):
			if isinstance(c_, ast.Call) and isinstance(c_.func, ast.Attribute) and isinstance(c_.func.value, ast.Name) and c_.func.value.id[:1].isupper():
				h = u.module.functions.get(f'{c_.func.value.id}.{c_.func.attr}')
				for g in (helper_closure(h) if h is not None else []):
					if g not in reach:
						reach.append(g)
	tested: set[str] = set()
	consults = False
	for g in reach:
		for n in ast.walk(g.node):
			if isinstance(n, ast.Call) and isinstance(n.func, ast.Name) and n.func.id == 'isinstance' and len(n.args) == 2:
				spec = n.args[1]
				for e in (spec.elts if isinstance(spec, ast.Tuple) else [spec]):
					k = idx.resolve_class(g.module, e)
					if k is not None:
						tested |= {c.name for c in scopes if k in idx.mro(c)}
			if isinstance(n, ast.Attribute) and n.attr == 'decl_vars' and not (isinstance(n.value, ast.Name) and n.value.id == 'self'):
				consults = True
	names = sorted(c.name for c in scopes)
	missing = sorted(set(names) - tested)
	where = users[0].where
	if not consults:
		r.violate('nested-scope-variables', where, f'the collector of referenced variables ({", ".join(g.qualname for g in reach)}) looks at the declarations of the closure itself only: a variable declared by a scope nested in the closure ({names}) is captured as well — `def g(k): vs = [z + k for z in items]` is rendered `auto g = [z, items](int k) ...`, and `z` does not exist outside the comprehension, so the C++ does not compile', unparse(users[0].node)[-120:])
	elif missing:
		r.violate('nested-scope-variables', where, f'the collector skips variables of nested scopes only for some scope classes; not covered: {missing} (their loop variables / parameters are still captured by an enclosing closure)', '')
	else:
		r.ok('nested-scope-variables', where, message=f'decl_vars of {names} are consulted')


def rule_decorator_decisions(rep: Report, idx: SourceIndex, pm: Py2CppModel) -> None:
	"""What a decorator means for the emitted C++ (`virtual` for Embed.allow_override, visibility, static) does not depend on where it stands among the
	decorators of the function: Python applies all of them. A decision in the transpiler that looks at ONE position of `<node>.decorators` (index 0, or
	`next()` over an unfiltered iteration) honours the decorator only when it is written first; `@property @Embed.allow_override def area(self)` then
	loses `virtual`, and a call through the base class no longer reaches the override."""
	from vlib.match import deref, nodes
	r = rep.rule('C01/decorator-decisions-search-the-whole-list', 'no function of Py2Cpp selects a decorator by position (constant index, or next() over an unfiltered iteration of <node>.decorators): a decorator is searched in the whole list', floor=1)
	n_sites = 0
	for name, f in pm.methods.items():
		reads = [n for n in ast.walk(f.node) if isinstance(n, ast.Attribute) and n.attr == 'decorators']
		if not reads:
			continue
		n_sites += 1

		def unfiltered(e: ast.AST, depth: int = 0) -> bool:
			"""e iterates the decorator list itself (possibly mapped), without a condition that selects"""
			e = deref(f.node, e) if isinstance(e, ast.Name) else e
			if isinstance(e, ast.Attribute) and e.attr == 'decorators':
				return True
			if isinstance(e, (ast.GeneratorExp, ast.ListComp)) and len(e.generators) == 1 and not e.generators[0].ifs and depth < 3:
				return unfiltered(e.generators[0].iter, depth + 1)
			if isinstance(e, ast.Call) and isinstance(e.func, ast.Name) and e.func.id in ('iter', 'list', 'tuple', 'map') and e.args and depth < 3:
				return unfiltered(e.args[-1], depth + 1)
			return False
		bad = []
		for n in ast.walk(f.node):
			if isinstance(n, ast.Subscript) and not isinstance(n.slice, ast.Slice) and isinstance(n.slice, ast.Constant) and isinstance(n.slice.value, int) and unfiltered(n.value):
				bad.append(n)
			if isinstance(n, ast.Call) and isinstance(n.func, ast.Name) and n.func.id == 'next' and n.args and unfiltered(n.args[0]):
				bad.append(n)
		key = f'{f.qualname}:decorators'
		if bad:
			r.violate(key, (PY2CPP, bad[0].lineno), f'{f.qualname} decides on `{unparse(bad[0])[:80]}`: one fixed position of the decorator list. With another decorator written above it (`@property` / `@Embed.pure` before `@Embed.allow_override`) the decorator is not seen: the base method is emitted without `virtual`, the C++ still compiles, and a call through the base class runs the base implementation where CPython runs the override', unparse(bad[0]))
		else:
			r.ok(key, f.where)
	if n_sites == 0:
		r.skip('decorator-reads', (PY2CPP, 1), 'no function of Py2Cpp reads <node>.decorators')


def rule_constructor_hoisting(rep: Report, idx: SourceIndex, pm: Py2CppModel) -> None:
	"""`self.x = <expr>` at the top level of `__init__` is moved into the member-initialiser list `: x(<expr>)`, which C++ evaluates BEFORE the constructor
	body. That preserves the Python order only for field assignments that no other statement precedes. Hoisting every field assignment, wherever it
	stands, runs it ahead of the statements written before it: `if n < 0: n = 0` / `self.x = n` becomes `P(int n) : x(n) { if (n < 0) { n = 0; } }`
	(P(-5).x: Python 0, C++ -5), and `m = n * 2` / `self.x = m` names `m` before its declaration (does not compile)."""
	from vlib.match import atoms as atoms_, nodes
	r = rep.rule('C01/constructor-hoisting-keeps-statement-order', 'Py2Cpp.on_constructor moves a field assignment into the initialiser list only under a condition that depends on the statements before it (a flag cleared by the first other statement, a break, an index test)', floor=1)
	f = pm.methods.get('on_constructor')
	if f is None:
		r.skip('on_constructor', (PY2CPP, 1), 'Py2Cpp.on_constructor vanished')
		return
	loops = [lp for lp in nodes(f.node, ast.For) if 'statements' in unparse(lp.iter)]
	sites = [(lp, c_) for lp in loops for c_ in nodes(lp, ast.Call) if isinstance(c_.func, ast.Attribute) and c_.func.attr == 'append' and 'initializer' in unparse(c_.func.value)]
	if not sites:
		r.skip('on_constructor', f.where, 'on_constructor no longer collects initialiser statements with `<list>.append(index)` in a loop over the statements')
		return
	for lp, c_ in sites:
		assigned_in_loop = {t.id for a in nodes(lp, (ast.Assign, ast.AugAssign)) for t in (a.targets if isinstance(a, ast.Assign) else [a.target]) if isinstance(t, ast.Name)}
		loop_vars = {x.id for x in ast.walk(lp.target) if isinstance(x, ast.Name)}
		conds = [a for a, _ in atoms_(f.node, c_)]
		order_aware = any({x.id for x in ast.walk(a) if isinstance(x, ast.Name)} & (assigned_in_loop - loop_vars) for a in conds) or any(isinstance(a, ast.Compare) and any(isinstance(x, ast.Call) and isinstance(x.func, ast.Name) and x.func.id == 'len' for x in ast.walk(a)) for a in conds)
		stops = any(isinstance(x, ast.Break) for x in ast.walk(lp))
		r.check(order_aware or stops, 'hoisted-after-other-statements', (PY2CPP, c_.lineno), f'on_constructor hoists every top-level field assignment (`{unparse(c_)}` under {[unparse(a)[:50] for a in conds]}), also one that follows other statements: the initialiser list runs before the constructor body, so `if n < 0: n = 0` / `self.x = n` is emitted `P(int n) : x(n) {{ if (n < 0) {{ n = 0; }} }}` — P(-5).x is 0 under CPython and -5 in C++; with a local computed first (`m = n * 2` / `self.x = m`) the initialiser names an undeclared variable', unparse(c_))


def rule_enumerate_index(rep: Report, tm: TemplateModel) -> None:
	"""`for i, v in enumerate(xs)`: i is the iteration count on EVERY iteration. The statement form declares the index before a range-for and increments
	it inside the body; an increment placed after the user's statements is skipped by a `continue` (`if v == 2: continue` -> every later index is one
	short). The comprehension form steps an iterator in the for-header; a header that never increments the index binding evaluates every element with
	i == 0."""
	N = tm.nodes
	r = rep.rule('C01/enumerate-index-advances-on-every-iteration', 'flow/for/enumerate.j2 increments the index where no `continue` of the body can skip it (not after the statements), and comp/comp_for_enumerate.j2 increments the index in its for-header', floor=2)

	def index_incs(tree) -> list:
		"""outputs `{{ symbols[0] }}++` (or `++{{ symbols[0] }}`, `+= 1`), in document order, as (position, node)"""
		flat = []
		def walk(nodes_list):
			for n in nodes_list:
				if isinstance(n, N.Output):
					for i_, p_ in enumerate(n.nodes):
						flat.append((n, i_, p_))
				for attr in ('body', 'else_', 'elif_'):
					sub = getattr(n, attr, None)
					if isinstance(sub, list):
						if isinstance(n, N.For) and attr == 'body':
							flat.append((n, -1, n))
						walk(sub)
		walk(tree.body)
		return flat
	name = 'flow/for/enumerate'
	if name not in tm.asts:
		r.skip(name, None, f'{name}.j2 vanished')
	else:
		flat = index_incs(tm.asts[name])
		loop_at = next((i for i, (n, k, p_) in enumerate(flat) if k == -1 and isinstance(p_, N.For) and 'statements' in tm._src(p_.iter)), None)
		incs = [i for i, (n, k, p_) in enumerate(flat) if k >= 0 and isinstance(p_, N.Getitem) and tm._src(p_) == 'symbols[0]' and k + 1 < len(n.nodes) and isinstance(n.nodes[k + 1], N.TemplateData) and n.nodes[k + 1].data.lstrip().startswith(('++', ' += 1', '+= 1'))]
		if loop_at is None or not incs:
			r.skip(name, (tm.relpath(name), 1), 'no loop over `statements` or no `symbols[0]++` output found')
		else:
			r.check(all(i < loop_at for i in incs), name, (tm.relpath(name), 1), 'the index increment is emitted AFTER the statements of the loop body: a `continue` in the body jumps over it, so `for i, v in enumerate(ls): if v == 2: continue; t += i * 10` counts 0, 1, 1 instead of 0, 1, 2 (and after the loop the index is one more than the last index Python leaves)', tm.sources[name].strip()[:120])
	name = 'comp/comp_for_enumerate'
	if name not in tm.asts:
		r.skip(name, None, f'{name}.j2 vanished')
	else:
		src = tm.sources[name]
		import re as _re
		stepped = _re.search(r'\{\{\s*symbols\[0\]\s*\}\}\s*(\+\+|\+=)|\+\+\s*\{\{\s*symbols\[0\]\s*\}\}', src) is not None
		r.check(stepped, name, (tm.relpath(name), 1), 'the for-header of the comprehension form steps the iterator and reloads the value but never increments the index binding `symbols[0]`: `[i * v for i, v in enumerate(ls)]` computes every element with i == 0', src.strip()[-140:])


def rule_range_bound_closed(rep: Report, idx: SourceIndex, pm: Py2CppModel, tm: TemplateModel, nm: NodeModel) -> None:
	"""The templates of a range() loop paste the upper bound to the right of `<`: `i < {{ size }}`. In C++ the relational operators bind tighter than
	`==`, `&`, `^`, `|`, `&&`, `||` and `?:` (CPP_PREC), so a bound written with one of them regroups: `range(n | 1)` -> `i < n | 1` = `(i < n) | 1`,
	always true. The value handed to the slot must be closed (parenthesised) whenever the argument node is of an operator class that can render such an
	operator; the classes are derived from the node model (BinaryOperator subclasses and the ternary) minus those whose tokens all bind at least as
	tight as the shift operators."""
	from vlib.match import nodes
	r = rep.rule('C01/range-bound-closed', 'the bound of a range() loop reaches the `<` slot of the template parenthesised whenever its node class can render an operator that binds looser than `<` in C++ (statement form: decided in Py2Cpp.proc_for_range; comprehension form: in comp/comp_for_range.j2)', floor=2)
	tight = {'Sum', 'Term', 'ShiftBitwise'}  # + - * / % << >> bind tighter than <
	binop = nm.by_name.get('BinaryOperator')
	loose = sorted(c.name for c in nm.classes if (binop is not None and binop in idx.mro(c) and c is not binop and c.name not in tight) or c.name == 'TernaryOperator')
	f = pm.methods.get('proc_for_range')
	if f is None:
		r.skip('statement-form', (PY2CPP, 1), 'Py2Cpp.proc_for_range vanished')
	else:
		tested: set[str] = set()
		for n in ast.walk(f.node):
			if isinstance(n, ast.Call) and isinstance(n.func, ast.Name) and n.func.id == 'isinstance' and len(n.args) == 2:
				spec = n.args[1]
				spec = next((a.value for a in ast.walk(f.node) if isinstance(a, ast.Assign) and isinstance(a.targets[0], ast.Name) and isinstance(spec, ast.Name) and a.targets[0].id == spec.id), spec)
				for e in (spec.elts if isinstance(spec, ast.Tuple) else [spec]):
					k = idx.resolve_class(f.module, e)
					if k is not None:
						tested |= {c.name for c in nm.classes if k in idx.mro(c)}
		wraps = any(isinstance(n, ast.JoinedStr) and any(isinstance(v, ast.Constant) and '(' in str(v.value) for v in n.values) for n in ast.walk(f.node))
		missing = sorted(set(loose) - tested)
		if not wraps or not tested:
			r.violate('statement-form', f.where, f'proc_for_range hands the bound to flow/for/range.j2 as written: a bound of class {loose} is pasted to the right of `<` and regroups (`range(n | 1)` -> `i < n | 1`, an endless loop; `range(a if c else b)` -> `j < c ? a : b`)', '')
		elif missing:
			r.violate('statement-form', f.where, f'proc_for_range parenthesises the bound for some operator classes only; not covered: {missing}', '')
		else:
			r.ok('statement-form', f.where, message=f'bound wrapped for {loose}')
		# ... and the node whose class decides is the STOP argument: range(n) -> argument 0, range(b, n) and range(b, n, s) -> argument 1 (the language's
		# reading of the arities). The tested expression is evaluated on representatives for one, two and three arguments.
		import copy
		from vlib import dsneval
		tests = [n.args[0] for n in ast.walk(f.node) if isinstance(n, ast.Call) and isinstance(n.func, ast.Name) and n.func.id == 'isinstance' and len(n.args) == 2]
		class _StripValue(ast.NodeTransformer):
			def visit_Attribute(self, n: ast.Attribute):
				self.generic_visit(n)
				return n.value if n.attr == 'value' else n
		for t_ in tests[:1]:
			fcopy = _StripValue().visit(copy.deepcopy(f.node))
			tcopy = _StripValue().visit(copy.deepcopy(t_))
			arg_exprs = {unparse(x) for x in ast.walk(fcopy) if isinstance(x, ast.Attribute) and x.attr == 'arguments'}
			got = []
			for n_args in (1, 2, 3):
				reps = [f'argument {i}' for i in range(n_args)]
				env = {a: reps for a in arg_exprs}
				got.append(dsneval.evaluate(fcopy, tcopy, env))
			want = ['argument 0', 'argument 1', 'argument 1']
			if any(g is dsneval.UNKNOWN or g is dsneval.RAISES for g in got):
				r.skip('statement-form:stop-argument-decides', (PY2CPP, t_.lineno), f'the node tested by `isinstance({unparse(t_)[:40]}, ...)` could not be evaluated for 1, 2 and 3 range arguments')
			else:
				r.check(got == want, 'statement-form:stop-argument-decides', (PY2CPP, t_.lineno), f'proc_for_range decides the parentheses of the bound by the class of {got} for range() with 1, 2 and 3 arguments; the bound pasted after `<` is {want}: `for i in range(0, a & b, 2)` is emitted `i < a & b`, which C++ reads `(i < a) & b` — another number of iterations', unparse(t_)[:100])
	name = 'comp/comp_for_range'
	if name not in tm.asts:
		r.skip('comprehension-form', None, f'{name}.j2 vanished')
	else:
		src = tm.sources[name]
		import re as _re
		closed = all(m_.group(1).strip().startswith('(') for m_ in _re.finditer(r'<\s*(\(?\s*\{\{\s*args\[[01]\]\s*\}\}\s*\)?)', src)) and _re.search(r'<\s*\(\s*\{\{', src) is not None
		# a descending range (`range(10, 0, -1)`) continues while the counter is GREATER than the bound: a header that always compares with `<` never
		# enters the loop. Both forms must look at the sign of the step (a second comparison, or a conditional) when a step is given
		for tname, key in (('flow/for/range', 'statement-form:descending'), ('comp/comp_for_range', 'comprehension-form:descending')):
			if tname not in tm.asts:
				r.skip(key, None, f'{tname}.j2 vanished')
				continue
			tsrc = _re.sub(r'\|\s*length\s*[<>=!]+\s*\d+', '', tm.sources[tname])  # `args | length > 2` counts arguments, it is no sign test
			sign_aware = '>' in _re.sub(r'-?%\}|\{%-?|-?#\}|\{#-?', '', tsrc).replace('->', '') and _re.search(r'\bstep\b[^\n]*[<>]\s*0|[<>]\s*0[^\n]*\bstep\b|args\[2\][^\n]*[<>]', tsrc) is not None
			r.check(sign_aware, key, (tm.relpath(tname), 1), f'{tname}.j2 compares the counter with the bound by `<` whatever the step is: `for k in range(10, 0, -1)` is emitted `for (auto k = 10; k < 0; k += -1)` and never runs, CPython iterates 10 .. 1', tsrc.strip()[:140])
		r.check(closed, 'comprehension-form', (tm.relpath(name), 1), 'comp/comp_for_range.j2 pastes the bound after `<` without parentheses (`{{ symbols[0] }} < {{ args[0] }}`): `[i for i in range(n | 1)]` is emitted `for (auto i = 0; i < n | 1; i++)`', src.strip()[-160:])


def rule_comment_line(rep: Report, tm: TemplateModel) -> None:
	"""A Python comment is emitted as a C++ line comment `//<text>`. In C++ a backslash directly before the line break SPLICES the next line onto the
	comment (translation phase 2, before comments are removed): `# see dir\\` followed by `x = n` loses the assignment. The template must keep the text
	from ending in a backslash (append something, or use another comment form)."""
	N = tm.nodes
	r = rep.rule('C01/line-comment-cannot-splice', 'statement/comment.j2 does not end the emitted `//` comment with the comment text itself unconditionally: a text ending in a backslash is followed by something else (or rendered in another form)', floor=1)
	name = 'statement/comment'
	if name not in tm.asts:
		r.skip(name, None, 'statement/comment.j2 vanished')
		return
	tree = tm.asts[name]
	outs = [p_ for o in tree.find_all(N.Output) for p_ in o.nodes]
	if not outs or not any(isinstance(p_, N.TemplateData) and '//' in p_.data for p_ in outs):
		r.skip(name, (tm.relpath(name), 1), 'the comment is no longer emitted as a `//` line comment')
		return
	last = [p_ for p_ in outs if not (isinstance(p_, N.TemplateData) and not p_.data.strip())]
	tail = last[-1]
	looks = any('endswith' in tm._src(x) or '[-1]' in tm._src(x) for x in tree.find_all((N.CondExpr, N.If, N.Filter, N.Call, N.Getitem, N.Test)))
	if isinstance(tail, N.Name) and not looks:
		r.violate(name, (tm.relpath(name), 1), f'the emitted line ends with the comment text `{{{{ {tail.name} }}}}` as written: `# see dir\\\\` becomes `// see dir\\\\`, the backslash-newline splices the following C++ line into the comment, and the statement after the comment silently vanishes (`x = n` after such a comment: the function returns the old x)', tm.sources[name].strip())
	else:
		r.ok(name, (tm.relpath(name), 1))


# ISO C++ <stdexcept> / <exception>: class -> direct base (trusted table)
STD_EXCEPTION_BASE = {
	'std::exception': None,
	'std::logic_error': 'std::exception', 'std::runtime_error': 'std::exception', 'std::bad_alloc': 'std::exception', 'std::bad_cast': 'std::exception',
	'std::invalid_argument': 'std::logic_error', 'std::domain_error': 'std::logic_error', 'std::length_error': 'std::logic_error', 'std::out_of_range': 'std::logic_error',
	'std::range_error': 'std::runtime_error', 'std::overflow_error': 'std::runtime_error', 'std::underflow_error': 'std::runtime_error', 'std::system_error': 'std::runtime_error',
}


def rule_exception_aliases(rep: Report, idx: SourceIndex) -> None:
	"""`except B` catches every exception whose class derives from B. The exception classes of the library stub are renamed to C++ classes through
	data/i18n.yml; the renaming must keep the order: when Python class A derives from B, alias(A) must be a PROPER descendant of alias(B) in the C++
	hierarchy, and the alias of `Exception` — the class every handler of last resort names — must be the root `std::exception`, or the exceptions the
	C++ runtime itself throws (std::stoi -> std::invalid_argument for `int('abc')`) pass by `except Exception` and terminate the program."""
	try:
		import yaml
	except ImportError as e:
		raise AnalysisError(f'PyYAML not importable: {e}')
	r = rep.rule('C01/exception-aliases-keep-the-hierarchy', 'for exception classes A < B of the library stub with C++ aliases in data/i18n.yml, alias(A) is a proper descendant of alias(B) in the ISO C++ exception hierarchy; alias(Exception) is std::exception', floor=2)
	with open(os.path.join(REPO, 'data/i18n.yml'), encoding='utf-8') as fh:
		data = yaml.safe_load(fh)
	stub = idx.mod('rogw/tranp/compatible/libralies/classes.py')
	rep.consulted(stub.relpath, 'data/i18n.yml')
	prefix = 'aliases.rogw.tranp.compatible.libralies.classes#'
	alias = {k[len(prefix):]: str(v) for k, v in data.items() if isinstance(k, str) and k.startswith(prefix)}
	base_exc = stub.cls('BaseException')
	excs = [c for c in stub.classes.values() if base_exc is not None and base_exc in idx.mro(c) and c.name in alias]
	if not excs:
		r.skip('exception-aliases', (stub.relpath, 1), 'no aliased exception class found in the library stub')
		return

	def ancestors(cpp: str) -> list[str]:
		out = []
		cur = STD_EXCEPTION_BASE.get(cpp)
		while cur is not None:
			out.append(cur)
			cur = STD_EXCEPTION_BASE.get(cur)
		return out
	for c in sorted(excs, key=lambda c_: c_.name):
		if alias[c.name] not in STD_EXCEPTION_BASE:
			r.skip(f'{c.name}->{alias[c.name]}', ('data/i18n.yml', 1), f'`{alias[c.name]}` is not a class of the ISO C++ exception table this check holds')
			continue
		if c.name == 'Exception':
			r.check(alias[c.name] == 'std::exception', 'Exception->root', ('data/i18n.yml', 1), f'`Exception` is renamed `{alias[c.name]}`: `except Exception as e:` becomes `catch ({alias[c.name]} e)`, which does not catch the exceptions the C++ library raises on its own (`int("abc")` -> std::stoi throws std::invalid_argument, a std::logic_error): the handler CPython runs is skipped and the program terminates', f'{prefix}Exception: {alias[c.name]}')
		for b in idx.mro(c)[1:]:
			if b.name not in alias or alias[b.name] not in STD_EXCEPTION_BASE:
				continue
			r.check(alias[b.name] in ancestors(alias[c.name]), f'{c.name}<{b.name}', ('data/i18n.yml', 1), f'Python `{c.name}` derives from `{b.name}`, but its alias `{alias[c.name]}` is not a proper descendant of `{alias[b.name]}`: `except {b.name}` no longer catches exactly what it catches under CPython (identical aliases give two identical catch clauses; unrelated ones let the exception pass)', f'{c.name}: {alias[c.name]} / {b.name}: {alias[b.name]}')
