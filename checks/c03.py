"""C03 — inferred static types equal run-time types: narrow structural clauses (stub operator signatures vs CPython,
operator-token -> dunder table, literal handlers, index-path anchoring)."""
from __future__ import annotations

import ast
import operator as pyop

from vlib.anchoring import Taint, find_sites
from vlib.core import AnalysisError, Report
from vlib.nodemodel import NodeModel
from vlib.flow import parent_map
from vlib.match import FI, X, atoms, closure, has_call, nodes, resolved_returns
from vlib.srcindex import SourceIndex, attr_chain, const_str, unparse, walk_no_nested

EXPLANATION = (
	'Four necessary conditions of "inferred type == run-time type" that are visible in the source: '
	'(a) for the stub classes bound to int/float/bool/str/list, every operator / conversion dunder declares, for every admitted operand type, the result type CPython computes on constants; '
	'(b) the operator-token -> special-method table agrees with the method CPython dispatches for that token (recorded with a probe object), for every token the resolver consults; '
	'(c) literal and boolean-valued resolver handlers return from_standard(T) with T the standard type of that node class; '
	'(e) containment tests on flattened index paths (seqs.expand keys such as parameters.1.0) are element-anchored. '
	'Scope lookup, inheritance walk and template substitution over run-time data are not decided.'
)
ASSUMPTIONS = ['CPython result types are computed on sample constants (7, 2, 7.5, 2.0, True, "ab"); operator result types of the scalar builtins do not depend on the value',
	'finder.py / resolve_unknown.py / symbol_extends.py logic is outside static reach']
TRUSTED_BASE = ['CPython builtins as oracle for operator result types and dunder dispatch', 'CPython ast']

CLASSES_PY = 'rogw/tranp/compatible/libralies/classes.py'
SAMPLES = {'int': [7, 2], 'float': [7.5, 2.0], 'bool': [True, True], 'str': ['ab', 'c'], 'list': [[1, 2], [3]]}
BINARY = {'__add__': pyop.add, '__sub__': pyop.sub, '__mul__': pyop.mul, '__truediv__': pyop.truediv, '__floordiv__': pyop.floordiv, '__mod__': pyop.mod, '__pow__': pyop.pow,
	'__and__': pyop.and_, '__or__': pyop.or_, '__xor__': pyop.xor, '__lshift__': pyop.lshift, '__rshift__': pyop.rshift,
	'__eq__': pyop.eq, '__ne__': pyop.ne, '__lt__': pyop.lt, '__gt__': pyop.gt, '__le__': pyop.le, '__ge__': pyop.ge, '__contains__': pyop.contains}
UNARY = {'__neg__': pyop.neg, '__pos__': pyop.pos, '__invert__': pyop.invert, '__int__': int, '__float__': float, '__str__': str, '__bool__': bool, '__abs__': abs}


def _actual_name(c) -> str | None:
	for d in c.node.decorator_list:
		if isinstance(d, ast.Call) and attr_chain(d.func) == '__actual__' and d.args:
			return const_str(d.args[0])
	return None


def _members(ann: ast.AST | None, self_name: str) -> list[str]:
	if ann is None:
		return []
	if isinstance(ann, ast.BinOp) and isinstance(ann.op, ast.BitOr):
		return _members(ann.left, self_name) + _members(ann.right, self_name)
	if isinstance(ann, ast.Name):
		return [self_name if ann.id == 'Self' else ann.id]
	if isinstance(ann, ast.Subscript):
		return _members(ann.value, self_name)
	if isinstance(ann, ast.Constant) and ann.value is None:
		return ['None']
	return [unparse(ann)]


def run(rep: Report, tier: str) -> None:
	idx = SourceIndex()
	rule_a(rep, idx)
	rule_b(rep, idx)
	rule_c(rep, idx)
	rule_e(rep, idx)
	rule_f(rep, idx)
	rule_chain_fold(rep, idx)
	rule_iteration_protocol(rep, idx)
	rule_template_path_match(rep, idx)
	rule_attr_walkers(rep, idx)
	rule_ternary_merge(rep, idx)
	rule_receiver_kinds(rep, idx)
	rule_member_binding(rep, idx)
	rule_actualize_order(rep, idx)
	rule_dispatch_chains(rep, idx)


def rule_a(rep: Report, idx: SourceIndex) -> None:
	r = rep.rule('C03/stub-operator-types', 'for int/float/bool/str/list stubs: declared result type of each operator/conversion dunder == type CPython computes, per admitted operand type', floor=60)
	m = idx.mod(CLASSES_PY)
	rep.consulted(CLASSES_PY)
	stubs = {}
	for c in m.classes.values():
		n = _actual_name(c)
		if n in SAMPLES:
			stubs[n] = c
	if set(stubs) != set(SAMPLES):
		raise AnalysisError(f'C03-a: stub classes for {sorted(set(SAMPLES) - set(stubs))} not found in classes.py')
	for name, c in stubs.items():
		for mname, defs in c.methods.items():
			f = defs[-1]
			where = f.where
			ret = _members(f.node.returns, name)
			if mname in BINARY:
				params = f.node.args.args
				if len(params) != 2:
					r.undecided(f'{name}.{mname}', where, 'binary operator stub without exactly one operand parameter')
					continue
				others = [t for t in _members(params[1].annotation, name) if t in SAMPLES]
				if name == 'list' and not others:
					others = [t for t in _members(params[1].annotation, name) if t in ('int',)] or []
				for other in others or []:
					a, b = SAMPLES[name][0], SAMPLES[other][1]
					try:
						got = type(BINARY[mname](a, b)).__name__
					except TypeError:
						got = 'TypeError'
					key = f'{name}.{mname}({other})'
					if got == 'TypeError':
						r.violate(key, where, f'stub admits `{name} {mname} {other}` which CPython rejects with TypeError', unparse(f.node).split('\n')[0])
					else:
						r.check(ret == [got], key, where, f'stub declares {name}.{mname}({other}) -> {"|".join(ret)} but CPython computes {got} (e.g. {a!r} . {b!r})', unparse(f.node).split('\n')[0])
				if not others and name != 'list':
					r.undecided(f'{name}.{mname}', where, f'no sampled operand type among {_members(params[1].annotation, name)}')
				if name == 'list' and mname == '__mul__':
					got = type(BINARY[mname](SAMPLES['list'][0], 2)).__name__
					r.check(ret == [got], f'list.__mul__(int)', where, f'stub declares list.__mul__ -> {ret}, CPython computes {got}')
			elif mname in UNARY:
				try:
					v = SAMPLES[name][0] if not (name == 'str' and mname in ('__int__', '__float__')) else '7'
					got = type(UNARY[mname](v)).__name__
				except (TypeError, ValueError):
					got = 'TypeError'
				r.check(ret == [got], f'{name}.{mname}()', where, f'stub declares {name}.{mname}() -> {"|".join(ret)} but CPython computes {got}', unparse(f.node).split('\n')[0])
	# methods of str/list returning a scalar: compare the outer result type on samples (None-returning methods are statement-only in well-typed programs: noted, not decided)
	r2 = rep.rule('C03/stub-method-types', 'str/list stub methods: declared outer result type == type CPython returns on samples (methods returning None in CPython are noted only)', floor=15)
	str_calls = {'split': (',',), 'join': (['a', 'b'],), 'replace': ('a', 'b'), 'lstrip': ('a',), 'rstrip': ('a',), 'strip': ('a',), 'find': ('a',), 'rfind': ('a',), 'count': ('a',),
		'startswith': ('a',), 'endswith': ('a',), 'upper': (), 'lower': (), 'encode': ()}
	list_calls = {'index': (1,), 'pop': (), 'copy': (), 'append': (3,), 'insert': (0, 3), 'extend': ([3],), 'remove': (1,), 'sort': (), 'reverse': (), 'clear': ()}
	for name, calls, sample in (('str', str_calls, 'a,b'), ('list', list_calls, [1, 2])):
		for mname, args in calls.items():
			f = stubs[name].method(mname)
			if f is None:
				continue
			recv = sample[:] if isinstance(sample, list) else sample
			got = getattr(recv, mname)(*args)
			ret = _members(f.node.returns, name)
			gname = type(got).__name__
			if got is None:
				if ret != ['None']:
					r2.note(f'{name}.{mname} returns None in CPython but the stub declares {ret} (value never used in a well-typed program; not decided)')
				r2.ok(f'{name}.{mname}', f.where)
				continue
			exp = [gname]
			if ret == ['T_Value']:
				exp = ['T_Value'] if isinstance(got, int) and name == 'list' else exp
			r2.check(ret == exp, f'{name}.{mname}', f.where, f'stub declares {name}.{mname}(...) -> {"|".join(ret)} but CPython returns {gname}', unparse(f.node).split('\n')[0])


class _Probe:
	"""records which special method CPython dispatches for an operator token"""
	def __init__(self, log): self.log = log
	def __getattr__(self, name): raise AttributeError(name)


def _dispatched(tok: str) -> str | None:
	log: list[str] = []
	ns = {}
	names = ['__add__', '__sub__', '__mul__', '__truediv__', '__floordiv__', '__mod__', '__pow__', '__matmul__', '__and__', '__or__', '__xor__', '__lshift__', '__rshift__',
		'__eq__', '__ne__', '__lt__', '__gt__', '__le__', '__ge__', '__contains__']
	body = {n: (lambda n: lambda self, other: (log.append(n), True)[1])(n) for n in names}
	body['__hash__'] = lambda self: 0
	P = type('P', (), body)
	try:
		eval(f'a {tok} b', {'a': P(), 'b': P()})
	except Exception:
		return None
	return log[0] if log else None


def rule_b(rep: Report, idx: SourceIndex) -> None:
	r = rep.rule('C03/operator-dunder-table', 'operator token -> special method table == the method CPython dispatches for the token, for every arithmetic/bitwise token the resolver consults', floor=10)
	m = idx.mod('rogw/tranp/syntax/node/definition/accessible.py')
	rep.consulted(m.relpath)
	c = m.cls('PythonClassOperations')
	table = None
	for k, v in c.class_attrs.items():
		if k.endswith('operators') and isinstance(v, ast.Dict):
			table = v
	if table is None:
		raise AnalysisError('C03-b: PythonClassOperations.__operators dict literal not found')
	rows = {const_str(k): (const_str(v), k.lineno) for k, v in zip(table.keys, table.values)}
	# the exemption of comparison/identity rows is valid only while the comparison handlers return bool without consulting the table
	refl = idx.mod('rogw/tranp/semantics/reflections.py')
	rep.consulted(refl.relpath)
	pr = refl.cls('ProceduralResolver')
	cmp_handlers = ['on_comparison', 'on_not_compare', 'on_or_compare', 'on_and_compare']
	def _const_bool(f) -> bool:
		if f is None:
			return False
		rets = resolved_returns(f)
		return bool(rets) and all(any(unparse(c_.func).endswith('from_standard') and [unparse(a) for a in c_.args] == ['bool'] for c_ in nodes(v, ast.Call)) for v in rets) and not has_call(closure(f), 'each_binary_operator')
	cmp_const = all(_const_bool(pr.method(h)) for h in cmp_handlers)
	arth = c.method('arthmetical')
	arth_tokens = []
	if arth is not None:
		for n in ast.walk(arth.node):
			if isinstance(n, (ast.List, ast.Tuple, ast.Set)) and n.elts and all(const_str(e) is not None for e in n.elts):
				arth_tokens = [const_str(e) for e in n.elts]
	for tok, (dunder, line) in rows.items():
		if tok is None:
			continue
		is_cmp = tok in ('or', 'and', '==', '<', '>', '<=', '>=', '<>', '!=', 'in', 'not.in', 'is', 'is.not')
		if is_cmp:
			if cmp_const:
				continue  # never consulted for typing: comparison handlers are constant bool
			got = _dispatched(tok.replace('.', ' '))
		else:
			got = _dispatched(tok)
		r.check(got == dunder, f'token {tok}', (m.relpath, line), f'table maps `{tok}` to {dunder} but CPython dispatches {got}: operator typing would read the wrong stub signature')
	rule_unchecked(rep, idx, m, c, rows, arth_tokens)
	r.check(cmp_const, 'comparison-handlers-constant', pr.where, 'a comparison handler no longer returns from_standard(bool) directly; the comparison rows of the table must then be checked too')


def rule_unchecked(rep: Report, idx: SourceIndex, acc_mod, ops_cls, rows: dict, arth_tokens: list) -> None:
	"""OperationTrait.try_operation checks the operand type against the stub parameter only for arthmetical() tokens; for every other token the
	declared result of the left operand's stub is returned for ANY right operand. That is sound only if the stub result equals what CPython computes
	for every scalar right operand CPython accepts. Likewise on_factor returns the operand type unchanged for every unary operator."""
	r = rep.rule('C03/unchecked-operand-results', 'for operator tokens typed without an operand check (not in arthmetical()), and for unary operators (typed as the operand), the inferred result type equals CPython\'s for every scalar operand type CPython accepts', floor=20)
	tr = idx.mod('rogw/tranp/semantics/reflection/traits.py')
	rep.consulted(tr.relpath)
	top = tr.func('OperationTrait.try_operation')
	tx = X(top)
	unchecked = [n for n in nodes(tx, ast.Return) if isinstance(n.value, ast.Call) and isinstance(n.value.func, ast.Attribute) and n.value.func.attr == 'returns' and len(n.value.args) == 1 and unparse(n.value.args[0]) in top.params()
		and any(not p_ and isinstance(a, ast.Call) and unparse(a.func).endswith('.arthmetical') for a, p_ in atoms(tx, n))]
	if not unchecked:
		r.skip('try_operation-shape', top.where, 'OperationTrait.try_operation no longer returns method.returns(value) unchecked for non-arthmetical() operators; this rule is moot')
		r.floor = 1
		return
	m = idx.mod(CLASSES_PY)
	stubs = {}
	for c in m.classes.values():
		n = _actual_name(c)
		if n in ('int', 'float', 'bool'):
			stubs[n] = c
	for tok, (dunder, line) in rows.items():
		if tok is None or tok in arth_tokens or dunder not in BINARY or tok in ('or', 'and', '==', '<', '>', '<=', '>=', '<>', '!=', 'in', 'not.in', 'is', 'is.not'):
			continue
		for sname, sc in stubs.items():
			f = sc.method(dunder)
			if f is None:
				continue
			ret = _members(f.node.returns, sname)
			for oname in ('int', 'bool', 'float'):
				a, b = SAMPLES[sname][0], SAMPLES[oname][1]
				try:
					got = type(BINARY[dunder](a, b)).__name__
				except TypeError:
					continue  # CPython rejects the combination: outside the domain
				key = f'{sname} {tok} {oname}'
				r.check(ret == [got], key, f.where, f'`{tok}` is typed without checking the right operand, so `{sname} {tok} {oname}` is inferred as {"|".join(ret)} (stub {sname}.{dunder}), but CPython yields {got} (e.g. {a!r} {tok} {b!r} == {BINARY[dunder](a, b)!r}): the C++ declaration gets the wrong type', unparse(f.node).split('\n')[0])
	# unary operators
	refl = idx.mod('rogw/tranp/semantics/reflections.py')
	of = refl.cls('ProceduralResolver').method('on_factor')
	ofx = FI(of) if of is not None else None
	rets = [n.value for n in nodes(ofx, ast.Return)] if ofx is not None else []
	ops = of.params() if of is not None else []
	unchanged = len(rets) == 1 and isinstance(rets[0], ast.Call) and isinstance(rets[0].func, ast.Attribute) and rets[0].func.attr == 'stack' and len(ops) >= 4 and unparse(rets[0].func.value) == ops[3]
	if not unchanged:
		r.skip('on_factor-shape', (of or refl.cls('ProceduralResolver')).where, 'ProceduralResolver.on_factor no longer returns the operand type unchanged; the unary part of this rule is moot')
		return
	from vlib.grammar import GrammarModel, ladder
	gm = GrammarModel()
	unary = next((lv.tokens for lv in ladder(gm) if lv.kind == 'prefix' and lv.tag == 'factor'), None)
	if not unary:
		r.skip('unary-tokens', (gm.relpath, 1), 'factor level not found in the grammar ladder')
		return
	fn = {'-': pyop.neg, '+': pyop.pos, '~': pyop.invert}
	for tok in unary:
		for sname in ('int', 'float', 'bool'):
			try:
				got = type(fn[tok](SAMPLES[sname][0])).__name__
			except TypeError:
				continue
			r.check(got == sname, f'unary {tok}{sname}', of.where, f'on_factor types `{tok}x` as the type of x, but for x: {sname} CPython yields {got} (e.g. {tok}{SAMPLES[sname][0]!r} == {fn[tok](SAMPLES[sname][0])!r})', 'return value.stack(node)')


def rule_c(rep: Report, idx: SourceIndex) -> None:
	r = rep.rule('C03/literal-handler-types', 'literal and boolean-valued resolver handlers return from_standard(T) where T is the standard type of the node class', floor=14)
	refl = idx.mod('rogw/tranp/semantics/reflections.py')
	pr = refl.cls('ProceduralResolver')
	nm = NodeModel(idx)
	lit = idx.mod('rogw/tranp/syntax/node/definition/literal.py')
	rep.consulted(lit.relpath)

	def literal_identifier(cls_name: str) -> str | None:
		c = nm.by_name.get(cls_name)
		if c is None:
			return None
		f = idx.lookup(c, 'literal_identifier')
		if f is None:
			return None
		for n in ast.walk(f.node):
			if isinstance(n, ast.Return) and const_str(n.value) is not None:
				return const_str(n.value)
			if isinstance(n, ast.Return) and isinstance(n.value, ast.Attribute) and n.value.attr == '__name__' and isinstance(n.value.value, ast.Name):
				return n.value.value.id
		return None

	expect = {}
	for h, cls_name in (('on_integer', 'Integer'), ('on_float', 'Float'), ('on_string', 'String'), ('on_doc_string', 'DocString'), ('on_truthy', 'Truthy'), ('on_falsy', 'Falsy'),
		('on_list', 'List'), ('on_dict', 'Dict'), ('on_tuple', 'Tuple'), ('on_pair', 'Pair'), ('on_null', 'Null')):
		li = literal_identifier(cls_name)
		if li is None:
			r.undecided(h, pr.where, f'literal_identifier of {cls_name} not found as a constant')
			continue
		expect[h] = {'Pair': 'tuple'}.get(li, li)
	for h in ('on_comparison', 'on_not_compare', 'on_or_compare', 'on_and_compare'):
		expect[h] = 'bool'
	expect['on_list_comp'] = 'list'
	expect['on_dict_comp'] = 'dict'
	for h, t in expect.items():
		f = pr.method(h)
		if f is None:
			r.violate(h, pr.where, f'handler {h} vanished from ProceduralResolver (the node kind would resolve to Unknown through on_fallback)')
			continue
		# the outermost from_standard(...) whose result is stacked on the node
		tops = []
		for e in resolved_returns(f):
			if True:
				# unwrap `.stack(node)`, `.extends(...)`, `x.to(node, Y)`
				while isinstance(e, ast.Call) and isinstance(e.func, ast.Attribute) and e.func.attr in ('stack', 'extends'):
					e = e.func.value
				if isinstance(e, ast.Call) and isinstance(e.func, ast.Attribute) and e.func.attr == 'to' and len(e.args) == 2:
					e = e.args[1]
					while isinstance(e, ast.Call) and isinstance(e.func, ast.Attribute) and e.func.attr in ('stack', 'extends'):
						e = e.func.value
				if isinstance(e, ast.Call) and isinstance(e.func, ast.Attribute) and e.func.attr == 'from_standard' and e.args:
					tops.append(unparse(e.args[0]))
				else:
					tops.append(f'<{unparse(e)[:40]}>')
		r.check(bool(tops) and all(x == t for x in tops), f'{h}->{t}', f.where, f'{h} returns from_standard({tops}) but the node class denotes {t}', unparse(f.node).split('\n')[0])
	# `a or b` / `a and b` evaluate to one of their OPERANDS: the result is bool only when the operands are. A handler that never looks at its operands
	# types `'' or 'x'` as bool (CPython: str)
	for h in ('on_or_compare', 'on_and_compare'):
		f = pr.method(h)
		if f is None:
			continue
		ops = [p_ for p_ in f.params() if p_ not in ('self', 'node')]
		read = any(isinstance(n, ast.Name) and n.id in ops and isinstance(n.ctx, ast.Load) for n in ast.walk(f.node))
		tok = 'or' if 'or' in h else 'and'
		r.check(read, f'{h}:operands-ignored', f.where, f'{h} types every `a {tok} b` as bool without looking at the operand types: for operands that are not bool CPython yields one of the operands (`a {tok} b` with a, b: str is a str), while the declaration reads `bool c = a {"||" if tok == "or" else "&&"} b`', unparse(f.node).split('\n')[0])


def rule_e(rep: Report, idx: SourceIndex) -> None:
	r = rep.rule('C03/index-path-anchoring', 'prefix/suffix tests on flattened index paths (seqs.expand keys like parameters.1.0) are anchored on "." or compare whole elements', floor=3)
	exempt = {
		"rogw/tranp/semantics/reflection/helper/template.py:Method.templates:path.startswith('klass')": "first path element is one of the fixed keyword names klass/parameters/returns/parameter/temp; none of the others starts with 'klass'",
	}
	files = ['rogw/tranp/semantics/reflection/helper/template.py', 'rogw/tranp/semantics/reflection/serializer.py', 'rogw/tranp/lang/sequence.py']
	n = 0
	for rel in files:
		m = idx.mod(rel)
		rep.consulted(rel)
		for q, f in m.functions.items():
			if '#' in q:
				continue
			# in these files every str the sinks see is an index path: label all of them
			def ptaint(fn, p):
				ann = unparse(p.annotation) if p.annotation is not None else ''
				if ann == 'str':
					return {'indexpath'}
				if ann.startswith(('dict[str', 'list[str')) or ann in ('SymbolMap', 'TemplateMap', 'UpdateMap'):
					return {'indexpath[]'}
				if fn.name == '_deserialize_attrs' and p.arg == 'data_attrs':
					return {'indexpath[]'}
				return None
			def ctaint(tt, e):
				nm = attr_chain(e.func) or ''
				if nm.endswith(('unpack_templates', 'unpack_symbols', '_normalize_props', 'seqs.expand', 'make_updates')):
					return {'indexpath[]'}
				return None
			t = Taint(f, lambda e: None, ptaint, ctaint)
			# keys of the path maps are index paths: `for key in keys`, `for path, x in m.items()`, `keys = list(props.keys())`
			for node in walk_no_nested(f.node):
				if isinstance(node, ast.Assign) and isinstance(node.value, ast.Call) and unparse(node.value).startswith(('DSN.left(', 'DSN.right(', 'DSN.shift(')):
					for tg in node.targets:
						t._bind(tg, {'indexpath'})
			for s in find_sites(f, t):
				if s.kind not in ('prefix', 'suffix', 'substr', 'slicelen', 'lencmp', 'order') or not s.labels:
					continue
				n += 1
				where = (rel, s.node.lineno)
				if s.anchored:
					r.ok(s.key, where, fragment=s.text)
				elif s.key in exempt:
					r.ok(s.key, where, message='exempt: ' + exempt[s.key], fragment=s.text)
				else:
					r.violate(s.key, where, (f'`{s.text}` orders index paths by string comparison: "10" sorts before "2", so sibling attributes are permuted once a level has more than ten entries' if s.kind == 'order' else '') or f'{s.kind} test `{s.text}` on an index path is not anchored on ".": `parameters.1` is a string prefix of `parameters.10`, so a signature with more than ten entries at one level matches the wrong path', s.text)


# ---- (f) constants matched against entry paths must allow for indexed elements ------------------------------------------------------

def rule_f(rep: Report, idx: SourceIndex) -> None:
	"""scope visibility (finder.py) and node matchers inspect entry paths textually. A path element is written `tag[i]` whenever the tag repeats among
	its siblings, so a constant that spells a complete element `tag.` of a repeatable tag only matches the un-indexed form (e.g. a class with one method)."""
	from vlib.grammar import GrammarModel
	r = rep.rule('C03/path-constants-index-aware', 'a constant matched against an entry path (not de_identify()-ed) does not spell a complete element of a tag that can repeat among siblings (it would be written tag[i] and never match)', floor=2)
	gm = GrammarModel()
	rep.consulted(gm.relpath)
	repeatable: set[str] = set()
	for tag, prods in gm.productions().items():
		for p in prods:
			seen: dict[str, int] = {}
			for s_ in p:
				for t in s_.tags:
					seen[t] = seen.get(t, 0) + (2 if s_.mult == 'many' else 1)
			repeatable |= {t for t, k in seen.items() if k > 1}
	files = ['rogw/tranp/semantics/finder.py', 'rogw/tranp/semantics/reflections.py'] + idx.glob('rogw/tranp/syntax/node/definition/*.py') + ['rogw/tranp/syntax/node/query.py', 'rogw/tranp/syntax/node/node.py'] + idx.glob('rogw/tranp/semantics/processors/*.py')

	def consts_of(e: ast.AST) -> list[str]:
		if isinstance(e, ast.Constant) and isinstance(e.value, str):
			return [e.value]
		if isinstance(e, ast.Tuple):
			return [c for x in e.elts for c in consts_of(x)]
		if isinstance(e, ast.JoinedStr):
			return [v.value for v in e.values if isinstance(v, ast.Constant) and isinstance(v.value, str)]
		return []

	for rel in files:
		m = idx.mod(rel)
		for q, f in m.functions.items():
			if '#' in q:
				continue
			t = Taint(f, lambda e: {'tagpath'} if e.attr in ('full_path',) or (e.attr == 'origin' and 'path' in unparse(e.value).lower() and 'de_identify' not in unparse(e.value)) else None, lambda fn, p: None)
			for node in walk_no_nested(f.node):
				pats: list[str] = []
				recv = None
				kind = None
				if isinstance(node, ast.Call) and isinstance(node.func, ast.Attribute) and node.func.attr in ('startswith', 'endswith', 'replace', 'find', 'count', 'split') and node.args:
					recv, kind = node.func.value, node.func.attr
					pats = consts_of(node.args[0])
				elif isinstance(node, ast.Compare) and len(node.ops) == 1 and isinstance(node.ops[0], (ast.In, ast.NotIn)):
					recv, kind = node.comparators[0], 'in'
					pats = consts_of(node.left)
				if recv is None or not pats or 'tagpath' not in t.of(recv) or 'de_identify' in unparse(recv):
					continue
				rep.consulted(rel)
				for pat in pats:
					elems = pat.split('.')
					# complete elements: all but the last (the last may continue with `[i]`), and for endswith also the last
					complete = [e for e in elems[:-1] if e] + ([elems[-1]] if kind == 'endswith' and elems[-1] else [])
					bad = [e for e in complete if e in repeatable]
					key = f'{rel}:{q}:{unparse(node)[:60]}:{pat}'
					r.check(not bad, key, (rel, node.lineno), f'`{unparse(node)[:90]}` matches the entry path against {pat!r}; the element(s) {bad} can repeat among siblings and are then written `{bad[0] if bad else ""}[i]`, so the constant only matches when there is exactly one (e.g. a class with a single method): the decision silently flips for larger inputs', unparse(node)[:120])


def rule_chain_fold(rep: Report, idx: SourceIndex) -> None:
	"""a flattened same-level chain `a * b / c` is typed step by step; each step must look up the dunder of ITS operator"""
	from vlib import fold
	r = rep.rule('C03/chain-typed-per-operator', 'ProceduralResolver.each_binary_operator types a flattened operator chain left to right, and the operator handed to try_operation varies with the step (the i-th operator for the i-th step)', floor=2)
	refl = idx.mod('rogw/tranp/semantics/reflections.py')
	f = refl.cls('ProceduralResolver').method('each_binary_operator')
	if f is None:
		raise AnalysisError('ProceduralResolver.each_binary_operator vanished')
	ops = [c_ for c_ in ast.walk(f.node) if isinstance(c_, ast.Call) and isinstance(c_.func, ast.Attribute) and c_.func.attr == 'try_operation' and c_.args]
	if not ops:
		r.skip('operator-per-step', f.where, 'each_binary_operator no longer calls try_operation(operator, operand)')
	for c_ in ops:
		lp = fold.enclosing_loop(f.node, c_)
		if lp is None:
			r.skip(f'operator-per-step:{unparse(c_)[:50]}', (refl.relpath, c_.lineno), 'try_operation is not called inside a loop over the chain')
			continue
		r.check(fold.is_variant(lp, c_.args[0]), f'operator-per-step:{unparse(c_)[:50]}', (refl.relpath, c_.lineno), f'`{unparse(c_)}` uses the operator `{unparse(c_.args[0])}`, which does not change from one step of the chain to the next: every step of `a * b / c` is then typed with the first operator\'s dunder (int.__mul__ -> int) although the second step is a true division (float)', unparse(c_))
	params = f.params()
	roots = set(params[1:]) | {'node_of_elements'}
	back = fold.backward_consumers(f.node, roots)
	r.check(not back, 'front-to-back', f.where, f'the chain is consumed from the end ({[unparse(b) for b in back][:2]}): typing must follow Python\'s left-to-right evaluation of a same-level chain')


def rule_iteration_protocol(rep: Report, idx: SourceIndex) -> None:
	"""`for x in obj`: the elements are what `__next__` of the iterator returns. For a class that is its own iterator (`__iter__` returns the class,
	`__next__` returns T) the element type is T, so the resolver must look for `__next__` first and use `__iter__` only as the fallback."""
	r = rep.rule('C03/iteration-protocol-order', 'IteratorTrait resolves the element type through __next__ first and falls back to __iter__ (the names come from PythonClassOperations.iterator / .iterable)', floor=2)
	tr = idx.mod('rogw/tranp/semantics/reflection/traits.py')
	acc = idx.mod('rogw/tranp/syntax/node/definition/accessible.py')
	ops = acc.cls('PythonClassOperations')
	names = {k: const_str(v) for k, v in ops.class_attrs.items() if k in ('iterator', 'iterable')}
	r.check(names == {'iterator': '__next__', 'iterable': '__iter__'}, 'operation-names', ops.where, f'PythonClassOperations.iterator / iterable are {names}; Python: the iterator method is __next__, the iterable method is __iter__')
	f = tr.cls('IteratorTrait').method('_resolve_method') if 'IteratorTrait' in tr.classes else None
	if f is None:
		r.skip('lookup-order', (tr.relpath, 1), 'IteratorTrait._resolve_method vanished')
		return
	fx = X(f)
	pm_ = parent_map(fx)
	tried = []
	for c_ in nodes(fx, ast.Call):
		if unparse(c_.func).endswith('.resolve') and len(c_.args) == 2 and isinstance(c_.args[1], ast.Attribute) and c_.args[1].attr in ('iterator', 'iterable'):
			in_handler = False
			cur = c_
			while id(cur) in pm_:
				cur = pm_[id(cur)]
				if isinstance(cur, ast.ExceptHandler):
					in_handler = True
			tried.append((in_handler, c_.lineno, c_.args[1].attr))
	tried.sort()
	order = [a for _, _, a in tried]
	if sorted(order) != ['iterable', 'iterator']:
		r.skip('lookup-order', f.where, f'_resolve_method no longer resolves exactly operations.iterator and operations.iterable ({order})')
	else:
		r.check(order == ['iterator', 'iterable'], 'lookup-order', f.where, f'_resolve_method tries {order}: with __iter__ first, a class that implements the iterator protocol itself (`__iter__ -> Own`, `__next__ -> T`) yields elements of its own type instead of T (`for n in Countdown(3)` types n as Countdown)')


def rule_template_path_match(rep: Report, idx: SourceIndex) -> None:
	"""TemplateManipulator._find_actual_path pairs a template position of the declared signature (schema path, e.g. parameters.0.1 = the V of dict[K, V])
	with a position of the actual argument type. Two positions correspond when their normalised index lists agree — comparing only the LENGTH of the
	lists pairs V with the first type argument of that depth (K)."""
	r = rep.rule('C03/template-positions-matched-by-index', 'TemplateManipulator._find_actual_path accepts an actual path only after comparing the normalised index list with the schema\'s (not merely its length)', floor=1)
	tm = idx.mod('rogw/tranp/semantics/reflection/helper/template.py')
	f = tm.func('TemplateManipulator._find_actual_path')
	fx = X(f)
	loops = [lp for lp in nodes(fx, ast.For) if has_call(lp.iter, 'items')]
	rets = [n for lp in loops for n in nodes(lp, ast.Return) if n.value is not None]
	if not rets:
		r.skip('candidate-accept', f.where, '_find_actual_path no longer returns a candidate from a loop over the actual paths')
		return

	def content_compare(a: ast.AST) -> bool:
		"""a comparison of index lists themselves: both sides mention *_elems and neither side is a count"""
		if not (isinstance(a, ast.Compare) and len(a.ops) == 1 and isinstance(a.ops[0], (ast.Eq, ast.NotEq))):
			return False
		l, rgt = unparse(a.left), unparse(a.comparators[0])
		if 'elem_counts' in l and 'elem_counts' in rgt or l.startswith('len(') or rgt.startswith('len('):
			return False
		return 'elems' in l and 'elems' in rgt and not (l.startswith('DSN.elem_counts') or rgt.startswith('DSN.elem_counts'))

	for ret in rets:
		known = atoms(fx, ret)
		ok = any(content_compare(a) and p_ == isinstance(a.ops[0], ast.Eq) for a, p_ in known) or any(p_ and isinstance(a, ast.Call) and isinstance(a.func, ast.Attribute) and a.func.attr == 'startswith' and 'elems' in unparse(a) for a, p_ in known)
		# `if <count test> and <lists differ>: continue` — the conjunction is false at the return; the count test is re-established by the return's own branch
		ok = ok or any(not p_ and isinstance(a, ast.BoolOp) and isinstance(a.op, ast.And) and any(content_compare(v) and isinstance(v.ops[0], ast.NotEq) for v in a.values) for a, p_ in known)
		ok = ok or any(p_ and isinstance(a, ast.BoolOp) and isinstance(a.op, ast.Or) and any(content_compare(v) and isinstance(v.ops[0], ast.Eq) for v in a.values) for a, p_ in known)
		r.check(ok, f'candidate-accept:{unparse(ret.value)[:40]}', (tm.relpath, ret.lineno), f'`{unparse(ret)[:80]}` accepts a candidate after comparing only the NUMBER of normalised path elements (conditions: {[(unparse(a)[:60], p_) for a, p_ in known][-3:]}): for `def vof(d: dict[K, V]) -> V` the first argument of equal depth is taken and `vof(d)` is typed str for a dict[str, int]', unparse(ret)[:100])


def rule_attr_walkers(rep: Report, idx: SourceIndex) -> None:
	"""A type is a tree of symbols (`attrs`). A walker that rewrites or collects over that tree (substituting the class type variables into a method
	signature, ordering the keys for export) must reach EVERY nesting level: at each visited node it enumerates node.attrs and descends into the child
	itself. Descending into `child.attrs` (the grandchildren) skips every other level: `Callable[[T], R]` keeps its bare T while `list[T]` is
	substituted, so an un-annotated lambda parameter is inferred as T instead of the receiver's type argument."""
	from vlib.match import X, nodes
	r = rep.rule('C03/type-tree-walkers-visit-every-level', 'every recursive / work-list walker over symbol.attrs in the reflection layer descends into the enumerated child itself (recursive call or push of the loop variable), never into child.attrs', floor=2)
	n_walkers = 0
	for rel in ('rogw/tranp/semantics/reflection/traits.py', 'rogw/tranp/semantics/reflection/db.py', 'rogw/tranp/semantics/reflection/reflection.py', 'rogw/tranp/semantics/reflection/helper/template.py'):
		m = idx.mod(rel)
		rep.consulted(rel)
		for q, f in m.functions.items():
			if '#' in q or '.<locals>.' in q:
				continue
			fx = X(f)
			for lp in nodes(fx, ast.For):
				it = lp.iter
				if isinstance(it, ast.Call) and unparse(it.func) == 'enumerate' and it.args:
					it = it.args[0]
				if not (isinstance(it, ast.Attribute) and it.attr == 'attrs'):
					continue
				child = lp.target.elts[-1] if isinstance(lp.target, ast.Tuple) else lp.target
				if not isinstance(child, ast.Name):
					continue
				descents = []
				for c_ in nodes(lp, ast.Call):
					if isinstance(c_.func, ast.Attribute) and c_.func.attr == f.name and c_.args:
						tgt = c_.args[1] if unparse(c_.args[0]) in ('for_module_path',) and len(c_.args) > 1 else c_.args[0]
						cands = [a for a in c_.args if any(isinstance(x, ast.Name) and x.id == child.id for x in ast.walk(a))]
						descents += [(c_, a) for a in cands]
					elif isinstance(c_.func, ast.Attribute) and c_.func.attr in ('append', 'extend', 'insert', 'appendleft') and c_.args and any(isinstance(x, ast.Name) and x.id == child.id for x in ast.walk(c_.args[-1])):
						descents.append((c_, c_.args[-1]))
				if not descents:
					continue
				n_walkers += 1
				key = f'{q}:for {child.id} in {unparse(it)[:40]}'
				bad = [(c_, a) for c_, a in descents if not (isinstance(a, ast.Name) and a.id == child.id) and not (isinstance(a, (ast.List, ast.Tuple)) and all(isinstance(e, ast.Name) and e.id == child.id for e in a.elts))]
				skipping = [(c_, a) for c_, a in bad if any(isinstance(x, ast.Attribute) and x.attr == 'attrs' and isinstance(x.value, ast.Name) and x.value.id == child.id for x in ast.walk(a))]
				if skipping:
					c_, a = skipping[0]
					r.violate(key, (rel, c_.lineno), f'{q} enumerates `{unparse(it)}` and descends with `{unparse(c_)[:80]}`: the children of `{child.id}` are visited but `{child.id}` itself never is, so every other nesting level is skipped (type variables at even depth of a signature, e.g. the T of Callable[[T], R], are left unsubstituted)', unparse(c_)[:100])
				elif bad:
					r.skip(key, (rel, bad[0][0].lineno), f'descent `{unparse(bad[0][0])[:60]}` not classified')
				else:
					r.ok(key, (rel, lp.lineno))
	if n_walkers == 0:
		r.skip('walkers', None, 'no recursive walker over .attrs found in the reflection layer')


def rule_ternary_merge(rep: Report, idx: SourceIndex) -> None:
	"""`a if c else b` has the type of a only when both arms have the SAME type including its arguments; otherwise it is the union of both. The handler
	receives the two arm types as whole reflections; comparing a projection of them (`.types`, the class alone) merges `list[int]` and `list[float]`
	into the first arm, and the variable declared from the expression gets a type its value does not have on the else path."""
	from vlib.match import X, atoms, nodes
	r = rep.rule('C03/conditional-arms-merged-on-whole-type', 'on_ternary_operator returns one arm type alone only under an equality test of the two arm reflections themselves (class and type arguments), never of a projection such as .types', floor=1)
	m = idx.mod('rogw/tranp/semantics/reflections.py')
	cls = m.cls('ProceduralResolver')
	f = cls.method('on_ternary_operator') if cls else None
	if f is None:
		r.skip('on_ternary_operator', (m.relpath, 1), 'ProceduralResolver.on_ternary_operator vanished')
		return
	params = [p_ for p_ in f.params() if p_ not in ('self', 'node')]
	if len(params) != 3:
		r.skip('on_ternary_operator', f.where, f'unexpected parameters {params}')
		return
	first, _, second = params
	fx = X(f)
	decided = False
	for ret in nodes(fx, ast.Return):
		v = ret.value
		if v is None:
			continue
		names = {x.id for x in ast.walk(v) if isinstance(x, ast.Name)}
		if not ({first, second} & names) or {first, second} <= names:
			continue  # the union of both arms (or something else): not the merge
		decided = True
		known = atoms(fx, ret)
		whole = any(p_ and isinstance(a, ast.Compare) and len(a.ops) == 1 and isinstance(a.ops[0], ast.Eq) and {unparse(a.left), unparse(a.comparators[0])} == {first, second} for a, p_ in known)
		proj = [(unparse(a), p_) for a, p_ in known if isinstance(a, ast.Compare) and any(isinstance(x, ast.Attribute) and isinstance(x.value, ast.Name) and x.value.id in (first, second) for x in ast.walk(a))]
		if whole:
			r.ok('merge-condition', (m.relpath, ret.lineno))
		elif proj:
			r.violate('merge-condition', (m.relpath, ret.lineno), f'on_ternary_operator returns `{unparse(v)[:60]}` (one arm alone) under {proj}: the comparison looks at a projection of the arm types, so arms of the same class with different type arguments (`[n] if c else [1.5]`: list[int] / list[float]) are typed as the first arm and the declared variable is `std::vector<int>` although the else path yields floats', unparse(ret)[:120])
		else:
			r.skip('merge-condition', (m.relpath, ret.lineno), f'condition of the single-arm return not recognised: {[(unparse(a), p_) for a, p_ in known]}')
	if not decided:
		r.skip('merge-condition', f.where, 'on_ternary_operator has no return that hands back one arm alone')


def rule_receiver_kinds(rep: Report, idx: SourceIndex) -> None:
	"""A function declared in a class carries an implicit first parameter (self / cls). The node model has three such kinds — the keys of HelperBuilder's
	table whose helper derives from the helper `Method` — and in the NODE hierarchy they are siblings under Function (in the helper hierarchy they are
	not). A kind test in the semantics layer that names some of them must, together with the other arms of its if-chain, cover all of them, unless it
	is conjoined with a member that only the named kinds define. Otherwise the missing kinds fall into the plain-function arm: the signature is read
	without skipping the receiver and every argument is typed as the parameter one position to the left."""
	from vlib.flow import parent_map
	r = rep.rule('C03/receiver-kinds-complete', 'kind tests over the function node classes with an implicit receiver (Method / ClassMethod / Constructor: siblings under Function) cover all of them across the arms of their if-chain, or are conjoined with a member only the tested kinds define', floor=2)
	tm = idx.mod('rogw/tranp/semantics/reflection/helper/template.py')
	hb = tm.cls('HelperBuilder')
	hm = tm.cls('Method')
	build = hb.method('build') if hb else None
	kinds: list = []
	if build is not None and hm is not None:
		for d in [n for n in ast.walk(build.node) if isinstance(n, ast.Dict)]:
			for k, v in zip(d.keys, d.values):
				kc, vc = (idx.resolve_class(tm, k) if k is not None else None), idx.resolve_class(tm, v)
				if kc is not None and vc is not None and hm in idx.mro(vc):
					kinds.append(kc)
	if len(kinds) < 2:
		r.skip('receiver-kinds', (tm.relpath, 1), 'HelperBuilder.build no longer maps node classes to helper classes in a dict literal: the kinds with an implicit receiver cannot be derived')
		return
	names = sorted(k.name for k in kinds)
	r.ok('receiver-kinds', build.where, message=f'kinds with an implicit receiver: {names}')

	def covered(classes: list) -> set[str]:
		return {k.name for k in kinds if any(c in idx.mro(k) for c in classes)}

	def test_of(n: ast.AST, m) -> tuple[str, list] | None:
		"""(subject text, tested classes) of `S.is_a(A, B)` / `isinstance(S, A | (A, B))`"""
		if not isinstance(n, ast.Call):
			return None
		if isinstance(n.func, ast.Attribute) and n.func.attr == 'is_a' and n.args:
			cs = [idx.resolve_class(m, a) for a in n.args]
			return (unparse(n.func.value), cs) if all(c is not None for c in cs) else None
		if isinstance(n.func, ast.Name) and n.func.id == 'isinstance' and len(n.args) == 2:
			spec = n.args[1]
			elts = list(spec.elts) if isinstance(spec, ast.Tuple) else [spec]
			flat: list[ast.AST] = []
			while elts:
				e = elts.pop(0)
				if isinstance(e, ast.BinOp) and isinstance(e.op, ast.BitOr):
					elts[:0] = [e.left, e.right]
				else:
					flat.append(e)
			cs = [idx.resolve_class(m, e) for e in flat]
			return (unparse(n.args[0]), cs) if all(c is not None for c in cs) else None
		return None

	n_sites = 0
	for rel in idx.glob('rogw/tranp/semantics/**/*.py'):
		m = idx.mod(rel)
		for q, f in m.functions.items():
			pm = None
			for n in walk_no_nested(f.node):
				t = test_of(n, m)
				if t is None:
					continue
				subj, cs = t
				cov = covered(cs)
				if not cov or not all(c in kinds or len(covered([c])) == len(kinds) for c in cs):
					continue  # no receiver kind named, or named next to unrelated classes (a different classification): only pure kind tests are judged
				n_sites += 1
				key = f'{q}:{subj}:is({",".join(sorted(c.name for c in cs))})'
				if len(cov) == len(kinds):
					r.ok(key, (rel, n.lineno))
					continue
				pm = pm or parent_map(f.node)
				# (1) the other arms of the same if / elif chain (and conditional expressions nested in one another)
				top = n
				while id(top) in pm and not isinstance(pm[id(top)], (ast.If, ast.IfExp)) and isinstance(pm[id(top)], ast.expr):
					top = pm[id(top)]
				holder = pm.get(id(top))
				chain_cov = set(cov)
				conj_ok = False
				if isinstance(holder, (ast.If, ast.IfExp)) and holder.test is top:
					first = holder
					while id(first) in pm and isinstance(pm[id(first)], type(holder)) and (pm[id(first)].orelse == [first] if isinstance(first, ast.If) else pm[id(first)].orelse is first):
						first = pm[id(first)]
					cur = first
					while isinstance(cur, (ast.If, ast.IfExp)):
						for x in ast.walk(cur.test):
							t2 = test_of(x, m)
							if t2 is not None and t2[0] == subj:
								chain_cov |= covered(t2[1])
						nxt = cur.orelse
						cur = nxt[0] if isinstance(nxt, list) and len(nxt) == 1 else (nxt if isinstance(nxt, ast.IfExp) else None)
				# (2) conjoined with a member that only the tested kinds define
				par = pm.get(id(n))
				if isinstance(par, ast.BoolOp) and isinstance(par.op, ast.And):
					for other in par.values:
						for x in ast.walk(other):
							if isinstance(x, ast.Attribute) and unparse(x.value) == subj and other is not n:
								owners = {k.name for k in kinds if idx.lookup(k, x.attr) is not None}
								if owners and owners <= cov:
									conj_ok = True
				if len(chain_cov) == len(kinds) or conj_ok:
					r.ok(key, (rel, n.lineno))
				else:
					missing = sorted(set(names) - chain_cov)
					r.violate(key, (rel, n.lineno), f'{q} tests `{unparse(n)[:80]}` and no other arm of the chain tests {missing}: in the node hierarchy {names} are siblings under Function (only the template HELPER classes of the same names derive from one another), so a call of a {"/".join(missing)} is handled as a plain function, the implicit receiver is not skipped and each argument (a lambda: its parameters) is typed from the parameter one position to the left', unparse(n)[:120])
	if n_sites == 0:
		r.skip('kind-tests', None, 'no test over the receiver kinds found in the semantics layer')


def rule_member_binding(rep: Report, idx: SourceIndex) -> None:
	"""`a.b`: the member `b` is looked up on the ACTUAL class of `a` (the receiver after unwrapping optionals, aliases, Self and bounded type
	variables: `.actualize()`), and the member symbol must be bound (`X.to(node.prop, member)`) to that same receiver — binding is what substitutes the
	class's type variables in the member's type. Bound to the receiver as written (`Box[int] | None`), the substitution runs against the union: a
	property returning `T` is typed `Box<int>`, one returning `list[T]` comes out `list<None>`."""
	from vlib.match import expand_use, nodes
	r = rep.rule('C03/member-bound-to-the-receiver-it-was-found-on', 'in ProceduralResolver.on_relay a member obtained with R.prop_of(...) is bound with R.to(<prop node>, member) on the same (actualized) receiver R', floor=1)
	m = idx.mod('rogw/tranp/semantics/reflections.py')
	cls = m.cls('ProceduralResolver')
	f = cls.method('on_relay') if cls else None
	if f is None:
		r.skip('on_relay', (m.relpath, 1), 'ProceduralResolver.on_relay vanished')
		return
	fn = f.node
	found: dict[str, ast.AST] = {}
	for a in nodes(fn, (ast.Assign, ast.AnnAssign)):
		v = getattr(a, 'value', None)
		tgt = (a.targets[0] if isinstance(a, ast.Assign) else a.target)
		if isinstance(v, ast.Call) and isinstance(v.func, ast.Attribute) and v.func.attr == 'prop_of' and isinstance(tgt, ast.Name):
			found[tgt.id] = v.func.value
	if not found:
		r.skip('on_relay', f.where, 'on_relay no longer keeps the result of <receiver>.prop_of(...) in a local')
		return
	n_sites = 0
	for c_ in nodes(fn, ast.Call):
		if not (isinstance(c_.func, ast.Attribute) and c_.func.attr == 'to' and len(c_.args) == 2 and isinstance(c_.args[1], ast.Name) and c_.args[1].id in found):
			continue
		n_sites += 1
		owner = found[c_.args[1].id]
		bound_on, found_on = unparse(expand_use(fn, c_.func.value)), unparse(expand_use(fn, owner))
		r.check(bound_on == found_on, f'bind:{unparse(c_)[:50]}', (m.relpath, c_.lineno), f'`{c_.args[1].id}` was looked up on `{found_on[:70]}` but is bound on `{bound_on[:70]}`: the type variables of the member are substituted from the receiver it is bound on, and a receiver that is not actualized (an optional, an alias, Self) does not carry the class arguments in the expected positions — `opt.first` for `opt: Box[int] | None` with `@property first -> T` is typed `Box<int>` instead of `int`', unparse(c_))
	if n_sites == 0:
		r.skip('on_relay', f.where, 'no `<receiver>.to(<node>, <member>)` binding of the looked-up member in on_relay')


def rule_actualize_order(rep: Report, idx: SourceIndex) -> None:
	"""ConvertionTrait.actualize applies each unwrapping step ONCE, in the order of its table. An optional `X | None` hides X: when X is itself a proxy (a
	type alias, a bounded type variable, `type[...]`, Self), X can only be unwrapped after the optional was. The `nullable` step must therefore be the
	first of the table; listed after `alt` / `template` / `type` / `self`, `x: DSI | None; x['a']` (DSI = dict[str, int]) is typed `DSI` instead of int
	and `for k, v in d.items()` with `d: DSI | None` is unresolved."""
	from vlib.match import nodes
	r = rep.rule('C03/optional-unwrapped-before-the-other-proxies', 'in ConvertionTrait.actualize the single-pass table of unwrapping steps lists `nullable` before self / type / template / alt (or the steps are iterated to a fixed point)', floor=1)
	m = idx.mod('rogw/tranp/semantics/reflection/traits.py')
	cls = m.cls('ConvertionTrait')
	f = cls.method('actualize') if cls else None
	if f is None:
		r.skip('actualize', (m.relpath, 1), 'ConvertionTrait.actualize vanished')
		return
	tables = [d for d in nodes(f.node, ast.Dict) if d.keys and all(isinstance(k, ast.Constant) and isinstance(k.value, str) for k in d.keys) and any(k.value == 'nullable' for k in d.keys)]
	if len(tables) != 1:
		r.skip('actualize', f.where, 'actualize no longer keeps its steps in one dict literal keyed by step name')
		return
	keys = [k.value for k in tables[0].keys]
	loops = [lp for lp in nodes(f.node, ast.For) if '.items()' in unparse(lp.iter) or '.values()' in unparse(lp.iter) or unparse(lp.iter) in {unparse(t) for a in nodes(f.node, ast.Assign) if a.value is tables[0] for t in a.targets}]
	fixed_point = any(isinstance(n, ast.While) for n in ast.walk(f.node))
	if not loops:
		r.skip('actualize', f.where, 'the table of steps is not applied by one loop over the dict')
	elif fixed_point:
		r.ok('step-order', (m.relpath, tables[0].lineno), message='steps are iterated (while loop): order does not matter')
	else:
		r.check(keys[0] == 'nullable', 'step-order', (m.relpath, tables[0].lineno), f'actualize applies its steps once in the order {keys}: the optional is unwrapped after the steps that would unwrap what it contains, so for `x: DSI | None` (DSI: TypeAlias = dict[str, int]) the alias inside the optional stays an alias — `x["a"]` is typed DSI instead of int, `for k, v in x.items()` is unresolved, and a lambda passed for a `Handler | None` parameter gets the Callable itself as parameter type', str(keys))


def rule_dispatch_chains(rep: Report, idx: SourceIndex) -> None:
	"""The reflection layer dispatches on the KIND of a helper / node with chains `if x.is_a(A): ... elif x.is_a(B): ...` (or isinstance). `is_a` is an
	isinstance test, so an arm for a class must come before the arm of any of its base classes — otherwise it is dead and the base-class arm answers
	for it. For function helpers this decides what is passed as the receiver: `ClassMethod` derives from `Method`; with the `Method` arm first a
	classmethod call hands the class instance instead of `type[Class]` to the template matcher, the class type variable binds to the whole receiver
	class and `Box.of(1)` is typed `Box<Box<T>>`."""
	r = rep.rule('C03/kind-dispatch-tests-subclasses-first', 'in every if/elif chain of is_a / isinstance tests on one subject in rogw/tranp/semantics, no arm tests a class after an arm that tests one of its base classes', floor=4)
	n_ = 0
	for rel in idx.all_py(('rogw/tranp/semantics',)):
		m = idx.mod(rel)
		for q, f in m.functions.items():
			if '#' in q:
				continue
			seen_ifs: set[int] = set()
			for n in walk_no_nested(f.node):
				if not isinstance(n, ast.If) or id(n) in seen_ifs:
					continue
				chain = []
				cur = n
				while isinstance(cur, ast.If):
					seen_ifs.add(id(cur))
					chain.append(cur)
					cur = cur.orelse[0] if len(cur.orelse) == 1 and isinstance(cur.orelse[0], ast.If) else None
				# also a sequence of `if ...: return` statements is such a chain, but only elif chains are read here
				tests = []
				for arm in chain:
					t = arm.test
					subj = cls_e = None
					if isinstance(t, ast.Call) and isinstance(t.func, ast.Attribute) and t.func.attr == 'is_a' and len(t.args) == 1:
						subj, cls_e = unparse(t.func.value), t.args[0]
					elif isinstance(t, ast.Call) and unparse(t.func) == 'isinstance' and len(t.args) == 2 and not isinstance(t.args[1], ast.Tuple):
						subj, cls_e = unparse(t.args[0]), t.args[1]
					if subj is None:
						tests.append(None)
						continue
					c = idx.resolve_class(m, cls_e)
					tests.append((subj, c, arm, unparse(cls_e)))
				known = [t for t in tests if t is not None and t[1] is not None]
				if len(known) < 2:
					continue
				n_ += 1
				bad = None
				for i, a in enumerate(tests):
					if a is None or a[1] is None:
						continue
					for b in tests[i + 1:]:
						if b is None or b[1] is None or b[0] != a[0] or b[1] is a[1]:
							continue
						if a[1] in idx.mro(b[1]):
							bad = (a, b)
				key = f'{rel}:{q}:{chain[0].lineno - f.node.lineno}'
				r.check(bad is None, f'{q}:{known[0][0]}:{"/".join(t[3].split(".")[-1] for t in known)}', (rel, chain[0].lineno), (f'the arm `{bad[1][0]}.is_a({bad[1][3]})` comes after `{bad[0][0]}.is_a({bad[0][3]})`, and {bad[1][3].split(".")[-1]} derives from {bad[0][3].split(".")[-1]}: the later arm is dead, every {bad[1][3].split(".")[-1]} is answered by the base-class arm' + (' — for function helpers the classmethod arm is the one that passes the receiver as type[Class]; without it the class type variable binds to the receiver class itself and `Box.of(1)` is typed Box<Box<T>> (run time: Box of int)' if 'ClassMethod' in bad[1][3] else '')) if bad else '', unparse(bad[1][2].test) if bad else None)
	if n_ == 0:
		r.skip('chains', None, 'no is_a / isinstance dispatch chain with two resolvable classes found in rogw/tranp/semantics')
