"""C15 — the stored form of a syntax tree restores an identical tree: field symmetry and view coverage."""
from __future__ import annotations

import ast

from vlib.core import AnalysisError, Report
from vlib.match import closure_fi, deref, has_call, nodes, resolved_returns
from vlib.norm import Expander
from vlib.schema import dict_keys, returned_dicts, subscripted_keys, typeddict_keys
from vlib.srcindex import SourceIndex, attr_chain, const_str, mangle, unparse, walk_no_nested

EXPLANATION = (
	'Decides: (1) field symmetry — per branch the keys Serialization.__dumps writes (tree: name/children/source_map, token: name/value/source_map, empty: None) equal the keys __loads reads, the branch '
	'discriminators agree, and the four source_map positions are restored in the order written; (2) view coverage — every attribute of lark.Tree / lark.Token / Meta that the EntryOfLark view reads '
	'is assigned (or passed to the constructor) by __loads, so nothing the node layer can observe is lost; (3) EntryStored.save/load apply dumps/loads with the JSON codec and the cache is opened with format=json. '
	'Field-by-field equality over all trees is not decided.'
)
ASSUMPTIONS = ['lark.Tree(data, children, meta) and lark.Token(type, value) constructor parameter order is taken from lark (read from its signature at check time)']
TRUSTED_BASE = ['CPython ast', 'inspect.signature of lark.Tree / lark.Token (third-party data classes)']

ENTRY = 'rogw/tranp/implements/syntax/lark/entry.py'
PARSER = 'rogw/tranp/implements/syntax/lark/parser.py'


def run(rep: Report, tier: str) -> None:
	idx = SourceIndex()
	m, p = idx.mod(ENTRY), idx.mod(PARSER)
	rep.consulted(ENTRY, PARSER)
	ser = m.cls('Serialization')
	view = m.cls('EntryOfLark')
	dumps, loads = ser.method('__dumps'), ser.method('__loads')
	if dumps is None or loads is None:
		raise AnalysisError('Serialization.__dumps/__loads vanished')

	# alias-expanded copies of the two functions (temporaries such as `tree_map = entry_tree['source_map']` are substituted)
	from vlib.match import merged_function, split_tuple_assigns
	dumps_x = merged_function(dumps)
	loads_x = split_tuple_assigns(merged_function(loads))

	r = rep.rule('C15/field-symmetry', 'keys written per branch by __dumps == keys read per branch by __loads; discriminators and source_map order agree', floor=6)
	wd = returned_dicts(dumps_x)
	shapes = {}
	for d in wd:
		ks = set(dict_keys(d))
		kind = 'tree' if 'children' in ks else ('token' if 'value' in ks else '?')
		shapes[kind] = (ks, d)
	r.check(set(shapes) == {'tree', 'token'}, 'writer-shapes', dumps.where, f'__dumps writes dict shapes {sorted(shapes)}; expected a tree shape (children) and a token shape (value)')
	returns_none = any(isinstance(n, ast.Return) and isinstance(n.value, ast.Constant) and n.value.value is None for n in ast.walk(dumps_x))
	r.check(returns_none, 'writer-empty', dumps.where, '__dumps no longer encodes an empty slot as None')
	# reader branches: every `if '<key>' in entry` (at any nesting, elif or sequential guard form)
	def disc(test) -> str | None:
		for n in ast.walk(test):
			if isinstance(n, ast.Compare) and isinstance(n.ops[0], ast.In) and const_str(n.left) is not None:
				return const_str(n.left)
		return None
	rb = {}
	for n in ast.walk(loads_x):
		if isinstance(n, ast.If) and disc(n.test) is not None and disc(n.test) not in rb:
			rb[disc(n.test)] = n.body
	if not rb:
		raise AnalysisError('__loads no longer branches on the entry shape')
	first_line = min(b[0].lineno for b in rb.values())
	r.check('children' in rb and 'value' in rb, 'reader-discriminators', (ENTRY, first_line), f'__loads distinguishes by {sorted(k for k in rb if k)}; the writer marks trees with `children` and tokens with `value`')
	else_none = any(isinstance(n, ast.Return) and isinstance(n.value, ast.Constant) and n.value.value is None for n in ast.walk(loads_x))
	r.check(else_none, 'reader-empty', (ENTRY, first_line), '__loads no longer restores any other entry as None (empty slot)')
	for kind, dkey in (('tree', 'children'), ('token', 'value')):
		if kind not in shapes or dkey not in rb:
			continue
		body = ast.Module(body=rb[dkey], type_ignores=[])
		read = subscripted_keys(body, 'entry') | subscripted_keys(body, 'entry_tree') | subscripted_keys(body, 'entry_token')
		w = shapes[kind][0]
		r.check(w == read, f'{kind}:written==read', (ENTRY, rb[dkey][0].lineno), f'{kind}: __dumps writes {sorted(w)} but __loads reads {sorted(read)}')
		# source_map positions: written (begin0, begin1, end0, end1) -> restored line, column, end_line, end_column
		order = []
		for n in ast.walk(body):
			if isinstance(n, ast.Assign) and isinstance(n.targets[0], ast.Attribute) and isinstance(n.value, ast.Subscript) and 'source_map' in unparse(n.value):
				i = n.value.slice.value if isinstance(n.value.slice, ast.Constant) else None
				order.append((n.targets[0].attr, i))
		want = {'line': 0, 'column': 1, 'end_line': 2, 'end_column': 3}
		r.check(dict(order) == want, f'{kind}:source_map-order', (ENTRY, rb[dkey][0].lineno), f'{kind}: positions restored as {dict(order)}; written order is begin line, begin column, end line, end column = {want}')
	# writer side, per record shape, on the fully inlined body: the value under 'source_map' is (begin line, begin column, end line, end column) of the entry's own span
	from vlib.match import FI
	wrote = 0
	for d in returned_dicts(FI(dumps)):
		ks = set(dict_keys(d))
		kind = 'tree' if 'children' in ks else ('token' if 'value' in ks else '?')
		v = next((v_ for k_, v_ in zip(d.keys, d.values) if const_str(k_) == 'source_map'), None)
		# `(*m['begin'], *m['end'])` spreads the two (line, column) pairs in place: read as the four positions
		if isinstance(v, ast.Tuple) and len(v.elts) == 2 and all(isinstance(e, ast.Starred) for e in v.elts):
			v = ast.Tuple(elts=[ast.Subscript(value=e.value, slice=ast.Constant(value=i_), ctx=ast.Load()) for e in v.elts for i_ in (0, 1)], ctx=ast.Load())
		if not isinstance(v, ast.Tuple) or len(v.elts) != 4:
			r.skip(f'writer:{kind}:source_map-order', dumps.where, 'the source_map value of the record is not a 4-tuple expression')
			continue
		wrote += 1
		got = [unparse(e).split('source_map', 1)[-1] for e in v.elts]
		r.check(got == ["['begin'][0]", "['begin'][1]", "['end'][0]", "['end'][1]"] and all('source_map' in unparse(e) for e in v.elts), f'writer:{kind}:source_map-order', (ENTRY, d.lineno), f'{kind}: __dumps writes the span as {got}; the reader restores (line, column, end_line, end_column) from (begin[0], begin[1], end[0], end[1]) — a multi-line {kind} would come back with a different span', unparse(v))
	# every record describes ONE entry: the entry whose name is written is the entry whose span (and token text) is written. A span variable that is
	# re-bound between its computation and the record (a loop over the children reusing the name) puts a child's span on the parent
	from vlib.match import may_reach

	def span_bases(fn, e: ast.AST, attr: str, depth: int = 4) -> set[str]:
		out: set[str] = set()
		for n in ast.walk(e):
			if isinstance(n, ast.Attribute) and n.attr == attr:
				out.add(unparse(n.value))
			elif isinstance(n, ast.Name) and isinstance(n.ctx, ast.Load) and depth > 0:
				for d_ in may_reach(fn, n) or []:
					v_ = getattr(d_, 'value', None)
					if v_ is not None and not isinstance(d_, (ast.For, ast.AsyncFor)):
						out |= span_bases(fn, v_, attr, depth - 1)
		return out
	recs = [d for d in ast.walk(dumps.node) if isinstance(d, ast.Dict) and {'name', 'source_map'} <= set(dict_keys(d))]
	if not recs:
		r.skip('writer:record-describes-one-entry', dumps.where, '__dumps no longer builds its records as dict literals with name and source_map')
	for d in recs:
		fields = {const_str(k_): v_ for k_, v_ in zip(d.keys, d.values) if k_ is not None}
		own = span_bases(dumps.node, fields['name'], 'name')
		spans = span_bases(dumps.node, fields['source_map'], 'source_map')
		texts = span_bases(dumps.node, fields['value'], 'value') if 'value' in fields else own
		kind = 'tree' if 'children' in fields else 'token'
		key = f'writer:{kind}:record-describes-one-entry@{unparse(fields["name"])}'
		if len(own) != 1 or not spans:
			r.skip(key, (ENTRY, d.lineno), f'entry of the record not recognised (name from {sorted(own)}, span from {sorted(spans)})')
			continue
		# name and token text are stored as they are: any transformation (strip, lower, slicing, re-quoting) makes the restored token differ from the parsed one
		for fld in ('name', 'value'):
			if fld in fields:
				v_ = fields[fld]
				seen_ = 0
				while isinstance(v_, ast.Name) and seen_ < 3:
					defs_ = may_reach(dumps.node, v_) or []
					vals_ = [getattr(d_, 'value', None) for d_ in defs_]
					if len(vals_) != 1 or vals_[0] is None:
						break
					v_ = vals_[0]
					seen_ += 1
				verbatim = isinstance(v_, ast.Attribute) and v_.attr == fld
				if isinstance(v_, ast.Name):
					r.skip(f'writer:{kind}:{fld}-verbatim', (ENTRY, d.lineno), f'value of `{fld}` not resolved: {unparse(fields[fld])[:60]}')
				else:
					r.check(verbatim, f'writer:{kind}:{fld}-verbatim', (ENTRY, d.lineno), f'the {kind} record stores `{fld}` as `{unparse(v_)[:70]}`, not the entry\'s {fld} itself: the restored token differs from the freshly parsed one (a comment with trailing blanks comes back shorter: `Node.tokens`, `Comment.text` and the emitted `// ...` line change between the first and later runs)', unparse(d)[:160])
		r.check(spans == own and texts == own, key, (ENTRY, d.lineno), f'the {kind} record written for `{sorted(own)[0]}` can carry the span of {sorted(spans)} / the text of {sorted(texts)}: the span variable is re-bound on a path between its computation and this record, so after a cache restore the node covers another entry\'s source range (source quotations, error positions and reprs differ from a fresh parse)', unparse(d)[:160])

	# the restored children are a re-iterable list (the view reads them more than once; a one-shot iterator is empty on the second reading)
	from vlib.match import FI as _FI
	lx = _FI(loads)
	trees = [c_ for c_ in ast.walk(lx) if isinstance(c_, ast.Call) and attr_chain(c_.func) in ('lark.Tree', 'Tree') and len(c_.args) >= 2]
	if not trees:
		r.skip('reader-children-materialised', loads.where, '__loads no longer constructs lark.Tree(name, children, ...)')
	for c_ in trees:
		ch = c_.args[1]
		lazy = isinstance(ch, ast.GeneratorExp) or (isinstance(ch, ast.Call) and unparse(ch.func) in ('map', 'filter', 'iter', 'reversed', 'zip'))
		listy = isinstance(ch, (ast.List, ast.ListComp)) or (isinstance(ch, ast.Call) and unparse(ch.func) in ('list', 'tuple'))
		if lazy:
			r.violate('reader-children-materialised', (ENTRY, c_.lineno), f'__loads passes `{unparse(ch)[:80]}` as the children of the restored tree: a one-shot iterator yields the children on the first traversal only, every later reading (a second Nodes build after unload/load, Serialization.dumps of the restored tree) sees no children', unparse(c_)[:160])
		elif listy or isinstance(ch, ast.Name):
			r.ok('reader-children-materialised', (ENTRY, c_.lineno))
		else:
			r.skip('reader-children-materialised', (ENTRY, c_.lineno), f'children expression `{unparse(ch)[:60]}` not classified')
	tds = typeddict_keys(m.tree)
	for kind, td in (('tree', 'DumpTree'), ('token', 'DumpToken')):
		if kind in shapes:
			r.check(td in tds and set(tds[td]) == shapes[kind][0], f'{kind}:typeddict', (ENTRY, 1), f'TypedDict {td} declares {sorted(tds.get(td, {}))}, __dumps writes {sorted(shapes[kind][0])}')

	# view coverage
	rv = rep.rule('C15/view-coverage', 'every attribute of lark.Tree / lark.Token / Meta read by the EntryOfLark view is restored by __loads (constructor argument or assignment)', floor=10)
	entry_attr = mangle('EntryOfLark', '__entry')
	reads_entry: set[str] = set()
	reads_meta: set[str] = set()
	for name, defs in view.methods.items():
		for f in defs:
			for n in ast.walk(Expander(f).expand(f.node)):
				if isinstance(n, ast.Attribute) and isinstance(n.value, ast.Attribute) and isinstance(n.value.value, ast.Name) and n.value.value.id == 'self' and mangle('EntryOfLark', n.value.attr) == entry_attr:
					reads_entry.add(n.attr)
				if isinstance(n, ast.Attribute) and isinstance(n.value, ast.Attribute) and n.value.attr == 'meta' and isinstance(n.value.value, ast.Attribute) and mangle('EntryOfLark', n.value.value.attr) == entry_attr:
					reads_meta.add(n.attr)
			# reads through a local that holds the result of a same-class helper returning the wrapped entry and/or its meta (`o = self.__positioned(); o.line`)
			for n in ast.walk(f.node):
				if isinstance(n, ast.Attribute) and isinstance(n.value, ast.Name) and isinstance(n.value.ctx, ast.Load) and n.value.id != 'self':
					src = deref(f.node, n.value)
					if isinstance(src, ast.Call) and isinstance(src.func, ast.Attribute) and isinstance(src.func.value, ast.Name) and src.func.value.id == 'self':
						for g in view.methods.get(src.func.attr, view.methods.get(mangle('EntryOfLark', src.func.attr), [])):
							for e in resolved_returns(g):
								if isinstance(e, ast.Attribute) and isinstance(e.value, ast.Name) and e.value.id == 'self' and mangle('EntryOfLark', e.attr) == entry_attr:
									reads_entry.add(n.attr)
								if isinstance(e, ast.Attribute) and e.attr == 'meta' and isinstance(e.value, ast.Attribute) and mangle('EntryOfLark', e.value.attr) == entry_attr:
									reads_meta.add(n.attr)
	if len(reads_entry) < 6:
		raise AnalysisError(f'EntryOfLark reads only {sorted(reads_entry)} from the wrapped entry (analysis blind)')
	try:
		import inspect
		import lark
		tree_params = [p for p in inspect.signature(lark.Tree.__init__).parameters][1:]
		tok_new = getattr(lark.Token, '_future_new', None)
		tok_params = [p for p in inspect.signature(tok_new).parameters] if tok_new is not None else ['type', 'value', 'start_pos', 'line', 'column', 'end_line', 'end_column', 'end_pos']
		tok_params = [p for p in tok_params if p != 'cls']
	except Exception as e:
		raise AnalysisError(f'cannot read lark constructor signatures: {e}')
	restored_tree, restored_tok, restored_meta = set(), set(), set()
	meta_names = {t.id for n in ast.walk(loads_x) if isinstance(n, (ast.Assign, ast.AnnAssign)) and getattr(n, 'value', None) is not None and isinstance(n.value, ast.Call) and (attr_chain(n.value.func) or '').endswith('Meta') for t in (n.targets if isinstance(n, ast.Assign) else [n.target]) if isinstance(t, ast.Name)} or {'meta'}
	token_names = {t.id for n in ast.walk(loads_x) if isinstance(n, (ast.Assign, ast.AnnAssign)) and getattr(n, 'value', None) is not None and isinstance(n.value, ast.Call) and attr_chain(n.value.func) == 'lark.Token' for t in (n.targets if isinstance(n, ast.Assign) else [n.target]) if isinstance(t, ast.Name)} or {'token'}
	for n in ast.walk(loads_x):
		if isinstance(n, ast.Call) and attr_chain(n.func) == 'lark.Tree':
			restored_tree |= set(tree_params[:len(n.args)]) | {k.arg for k in n.keywords}
		if isinstance(n, ast.Call) and attr_chain(n.func) == 'lark.Token':
			restored_tok |= set(tok_params[:len(n.args)]) | {k.arg for k in n.keywords}
		if isinstance(n, ast.Assign) and isinstance(n.targets[0], ast.Attribute) and isinstance(n.targets[0].value, ast.Name):
			if n.targets[0].value.id in meta_names:
				restored_meta.add(n.targets[0].attr)
			elif n.targets[0].value.id in token_names:
				restored_tok.add(n.targets[0].attr)
	restored_tok = {{'type_': 'type'}.get(x, x) for x in restored_tok}
	tree_attrs = {'data', 'children', 'meta'}
	tok_attrs = {'type', 'value', 'line', 'column', 'end_line', 'end_column', 'start_pos', 'end_pos'}
	for a in sorted(reads_entry):
		if a in tree_attrs:
			rv.check(a in restored_tree, f'Tree.{a}', view.where, f'EntryOfLark reads Tree.{a} but __loads does not restore it (constructor args restored: {sorted(restored_tree)})')
		elif a in tok_attrs:
			rv.check(a in restored_tok, f'Token.{a}', view.where, f'EntryOfLark reads Token.{a} but __loads does not restore it (restored: {sorted(restored_tok)}): a tree restored from the cache would differ from a fresh parse')
		else:
			rv.violate(f'entry.{a}', view.where, f'EntryOfLark reads `{a}` of the wrapped lark object, which the cache encoding does not carry')
	for a in sorted(reads_meta):
		rv.check(a in restored_meta, f'Meta.{a}', view.where, f'EntryOfLark reads meta.{a} but __loads does not restore it (restored: {sorted(restored_meta)})')
	# provenance: every restored position-related field is a function of the stored `source_map` (or a constant) only
	rp = rep.rule('C15/position-provenance', 'each position-related field restored by __loads (line, column, end_line, end_column, meta.empty) is computed from the stored source_map or is a constant — never from other parts of the entry', floor=9)
	entry_names = {'entry_tree', 'entry_token', 'entry'} | {p_ for p_ in loads.params() if p_ not in ('cls', 'self')}
	for n in ast.walk(loads_x):
		if isinstance(n, ast.Assign) and isinstance(n.targets[0], ast.Attribute) and isinstance(n.targets[0].value, ast.Name) and n.targets[0].value.id in (meta_names | token_names) and n.targets[0].attr in ('line', 'column', 'end_line', 'end_column', 'empty', 'start_pos', 'end_pos'):
			v = n.value
			names = {x.id for x in ast.walk(v) if isinstance(x, ast.Name)}
			keys = {const_str(x.slice) for x in ast.walk(v) if isinstance(x, ast.Subscript) and const_str(x.slice) is not None}
			is_const = isinstance(v, ast.Constant)
			ok = is_const or (names <= entry_names and keys <= {'source_map'} and bool(keys))
			if n.targets[0].attr == 'empty' and is_const:
				# the view returns the stored span only when `not meta.empty`; the writer stores (0,0,0,0) for trees without a span, so the restored flag must be False
				ok = v.value is False
			rp.check(ok, f'{n.targets[0].value.id}.{n.targets[0].attr}', (ENTRY, n.lineno), f'`{unparse(n)}` makes a restored position field depend on {sorted(names - entry_names) or sorted(keys - {"source_map"}) or "a constant that hides the stored span"}: EntryOfLark.source_map of the restored tree then differs from the span stored by __dumps (e.g. a childless tree such as `pass` or `[]` loses its span)', unparse(n))

	# every tree built on the load side carries the restored Meta: a lark.Tree constructed without one has an empty Meta, and the view answers
	# (0, 0)..(0, 0) for it — the root rebuilt by `loads` itself included (`Tree(root['name'], [children...])` loses the span of the whole module)
	ser_cls = loads.cls
	built = [(g, c_) for defs_ in (ser_cls.methods.values() if ser_cls is not None else []) for g in defs_ if 'load' in g.name for c_ in walk_no_nested(g.node) if isinstance(c_, ast.Call) and unparse(c_.func) in ('lark.Tree', 'Tree')]
	if not built:
		rp.skip('tree-constructed-with-meta', (ENTRY, 1), 'no lark.Tree(...) construction on the load side of Serialization')
	for g, c_ in built:
		has_meta = len(c_.args) >= 3 or any(kw.arg == 'meta' for kw in c_.keywords)
		rp.check(has_meta, f'{g.name}:tree-constructed-with-meta', (ENTRY, c_.lineno), f'`{unparse(c_)[:80]}` builds a restored tree without its Meta: the stored source_map of that entry is never read back, EntryOfLark.source_map answers (0, 0)..(0, 0) for it — for the root of the module every error reported on the Entrypoint loses its quotation after a cache hit while a fresh parse quotes line 1', unparse(c_)[:100])
	# who else reads the raw lark objects? (Entry.source consumers)
	src_users = []
	for rel in idx.all_py(('rogw',)):
		if rel in (ENTRY, PARSER) or rel.startswith(('rogw/tranp/bin/', 'rogw/tranp/test/')):
			continue
		mm = idx.mod(rel)
		for q, f in mm.functions.items():
			for n in walk_no_nested(f.node):
				if isinstance(n, ast.Attribute) and n.attr == 'source' and isinstance(n.ctx, ast.Load) and 'entry' in unparse(n.value).lower():
					src_users.append(f'{rel}:{q}')
	rv.check(not src_users, 'raw-source-consumers', view.where, f'code outside the lark adapter reads Entry.source (the raw lark object) directly: {src_users}; fields not covered by the view would then matter')

	# store wrappers
	rs = rep.rule('C15/store-wrappers', 'EntryStored.save/load apply Serialization.dumps/loads with the JSON codec; the tree cache is opened with format=json', floor=3)
	es = p.cls('EntryStored')
	save, load = es.method('save'), es.method('load')
	ssrc, lsrc = unparse(save.node), unparse(load.node)
	rs.check(has_call(closure_fi(save), 'Serialization.dumps') and has_call(closure_fi(save), 'json.dumps') and any(isinstance(c_.func, ast.Attribute) and c_.func.attr == 'encode' and [const_str(a) for a in c_.args] == ['utf-8'] for b in closure_fi(save) for c_ in nodes(b, ast.Call)), 'save', save.where, 'EntryStored.save no longer writes json.dumps(Serialization.dumps(tree)) encoded as utf-8')
	rs.check(has_call(closure_fi(load), 'json.load') and has_call(closure_fi(load), 'Serialization.loads') and has_call(closure_fi(load), 'EntryOfLark'), 'load', load.where, 'EntryStored.load no longer restores EntryOfLark(Serialization.loads(json.load(stream)))')
	le = p.func('SyntaxParserOfLark.__load_entry')
	# the call may sit in a private helper of the parser class that __load_entry calls (`self.__entry_cache(basepath, source_path)`)
	le_bodies = [le.node] + [g.node for c_ in ast.walk(le.node) if isinstance(c_, ast.Call) and isinstance(c_.func, ast.Attribute) and isinstance(c_.func.value, ast.Name) and c_.func.value.id == 'self' and le.cls is not None for g in [le.cls.method(c_.func.attr)] if g is not None and g is not le and g.name.startswith('_')]
	fmt = [const_str(k.value) for b in le_bodies for n in ast.walk(b) if isinstance(n, ast.Call) for k in n.keywords if k.arg == 'format']
	rs.check(fmt == ['json'], 'cache-format', le.where, f'the tree cache is opened with format={fmt}')
