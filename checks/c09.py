"""C09 — every handler receives exactly the results of its own children: structural clauses of the walker/handler contract."""
from __future__ import annotations

import ast

from vlib.core import AnalysisError, Report
from vlib.flow import enclosing_tries, parent_map
from vlib.grammar import EMPTY, GrammarModel
from vlib.match import FI, X, calls, closure, closure_fi, deref, facts, has_call, nodes
from vlib.nodemodel import NodeModel, snakelize
from vlib.srcindex import ClassInfo, FuncInfo, SourceIndex, attr_chain, const_str, unparse, walk_no_nested
from vlib.typer import Typer

EXPLANATION = (
	'The walker flattens a node\'s expandable properties by run-time value (isinstance(x, list)) and the Procedure pops results by annotation (return annotation __origin__ is list) in reversed prop_keys order, '
	'passing them as keyword arguments. Decided: (a) for every expandable property reachable from a dispatchable class, list-ness of the annotation the run time will see equals list-ness of every return expression '
	'(small abstract interpretation list/single over the property bodies); (b) for the three Procedure clients the parameters of on_<classification> equal prop_keys(class) as a set; '
	'(c) metadata keys are unambiguous (unique class names per module, no nested classes, no property registered twice along one MRO); '
	'(d) Procedure appends exactly one result per node after popping the event, exec pushes/pops one stack, the pop order is the reverse of the flatten order; '
	'(e) the raw-descendant fallback (`__prop_expand() or _under_expand()`) cannot fire for a class that has expandable properties. '
	'Per-tree equality event(n)[k] == results(getattr(n,k)) follows from a+b+c+d plus purity of properties, which is argued, not checked.'
)
ASSUMPTIONS = ['node properties are pure (two reads yield the same nodes): argued from the memoised query layer, not checked', 'prop_keys is recomputed with Node.prop_keys\' own algorithm read from node.py']
TRUSTED_BASE = ['CPython ast', 'vlib/nodemodel.py', 'vlib/grammar.py (lark compiled rules)']

CLIENTS = [
	('rogw/tranp/implements/cpp/transpiler/py2cpp.py', 'Py2Cpp', 90),
	('rogw/tranp/semantics/reflections.py', 'ProceduralResolver', 60),
	('rogw/tranp/implements/transpiler/evaluator.py', 'LiteralEvaluator', 15),
]


def run(rep: Report, tier: str) -> None:
	idx = SourceIndex()
	nm = NodeModel(idx)
	rep.consulted(*nm.files())
	rule_a(rep, idx, nm)
	for rel, cls, floor in CLIENTS:
		handler_contract(rep, idx, nm, f'C09/handler-props:{cls}', rel, cls, floor)
	rule_c(rep, idx, nm)
	rule_d(rep, idx, nm)
	rule_e(rep, idx, nm)
	rule_f(rep, idx, nm)
	rule_walker_state(rep, idx)
	rule_flatten_every_key(rep, idx)
	rule_embed_on_function(rep, idx, nm)


# ---- (a) list-ness ------------------------------------------------------------------------------------------------------

def ann_is_list(f: FuncInfo) -> bool | None:
	"""list-ness as Procedure.__is_prop_list_by sees it: the evaluated return annotation has __origin__ list"""
	ann = f.node.returns
	if ann is None:
		return None
	if f.module.future_annotations:
		return False  # annotations stay strings: no __origin__
	if isinstance(ann, ast.Constant) and isinstance(ann.value, str):
		return False
	if isinstance(ann, ast.Subscript):
		return attr_chain(ann.value) in ('list', 'List', 'typing.List')
	return False


def declared_list(f: FuncInfo) -> bool:
	"""list-ness the author declared (string annotations parsed)"""
	ann = f.node.returns
	if isinstance(ann, ast.Constant) and isinstance(ann.value, str):
		try:
			ann = ast.parse(ann.value, mode='eval').body
		except SyntaxError:
			return False
	return isinstance(ann, ast.Subscript) and attr_chain(ann.value) in ('list', 'List', 'typing.List')


LIST_CALLS = {'_children', '_under_expand', '_siblings', '_values'}
SINGLE_CALLS = {'_at', '_by', '_ancestor', 'dirty_child', 'dirty_proxify', 'as_a', 'one_of', '_at_child'}


class Kinds:
	def __init__(self, idx: SourceIndex, nm: NodeModel, typer: Typer) -> None:
		self.idx, self.nm, self.typer = idx, nm, typer

	def prop_kind(self, cls: ClassInfo, name: str, after: ClassInfo | None = None) -> str | None:
		f = self.idx.lookup_after(cls, after, name) if after is not None else self.idx.lookup(cls, name)
		if f is None:
			return None
		if f.is_property or True:
			return 'list' if declared_list(f) else 'single'

	def of(self, e: ast.AST, f: FuncInfo, cls: ClassInfo, depth: int = 0) -> str | None:
		if depth > 6:
			return None
		if isinstance(e, (ast.List, ast.ListComp)):
			return 'list'
		if isinstance(e, ast.Starred):
			return self.of(e.value, f, cls, depth + 1)
		if isinstance(e, ast.IfExp):
			a, b = self.of(e.body, f, cls, depth + 1), self.of(e.orelse, f, cls, depth + 1)
			return a if a == b else None
		if isinstance(e, ast.BinOp) and isinstance(e.op, ast.Add):
			a, b = self.of(e.left, f, cls, depth + 1), self.of(e.right, f, cls, depth + 1)
			return 'list' if a == b == 'list' else None
		if isinstance(e, ast.Subscript):
			base = self.of(e.value, f, cls, depth + 1)
			if isinstance(e.slice, ast.Slice):
				return base
			return 'single' if base == 'list' else None
		if isinstance(e, ast.Call):
			fn = e.func
			if isinstance(fn, ast.Name):
				if fn.id in ('list', 'sorted', 'reversed'):
					return 'list'
				if fn.id in ('cast', 'as_a') and len(e.args) == 2:
					t = e.args[0]
					if isinstance(t, ast.Subscript) and attr_chain(t.value) == 'list':
						return 'list'
					return self.of(e.args[1], f, cls, depth + 1) or 'single'
				return None
			if isinstance(fn, ast.Attribute):
				if fn.attr in LIST_CALLS:
					return 'list'
				if fn.attr in SINGLE_CALLS:
					return 'single'
				if fn.attr == 'get' and len(e.args) == 2 and '_memo' in unparse(fn.value):
					# self._memo.get(key, factory): kind of the factory's returns
					fac = e.args[1]
					if isinstance(fac, ast.Name):
						nested = f.module.functions.get(f'{f.qualname}.<locals>.{fac.id}')
						if nested is not None:
							ks = {self.of(r.value, nested, cls, depth + 1) for r in ast.walk(nested.node) if isinstance(r, ast.Return) and r.value is not None}
							return ks.pop() if len(ks) == 1 else None
					if isinstance(fac, ast.Lambda):
						return self.of(fac.body, f, cls, depth + 1)
					return None
				# method with a return annotation
				for callee in self.typer.callees(f, e, widen=False):
					return 'list' if declared_list(callee) else 'single'
				return None
		if isinstance(e, ast.Attribute):
			# super().p / self.p / self.a.b
			if isinstance(e.value, ast.Call) and isinstance(e.value.func, ast.Name) and e.value.func.id == 'super' and f.cls is not None:
				return self.prop_kind(cls, e.attr, after=f.cls)
			if isinstance(e.value, ast.Name) and e.value.id == 'self':
				return self.prop_kind(cls, e.attr)
			for c in self.typer.expr_types(f, e.value):
				k = self.prop_kind(c, e.attr)
				if k:
					return k
			return None
		if isinstance(e, ast.Name):
			ks = set()
			for n in walk_no_nested(f.node):
				if isinstance(n, ast.Assign) and any(isinstance(t, ast.Name) and t.id == e.id for t in n.targets):
					ks.add(self.of(n.value, f, cls, depth + 1))
				elif isinstance(n, ast.AnnAssign) and isinstance(n.target, ast.Name) and n.target.id == e.id:
					ks.add('list' if isinstance(n.annotation, ast.Subscript) and attr_chain(n.annotation.value) == 'list' else (self.of(n.value, f, cls, depth + 1) if n.value else None))
				elif isinstance(n, (ast.For, ast.comprehension)) and isinstance(n.target, ast.Name) and n.target.id == e.id:
					ks.add('single')
			return ks.pop() if len(ks) == 1 else None
		return None


def rule_a(rep: Report, idx: SourceIndex, nm: NodeModel) -> None:
	r = rep.rule('C09/listness-agreement', 'for each expandable property of each dispatchable class: list-ness of the annotation seen at run time == list-ness of every return expression', floor=100)
	typer = Typer(idx, [m.relpath for m in nm.def_mods] + ['rogw/tranp/syntax/node/node.py'])
	kinds = Kinds(idx, nm, typer)
	seen = set()
	for c in nm.mapped_classes():
		for key in nm.prop_keys(c):
			f = nm.prop_func(c, key)
			if f is None:
				r.violate(f'{c.name}.{key}', c.where, f'expandable property {key} is not resolvable on {c.name}')
				continue
			ident = (id(f), c.name if _uses_self_dispatch(f) else '')
			if ident in seen:
				continue
			seen.add(ident)
			k = f'{f.cls.name if f.cls else "?"}.{key}' + (f'@{c.name}' if ident[1] else '')
			a = ann_is_list(f)
			if a is None:
				r.violate(k, f.where, f'expandable property {key} has no return annotation: Procedure.__is_prop_list_by raises KeyError')
				continue
			if not f.is_property:
				r.violate(k, f.where, f'expandable {key} is not a property: getattr(cls, key).fget fails')
				continue
			rets = [n for n in walk_no_nested(f.node) if isinstance(n, ast.Return)]
			if not rets:
				r.undecided(k, f.where, 'no return statement')
				continue
			bad = None
			for ret in rets:
				vk = kinds.of(ret.value, f, c) if ret.value is not None else None
				if vk is None:
					r.undecided(k, (f.module.relpath, ret.lineno), f'cannot classify `{unparse(ret.value)}` as list or single')
					bad = 'undecided'
					break
				if (vk == 'list') != a:
					bad = f'`{unparse(ret)}` yields a {vk} value but the annotation `{unparse(f.node.returns)}` is seen as {"list" if a else "single"} at run time' + (' (string / postponed annotation has no __origin__)' if declared_list(f) and not a else '')
					r.violate(k, (f.module.relpath, ret.lineno), f'{bad}: the walker flattens by value and Procedure pops by annotation, so results shift between properties/siblings', unparse(ret))
					break
			if bad is None:
				r.ok(k, f.where)


def _uses_self_dispatch(f: FuncInfo) -> bool:
	"""the body reads other properties through self (so list-ness may depend on the concrete class)"""
	return any(isinstance(n, ast.Attribute) and isinstance(n.value, ast.Name) and n.value.id == 'self' and not n.attr.startswith('_') for n in ast.walk(f.node))


# ---- (b) handler parameters == prop_keys ------------------------------------------------------------------------------------

def handler_contract(rep: Report, idx: SourceIndex, nm: NodeModel, rule_id: str, rel: str, cls_name: str, floor: int) -> None:
	r = rep.rule(rule_id, f'{cls_name}: for every on_<classification> handler the parameters after (self, node) equal Node.prop_keys() of that node class as a set; on_fallback takes only node', floor=floor)
	m = idx.mod(rel)
	rep.consulted(rel)
	c = m.cls(cls_name)
	# the class registers its own __dict__ keys starting with on_ on a Procedure
	src = unparse(c.node)
	if f'{cls_name}.__dict__' not in src or "startswith('on_')" not in src:
		raise AnalysisError(f'{rel}:{cls_name} no longer registers {cls_name}.__dict__ keys starting with on_ as handlers')
	by_classification: dict[str, list[ClassInfo]] = {}
	for k in nm.classes:
		by_classification.setdefault(nm.classification(k), []).append(k)
	dispatchable = {nm.classification(k) for k in nm.mapped_classes()}
	for name, defs in c.methods.items():
		if not name.startswith('on_'):
			continue
		f = defs[-1]
		params = f.params()
		a = f.node.args
		if a.vararg or a.kwarg:
			r.ok(name, f.where, message='accepts *args/**kwargs')
			continue
		if params[:1] != ['self'] or params[1:2] != ['node']:
			r.violate(name, f.where, f'handler {name} must take (self, node, ...); takes {params}: Procedure emits node=<node> as keyword', unparse(f.node).split('\n')[0])
			continue
		rest = set(params[2:])
		x = name[3:]
		if x == 'fallback':
			r.check(not rest, name, f.where, f'on_fallback receives only node (every prop of the actual node is popped but not passed?) — it takes extra {sorted(rest)}')
			continue
		cands = by_classification.get(x)
		if not cands:
			r.violate(name, f.where, f'handler {name}: no node class has classification `{x}` (snakelize of the class name); the handler can never be dispatched', unparse(f.node).split('\n')[0])
			continue
		keysets = {frozenset(nm.prop_keys(k)) for k in cands}
		# parameters without default must be exactly the keys; parameters with defaults are optional extras
		n_defaults = len(a.defaults)
		required = set(params[2:len(params) - n_defaults]) if n_defaults else rest
		ok = any(required <= ks <= rest for ks in keysets)
		want = sorted(next(iter(keysets)))
		r.check(ok, name, f.where, f'handler {name} takes {sorted(rest)} but {cands[0].name}.prop_keys() is {want}: Procedure calls it with exactly those keywords, so the call raises TypeError -> Errors.InvalidSchema for every `{x}` node', unparse(f.node).split('\n')[0])
		if x not in dispatchable:
			r.note(f'{name}: class {cands[0].name} is not in the dispatch table (handler reachable only through dirty nodes)')


# ---- (c) metadata keys ------------------------------------------------------------------------------------------------------

def rule_c(rep: Report, idx: SourceIndex, nm: NodeModel) -> None:
	r = rep.rule('C09/metadata-unambiguous', 'MetaData keys (module + class name) are unambiguous: unique node class names per module, no expandable on a nested class, no expandable name twice in prop_keys of a class', floor=100)
	for m in nm.def_mods:
		names: dict[str, int] = {}
		for q, c in m.classes.items():
			names[c.name] = names.get(c.name, 0) + 1
		for q, c in m.classes.items():
			exp = nm.own_expandables(c) if nm.is_node_class(c) else []
			if not exp:
				continue
			r.check(names[c.name] == 1 and c.outer is None, f'{m.relpath}:{q}', c.where, f'class name {c.name} is {"nested" if c.outer else "defined twice"} in {m.relpath}: MetaData keys methods by module + qualname.split(".")[-2], so registrations collide')
	for c in nm.mapped_classes():
		keys = nm.prop_keys(c)
		dup = sorted({k for k in keys if keys.count(k) > 1})
		r.check(not dup, f'prop_keys:{c.name}', c.where, f'{c.name}.prop_keys() lists {dup} twice (registered by two classes on the MRO): flattened once (dict) but popped twice')
	# the algorithm we mirror
	pk = nm.node_cls.method('prop_keys')
	emb = nm.node_cls.method('__embed_classes')
	if pk is None:
		raise AnalysisError('Node.prop_keys vanished')
	pcl = closure(pk)
	digs = [c_ for c_ in calls(pcl, 'Meta.dig_for_method') if len(c_.args) >= 3 and unparse(c_.args[2]) == 'EmbedKeys.Expandable']
	mro = any(isinstance(n, ast.Attribute) and n.attr == '__mro__' for n in nodes(pcl))
	rev = has_call(pcl, 'reversed') or has_call(pcl, 'reverse') or any(isinstance(n, ast.Subscript) and unparse(n.slice) == '::-1' for n in nodes(pcl))
	if digs and mro and rev:
		r.ok('Node.prop_keys algorithm', pk.where)
	else:
		r.skip('Node.prop_keys algorithm', pk.where, f'Node.prop_keys is no longer `for ctor in reversed(subclasses-of-Node in cls.__mro__): Meta.dig_for_method(Node, ctor, EmbedKeys.Expandable)` (dig: {bool(digs)}, mro: {mro}, base-first: {rev}); NodeModel.prop_keys mirrors that algorithm')


# ---- (d) Procedure: one result per node --------------------------------------------------------------------------------------

def rule_d(rep: Report, idx: SourceIndex, nm: NodeModel) -> None:
	r = rep.rule('C09/one-result-per-node', 'Procedure: event popped before the handler runs, exactly one append per node, exec pushes/pops one stack, pops in reversed prop_keys order with list segments re-reversed', floor=8)
	m = idx.mod('rogw/tranp/semantics/procedure.py')
	rep.consulted(m.relpath)
	p = m.cls('Procedure')
	meth = {n: d[-1] for n, d in p.methods.items()}
	for need in ('exec', '__exec_impl', '__run_action', '__emit', '__make_event', '__is_prop_list_by', '__stack_pop', '__result'):
		if need not in meth:
			raise AnalysisError(f'Procedure.{need} vanished')
	appends = [(f, n) for f in meth.values() for n in walk_no_nested(X(f)) if isinstance(n, ast.Call) and isinstance(n.func, ast.Attribute) and n.func.attr in ('append', 'extend', 'insert') and '__stack' in unparse(n.func.value) and '__stacks' not in unparse(n.func.value)]
	r.check(len(appends) == 1 and appends[0][0].name == '__run_action', 'single-append', meth['__run_action'].where, f'results are appended at {[(f.name, unparse(n)) for f, n in appends]}; expected exactly one append in __run_action')
	ra = meth['__run_action']
	order = [(n.lineno, 'emit') for n in walk_no_nested(X(ra)) if isinstance(n, ast.Call) and unparse(n.func).endswith('__emit')] + [(n.lineno, 'append') for f, n in appends if f is ra]
	r.check([k for _, k in sorted(order)] == ['emit', 'append'], 'emit-before-append', ra.where, f'__run_action must call __emit (which pops the children\'s results) before appending its own result; order is {sorted(order)}')
	em = meth['__emit']
	ecalls = [(n.lineno, 'make_event' if unparse(n.func).endswith('__make_event') else 'emit') for n in walk_no_nested(em.node) if isinstance(n, ast.Call) and (unparse(n.func).endswith('__make_event') or unparse(n.func).endswith('emitter.emit'))]
	r.check([k for _, k in sorted(ecalls)] == ['make_event', 'emit'], 'event-before-handler', em.where, f'__emit must build the event (pop) before invoking the handler: {sorted(ecalls)}')
	emx = X(em)
	for c_ in calls(emx, '__make_event'):
		conds = facts(emx, c_)
		r.check(not conds, 'event-popped-for-every-node', em.where, f'__emit must build the event (which pops the results of the node\'s children) for every node before the handler runs; here it is built only under {conds}, so for the other nodes the children\'s results stay on the stack and surface in a sibling\'s or the parent\'s event', unparse(c_))
	ex = meth['exec']
	seq = []
	for n in walk_no_nested(ex.node):
		if isinstance(n, ast.Call) and isinstance(n.func, ast.Attribute):
			s = unparse(n.func)
			if s.endswith('__stacks.append'):
				seq.append((n.lineno, 'push'))
			elif s.endswith('__stacks.pop'):
				seq.append((n.lineno, 'pop'))
			elif s.endswith('__exec_impl'):
				seq.append((n.lineno, 'impl'))
	r.check([k for _, k in sorted(seq)] == ['push', 'impl', 'pop'], 'exec-stack-balanced', ex.where, f'exec must push one stack, run, pop one stack: {sorted(seq)}')
	# the pop runs on every way out: a nested exec that raises (and whose caller recovers) must not leave its stack on top of the outer run's stack
	pops = [n for n in ast.walk(ex.node) if isinstance(n, ast.Call) and unparse(n.func).endswith('__stacks.pop')]
	in_finally = any(any(p_ is x for t in ast.walk(ex.node) if isinstance(t, ast.Try) for s_ in t.finalbody for x in ast.walk(s_)) for p_ in pops)
	r.check(in_finally, 'exec-stack-popped-on-failure', ex.where, 'Procedure.exec pops its result stack only when the run succeeds: after a nested exec raised and its caller recovered, the outer run continues on the dead stack and builds its result from the failed run\'s leftovers (`a + b` -> Sum[\'c\', \'*\', \'b\']); pop in a finally block')
	res = meth['__result']
	r.check(any(isinstance(c_, ast.Compare) and len(c_.ops) == 1 and isinstance(c_.ops[0], ast.Eq) and {unparse(c_.left), unparse(c_.comparators[0])} == {'len(self.__stack)', '1'} for n in ast.walk(FI(res)) if isinstance(n, ast.Assert) for c_ in ast.walk(n.test)), 'result-size-one', res.where, '__result no longer asserts that exactly one result is left')
	# pop order (matched over __make_event and the private helpers it calls, on alias-expanded bodies)
	me = meth['__make_event']
	cl = closure(me)
	iters = [deref(fn, n.iter) for fn in cl for n in nodes(fn, (ast.For, ast.comprehension))]
	key_iters = [it for it in iters if has_call(it, 'prop_keys')]
	if not key_iters:
		r.skip('pop-order:keys', me.where, '__make_event no longer iterates node.prop_keys()')
	else:
		r.check(all(_reversing(it) for it in key_iters), 'pop-order:keys', me.where, f'__make_event must pop the properties in reversed(node.prop_keys()) order (results are taken from the end of the stack): iterates `{unparse(key_iters[0])}`', unparse(key_iters[0]))
	segs = []
	for fn in cl:
		pm = parent_map(fn)
		for n in nodes(fn, ast.ListComp):
			if has_call(n.elt, '__stack_pop') and len(n.generators) == 1 and has_call(n.generators[0].iter, 'range'):
				segs.append((fn, pm, n))
	if not segs:
		r.skip('pop-order:segment', me.where, 'no `[pop() for _ in range(n)]` list segment in __make_event or its helpers')
	for fn, pm, n in segs:
		r.check(_re_reversed(fn, pm, n), 'pop-order:segment', me.where, f'a list property takes len(list) results popped from the end of the stack; the segment `{unparse(n)}` must be reversed again to be in child order', unparse(n))
		cnt = n.generators[0].iter.args[0] if n.generators[0].iter.args else None
	lens = [c for c in calls(cl, 'len') if c.args and isinstance(c.args[0], ast.Call) and unparse(c.args[0].func) == 'getattr']
	if segs:
		r.check(bool(lens), 'pop-order:count', me.where, 'the number of results popped for a list property must be len(getattr(node, key)) — the same list the flattening walked')
	# flatten side (node.py): procedural() = [*child.procedural(), child] per child in prop order, and the event is popped in the reverse of that order
	nd = nm.node_cls
	pr = nd.method('procedural')
	if pr is None:
		raise AnalysisError('Node.procedural vanished')
	pcl = closure(pr)
	disp = []
	for n in nodes(pcl, (ast.List, ast.Tuple)):
		if len(n.elts) == 2:
			for a, b, tag in ((n.elts[0], n.elts[1], 'post'), (n.elts[1], n.elts[0], 'pre')):
				if isinstance(a, ast.Starred) and isinstance(a.value, ast.Call) and unparse(a.value.func).endswith('.procedural') and isinstance(b, ast.Name) and unparse(a.value.func) == b.id + '.procedural':
					disp.append((n, tag))
	# the same order written as a concatenation: `child.procedural() + [child]` (post) / `[child] + child.procedural()` (pre)
	for n in nodes(pcl, ast.BinOp):
		if not isinstance(n.op, ast.Add):
			continue
		for a, b, tag in ((n.left, n.right, 'post'), (n.right, n.left, 'pre')):
			if isinstance(a, ast.Call) and unparse(a.func).endswith('.procedural') and isinstance(b, ast.List) and len(b.elts) == 1 and isinstance(b.elts[0], ast.Name) and unparse(a.func) == b.elts[0].id + '.procedural':
				disp.append((n, tag))
	if not disp:
		r.skip('flatten-order:post-order', pr.where, 'no `[*child.procedural(), child]` display in Node.procedural')
	for n, tag in disp:
		r.check(tag == 'post', 'flatten-order:post-order', pr.where, f'Node.procedural must list a child after its own descendants (`{unparse(n)}`): Procedure pops the children\'s results when the parent is reached', unparse(n))
	# every listed occurrence is walked: Procedure pops len(getattr(node, key)) results per key, so the flattening must not drop a node that is
	# listed under two properties
	dedups = [c_ for c_ in nodes(pcl[0], ast.Call) if unparse(c_.func) in ('dict.fromkeys', 'set', 'OrderedDict.fromkeys', 'frozenset', 'unique')]
	r.check(not dedups, 'flatten-order:every-occurrence', pr.where, f'Node.procedural de-duplicates the flattened nodes (`{unparse(dedups[0])[:60] if dedups else ""}`): a node reachable through two expandable properties is walked once but popped once per property, so results shift between the properties (Class.inherits / inherit_sub_types of `class B(G[int])`)', unparse(dedups[0])[:80] if dedups else '')
	piters = [it for it in (deref(fn, n.iter) for fn in pcl for n in nodes(fn, (ast.For, ast.comprehension))) if has_call(it, 'prop_keys')]
	if not piters:
		r.skip('flatten-order:keys', pr.where, 'Node.procedural (and helpers) no longer iterate self.prop_keys()')
	for it in piters:
		r.check(isinstance(it, ast.Call) and unparse(it.func).endswith('prop_keys'), 'flatten-order:keys', pr.where, f'the flattening must walk self.prop_keys() in definition order (it iterates `{unparse(it)}`)', unparse(it))
	pe_calls = calls(pcl[0], '__prop_expand')
	ue_calls = calls(pcl[0], '_under_expand')
	if pe_calls and ue_calls:
		first = min((c.lineno, c.col_offset) for c in pe_calls) < min((c.lineno, c.col_offset) for c in ue_calls)
		r.check(first, 'flatten-order:props-first', pr.where, 'Node.procedural must prefer the expandable properties over the raw children')
	else:
		r.skip('flatten-order:props-first', pr.where, 'Node.procedural no longer chooses between __prop_expand and _under_expand')
	il = meth['__is_prop_list_by']
	ilx = closure(il)
	reads_ret = any(isinstance(n, ast.Subscript) and const_str(n.slice) == 'return' and unparse(n.value).endswith('__annotations__') for n in nodes(ilx, ast.Subscript)) or has_call(ilx, 'get_type_hints')
	origin = any((isinstance(n, ast.Attribute) and n.attr == '__origin__') or const_str(n) == '__origin__' for n in nodes(ilx)) or has_call(ilx, 'get_origin')
	is_list = any(isinstance(n, ast.Compare) and len(n.ops) == 1 and isinstance(n.ops[0], (ast.Is, ast.Eq)) and 'list' in (unparse(n.comparators[0]), unparse(n.left)) for n in nodes(ilx, ast.Compare))
	if reads_ret and origin and is_list:
		r.ok('listness-by-annotation', il.where)
	else:
		r.skip('listness-by-annotation', il.where, f'__is_prop_list_by no longer decides by the origin of the return annotation of the property getter (return annotation read: {reads_ret}, origin: {origin}, compared with list: {is_list}); rule C09/listness-agreement models that')


def _reversing(it: ast.AST) -> bool:
	"""`reversed(x)` or `x[::-1]`"""
	if isinstance(it, ast.Call) and unparse(it.func) == 'reversed':
		return not _reversing(it.args[0]) if it.args else False
	if isinstance(it, ast.Subscript) and unparse(it.slice) == '::-1':
		return not _reversing(it.value)
	return False


def _re_reversed(fn: ast.AST, pm: dict, comp: ast.AST) -> bool:
	"""the list built by `comp` is reversed before it is used: wrapped in reversed()/[::-1], or bound to a name that is .reverse()d / reversed()"""
	cur = comp
	flips = 0
	while id(cur) in pm:
		par = pm[id(cur)]
		if isinstance(par, ast.Call) and unparse(par.func) == 'reversed' and par.args and par.args[0] is cur:
			flips += 1
		elif isinstance(par, ast.Subscript) and par.value is cur and unparse(par.slice) == '::-1':
			flips += 1
		elif isinstance(par, ast.Call) and unparse(par.func) in ('list', 'tuple') and par.args and par.args[0] is cur:
			pass
		elif isinstance(par, (ast.Assign, ast.AnnAssign)) and par.value is cur:
			tgt = par.targets[0] if isinstance(par, ast.Assign) else par.target
			if isinstance(tgt, ast.Name):
				for n in ast.walk(fn):
					if isinstance(n, ast.Call) and unparse(n.func) == f'{tgt.id}.reverse' and n.lineno > par.lineno:
						flips += 1
					elif isinstance(n, ast.Call) and unparse(n.func) == 'reversed' and n.args and unparse(n.args[0]) == tgt.id and n.lineno > par.lineno:
						flips += 1
					elif isinstance(n, ast.Subscript) and unparse(n.value) == tgt.id and unparse(n.slice) == '::-1' and n.lineno > par.lineno:
						flips += 1
			break
		else:
			break
		cur = par
	return flips % 2 == 1


def _filtered(f: FuncInfo) -> bool:
	return any(isinstance(n, ast.ListComp) and n.generators and n.generators[0].ifs for n in ast.walk(f.node))


# ---- (e) fallback cannot fire ---------------------------------------------------------------------------------------------------

def rule_e(rep: Report, idx: SourceIndex, nm: NodeModel) -> None:
	r = rep.rule('C09/no-fallback-with-props', 'for every dispatchable class all of whose expandable properties are lists: whenever a production of its tag has a kept child, at least one property is non-empty (else the walker falls back to raw descendants whose results nobody pops)', floor=20)
	gm = GrammarModel()
	rep.consulted(gm.relpath)
	prods = gm.productions()
	typer = Typer(idx, [m.relpath for m in nm.def_mods] + ['rogw/tranp/syntax/node/node.py'])
	t2c = nm.tag_to_classes()
	proc = nm.node_cls.method('procedural')
	if proc is None or not (has_call(X(proc), '__prop_expand') and has_call(X(proc), '_under_expand')):
		r.skip('procedural-shape', nm.node_cls.where, 'Node.procedural no longer falls back from __prop_expand() to _under_expand(); rule is moot')
		r.floor = 1
		return

	def classes_for(tags) -> list[ClassInfo]:
		out = []
		for t in tags:
			out.extend(t2c.get(t, [nm.fallback]))
		return out

	def nonempty(c: ClassInfo, f: FuncInfo, prod, depth=0) -> bool | None:
		"""can the list property f of class c be proven non-empty for this (non-empty) production?"""
		rets = [n.value for n in walk_no_nested(FI(f)) if isinstance(n, ast.Return) and n.value is not None]
		if len(rets) != 1 or depth > 3:
			return None
		e = rets[0]
		filt = None
		if isinstance(e, ast.ListComp) and len(e.generators) == 1:
			g = e.generators[0]
			filt = g.ifs
			e = g.iter
		src = unparse(e)
		if src == 'self._children()':
			if not filt:
				return len(prod) >= 1
			# filter `node.is_a(T)`: some fixed slot whose every candidate class is a T
			if len(filt) == 1 and isinstance(filt[0], ast.Call) and unparse(filt[0].func).endswith('.is_a') and filt[0].args:
				T = idx.resolve_class(f.module, filt[0].args[0])
				if T is None:
					return None
				for s in prod:
					if s.mult == 'none':
						continue
					cs = classes_for(s.tags)
					if cs and all(T in idx.mro(k) for k in cs):
						return True
				# some slot can hold a T for well-formed inputs (other candidates are grammar-admitted but meaningless there): not provably empty
				return None if any(T in idx.mro(k) for s in prod if s.mult != 'none' for k in classes_for(s.tags)) else False
			return None
		for pat in ("self._children('", "self._by('"):
			if src.startswith(pat):
				path = src[len(pat):].split("'")[0]
				tag = path.split('.')[0]
				if '.' in path:
					return None
				present = any(s.mult != 'none' and tag in s.tags and len(s.tags) == 1 for s in prod)
				if not present:
					return False
				return all(len(p) >= 1 for p in prods.get(tag, [[]]))
		# delegation self.<prop>.<listprop>
		if isinstance(e, ast.Attribute) and isinstance(e.value, ast.Attribute) and isinstance(e.value.value, ast.Name) and e.value.value.id == 'self':
			inner = idx.lookup(c, e.value.attr)
			if inner is None:
				return None
			for k in typer.ann_types(inner.module, inner.node.returns, c):
				g = idx.lookup(k, e.attr)
				if g is None:
					return None
				ok = True
				for t in nm.tags_of(k):
					for p in prods.get(t, []):
						v = nonempty(k, g, p, depth + 1) if p else False
						if v is not True:
							ok = False
				return ok
		return None

	for c in nm.mapped_classes():
		keys = nm.prop_keys(c)
		if not keys:
			continue
		fs = [nm.prop_func(c, k) for k in keys]
		if not all(f is not None and declared_list(f) for f in fs):
			continue
		for tag in nm.tags_of(c):
			for i, prod in enumerate(prods.get(tag, [])):
				key = f'{c.name}:{tag}#{i}'
				if not prod:
					r.ok(key, c.where, message='production has no kept child')
					continue
				verdicts = [nonempty(c, f, prod) for f in fs]
				if any(v is True for v in verdicts):
					r.ok(key, c.where)
				elif all(v is False for v in verdicts):
					r.violate(key, c.where, f'production {prod} of `{tag}` has kept children, yet every expandable (list) property of {c.name} is empty for it: procedural() falls back to _under_expand() and the extra results are never popped (they surface in a sibling\'s event)', str(prod))
				elif all(_filtered(f) for f, v in zip(fs, verdicts) if v is None):
					r.ok(key, c.where, message='a filtered child list can be non-empty for this production (weak: emptiness for ill-formed operands not excluded)')
				else:
					r.undecided(key, c.where, f'cannot decide emptiness of {[f.name for f in fs]} for production {prod}')


# ---- (f) lists obtained from node properties are not mutated in place -------------------------------------------------------------

MUTATORS = {'pop', 'append', 'extend', 'insert', 'remove', 'clear', 'sort', 'reverse'}


def _fresh(e: ast.AST | None) -> bool:
	"""the expression builds a new list on every evaluation"""
	if isinstance(e, (ast.List, ast.ListComp)):
		return True
	if isinstance(e, ast.Call) and isinstance(e.func, ast.Name) and e.func.id in ('list', 'sorted'):
		return True
	if isinstance(e, ast.BinOp) and isinstance(e.op, ast.Add):
		return _fresh(e.left) or _fresh(e.right)
	if isinstance(e, ast.IfExp):
		return _fresh(e.body) and _fresh(e.orelse)
	if isinstance(e, ast.Subscript) and isinstance(e.slice, ast.Slice):
		return True
	return False


def _fresh_local(fn_node: ast.AST, e: ast.AST | None) -> bool:
	"""a local name whose every binding in the function is a fresh list expression (`out = []` ... `out.append(x)` ... `return out`)"""
	if not isinstance(e, ast.Name):
		return False
	binds = []
	for n in walk_no_nested(fn_node):
		if isinstance(n, ast.Assign) and any(isinstance(t, ast.Name) and t.id == e.id for t in n.targets):
			binds.append(n.value)
		elif isinstance(n, ast.AnnAssign) and isinstance(n.target, ast.Name) and n.target.id == e.id:
			binds.append(n.value)
		elif isinstance(n, (ast.For, ast.comprehension)) and any(isinstance(t, ast.Name) and t.id == e.id for t in ast.walk(n.target)):
			return False
	params = {a.arg for a in fn_node.args.posonlyargs + fn_node.args.args + fn_node.args.kwonlyargs}
	return bool(binds) and e.id not in params and all(_fresh(v) for v in binds)


def _escapes(fn_node: ast.AST, name: str) -> bool:
	"""the local is also stored somewhere that outlives the call (setattr(..., name), self.x = name, self.x[k] = name): the caller gets the stored object"""
	for n in walk_no_nested(fn_node):
		if isinstance(n, ast.Call) and isinstance(n.func, ast.Name) and n.func.id == 'setattr' and any(isinstance(a, ast.Name) and a.id == name for a in n.args):
			return True
		if isinstance(n, (ast.Assign, ast.AnnAssign)) and isinstance(n.value, ast.Name) and n.value.id == name:
			for t in (n.targets if isinstance(n, ast.Assign) else [n.target]):
				if isinstance(t, (ast.Attribute, ast.Subscript)):
					return True
	return False


def _sharing(idx: SourceIndex, g: FuncInfo, depth: int = 2) -> str:
	"""'fresh' (every return builds a new list), 'shared' (some return hands out stored state by reference) or 'unknown'"""
	verdicts = []
	for x in [r_.value for r_ in walk_no_nested(g.node) if isinstance(r_, ast.Return)]:
		if _fresh(x) or (_fresh_local(g.node, x) and not _escapes(g.node, x.id)):
			verdicts.append('fresh')
		elif isinstance(x, ast.Name) and _escapes(g.node, x.id):
			verdicts.append('shared')
		elif isinstance(x, ast.Attribute) and isinstance(x.value, ast.Name) and x.value.id in ('self', 'cls'):
			verdicts.append('shared')
		elif isinstance(x, ast.Call) and isinstance(x.func, ast.Name) and x.func.id == 'getattr' and x.args and isinstance(x.args[0], ast.Name) and x.args[0].id in ('self', 'cls'):
			verdicts.append('shared')
		elif isinstance(x, ast.Subscript) and not isinstance(x.slice, ast.Slice) and isinstance(x.value, ast.Attribute) and isinstance(x.value.value, ast.Name) and x.value.value.id in ('self', 'cls'):
			verdicts.append('shared')
		elif isinstance(x, ast.Call) and isinstance(x.func, ast.Attribute) and depth > 0:
			cands = [f for rel in idx.all_py(('rogw',)) if not rel.startswith('rogw/tranp/test/') for q, f in idx.mod(rel).functions.items() if f.name == x.func.attr and f.cls is not None and '#' not in q and not any('abstractmethod' in unparse(d) for d in f.node.decorator_list)]
			vs = {_sharing(idx, f, depth - 1) for f in cands}
			verdicts.append(vs.pop() if len(vs) == 1 else 'unknown')
		else:
			verdicts.append('unknown')
	if 'shared' in verdicts:
		return 'shared'
	return 'fresh' if verdicts and all(v == 'fresh' for v in verdicts) else 'unknown'


def rule_f(rep: Report, idx: SourceIndex, nm: NodeModel) -> None:
	r = rep.rule('C09/node-lists-not-mutated', 'a list obtained from a node property is mutated in place only if every definition of that property builds a fresh list on each call (properties are re-read by Procedure: a shared list that shrinks between flattening and popping misaligns the event)', floor=1)
	list_props: dict[str, list[FuncInfo]] = {}
	for c in nm.classes + [nm.node_cls]:
		for name, defs in c.methods.items():
			for f in defs:
				if f.is_property and declared_list(f):
					list_props.setdefault(name, []).append(f)
	# list-valued METHODS of the node classes (prop_keys: the class-level order of the expandable properties the walker flattens and pops by)
	list_methods: dict[str, list[FuncInfo]] = {}
	for c in nm.classes + [nm.node_cls]:
		for name, defs in c.methods.items():
			for f in defs:
				if not f.is_property and declared_list(f):
					list_methods.setdefault(name, []).append(f)
	n_sites = 0
	for rel in idx.all_py(('rogw',)):
		if rel.startswith(('rogw/tranp/test/', 'rogw/tranp/compatible/', 'rogw/tranp/bin/analyze', 'rogw/tranp/bin/ast_check', 'rogw/tranp/bin/gram_check', 'rogw/tranp/bin/j2_check')):
			continue
		m = idx.mod(rel)
		for q, f in m.functions.items():
			if '#' in q:
				continue
			# --- results of list-valued methods: `v = x.prop_keys(); v.reverse()` / `x.prop_keys().sort()`
			mbound: dict[str, str] = {}
			mcounts: dict[str, int] = {}
			for n in walk_no_nested(f.node):
				if isinstance(n, (ast.Assign, ast.AnnAssign)):
					for t in (n.targets if isinstance(n, ast.Assign) else [n.target]):
						if isinstance(t, ast.Name):
							mcounts[t.id] = mcounts.get(t.id, 0) + 1
							v = n.value
							if isinstance(v, ast.Call) and isinstance(v.func, ast.Attribute) and v.func.attr in list_methods and not (isinstance(v.func.value, ast.Name) and v.func.value.id in ('seqs', 're', 'os')):
								mbound[t.id] = v.func.attr
			for n in walk_no_nested(f.node):
				tgt = None
				if isinstance(n, ast.Call) and isinstance(n.func, ast.Attribute) and n.func.attr in MUTATORS:
					tgt = n.func.value
				elif isinstance(n, ast.Delete):
					tgt = next((t.value for t in n.targets if isinstance(t, ast.Subscript)), None)
				elif isinstance(n, ast.Assign):
					tgt = next((t.value for t in n.targets if isinstance(t, ast.Subscript)), None)
				elif isinstance(n, ast.AugAssign):
					tgt = n.target.value if isinstance(n.target, ast.Subscript) else (n.target if isinstance(n.op, (ast.Add, ast.Mult)) else None)
				meth = None
				if isinstance(tgt, ast.Name) and tgt.id in mbound and mcounts.get(tgt.id) == 1:
					meth = mbound[tgt.id]
				elif isinstance(tgt, ast.Call) and isinstance(tgt.func, ast.Attribute) and tgt.func.attr in list_methods:
					meth = tgt.func.attr
				if meth is None:
					continue
				n_sites += 1
				rep.consulted(rel)
				kinds = {f'{g.cls.name}.{meth}': _sharing(idx, g) for g in list_methods[meth]}
				key = f'{rel}:{q}:{unparse(n)[:50]}'
				if 'shared' in kinds.values():
					r.violate(key, (rel, n.lineno), f'`{unparse(n)[:70]}` changes in place the list returned by `{meth}()`, and {[k for k, v in kinds.items() if v == "shared"][:2]} hand out stored state by reference: every later caller sees the changed list' + (' — prop_keys is the class-level ORDER of the expandable properties: the walker flattened the tree in one order and Procedure pops the results in another, so the results of a node\'s properties are swapped (same counts, no error)' if meth == 'prop_keys' else ''), unparse(n)[:100])
				elif all(v == 'fresh' for v in kinds.values()):
					r.ok(key, (rel, n.lineno))
				else:
					r.skip(key, (rel, n.lineno), f'`{unparse(n)[:60]}` mutates the result of `{meth}()` whose freshness is not decidable from its return expressions ({kinds})')
			# locals bound (once) to `<expr>.<list property>`
			bound: dict[str, tuple[str, ast.AST]] = {}
			counts: dict[str, int] = {}
			for n in walk_no_nested(f.node):
				if isinstance(n, ast.Assign) and len(n.targets) == 1 and isinstance(n.targets[0], ast.Name):
					counts[n.targets[0].id] = counts.get(n.targets[0].id, 0) + 1
					v = n.value
					if isinstance(v, ast.Attribute) and v.attr in list_props:
						bound[n.targets[0].id] = (v.attr, v)
			for n in walk_no_nested(f.node):
				target = None
				if isinstance(n, ast.Call) and isinstance(n.func, ast.Attribute) and n.func.attr in MUTATORS and isinstance(n.func.value, ast.Name):
					target = n.func.value.id
				elif isinstance(n, ast.Delete):
					for t in n.targets:
						if isinstance(t, ast.Subscript) and isinstance(t.value, ast.Name):
							target = t.value.id
				elif isinstance(n, (ast.Assign, ast.AugAssign)):
					for t in (n.targets if isinstance(n, ast.Assign) else [n.target]):
						if isinstance(t, ast.Subscript) and isinstance(t.value, ast.Name):
							target = t.value.id
				# direct: node.prop.pop()
				direct = None
				if isinstance(n, ast.Call) and isinstance(n.func, ast.Attribute) and n.func.attr in MUTATORS and isinstance(n.func.value, ast.Attribute) and n.func.value.attr in list_props:
					direct = n.func.value.attr
				prop = direct or (bound[target][0] if target in bound and counts.get(target) == 1 else None)
				if prop is None:
					continue
				n_sites += 1
				rep.consulted(rel)
				stale = []
				for g in list_props[prop]:
					rets = [x.value for x in walk_no_nested(g.node) if isinstance(x, ast.Return)]
					if not rets or not all(_fresh(x) or _fresh_local(g.node, x) for x in rets):
						stale.append(f'{g.cls.name}.{prop} returns `{unparse(rets[0])[:60] if rets else "?"}`')
				key = f'{rel}:{q}:{unparse(n)[:50]}'
				r.check(not stale, key, (rel, n.lineno), f'`{unparse(n)[:70]}` mutates in place the list read from node property `{prop}`, but {stale[:2]} hand out a shared (cached / underlying) list: the node\'s own property shrinks, so Procedure pops a different count than the walker flattened', unparse(n)[:100])
	if n_sites == 0:
		r.ok('no-mutation-sites', None, message='no in-place mutation of a node-property list found')
	rep.extra_coverage['node_list_properties'] = len(list_props)
	rep.extra_coverage['node_list_methods'] = len(list_methods)
	rep.extra_coverage['node_list_mutation_sites'] = n_sites


def rule_walker_state(rep: Report, idx: SourceIndex) -> None:
	"""The walker flattens a node's properties and later pops as many results as each property yielded: both numbers must come from the tree being walked.
	Node identity (`__hash__` / `__eq__`) is (module path, full path) — NOT the tree: a Procedure that remembers per-node facts across runs (a memo of
	property lengths keyed by node) answers for the node at the same path of a re-loaded module, flattens with the new length and pops with the old one.
	The inventory of remembered state is C04's; the entries of Procedure are obligations here."""
	from checks import c04
	r = rep.rule('C09/walker-keeps-no-per-node-state', 'Procedure holds no container / memo besides its handler table and the per-run stacks (shared with C04/instance-state-inventory)', floor=1)
	scratch = Report('C04', rep.tier)
	c04.rule_g(scratch, idx)
	n_ = 0
	for rule in scratch.rules:
		for o in rule.obligations:
			if not o.key.startswith('Procedure.'):
				continue
			n_ += 1
			if o.status == 'violated':
				r.violate(o.key, (o.file, o.line), o.message + ' — node equality is (module path, full path): a per-node memo outlives the tree it was computed on, and the number of results popped for a property no longer matches the number pushed', o.fragment)
			else:
				r.ok(o.key, (o.file, o.line))
	if n_ == 0:
		r.skip('Procedure', None, 'C04/instance-state-inventory lists no attribute of Procedure')


def rule_flatten_every_key(rep: Report, idx: SourceIndex) -> None:
	"""Procedure pops, for every key of node.prop_keys(), as many results as the property yields; the walker pushes what Node.__prop_of_nodes (through
	__prop_expand / procedural) yields. Both sides must range over the SAME keys: an iteration over prop_keys() on the flatten side that can skip a key —
	a filter, a `continue`, an exception swallowed per key — pushes nothing for a property the pop side still pops one result for, and the handler is
	handed the preceding sibling's result (the run ends in `Stack is empty` much later, or not at all)."""
	from vlib.flow import parent_map
	r = rep.rule('C09/flatten-yields-every-declared-property', 'every iteration over prop_keys() in node.py / procedure.py visits every key: no filter, no continue, no exception swallowed per key', floor=1)
	n_ = 0
	for rel in ('rogw/tranp/syntax/node/node.py', 'rogw/tranp/semantics/procedure.py'):
		m = idx.mod(rel)
		for q, f in m.functions.items():
			if '#' in q:
				continue
			pm_ = parent_map(f.node)
			for n in walk_no_nested(f.node):
				gens = n.generators if isinstance(n, (ast.DictComp, ast.ListComp, ast.GeneratorExp, ast.SetComp)) else []
				loops = [n] if isinstance(n, ast.For) else []
				for g in gens:
					it = deref(f.node, g.iter) if isinstance(g.iter, ast.Name) else g.iter
					if 'prop_keys()' not in unparse(it):
						continue
					n_ += 1
					r.check(not g.ifs, f'{q}:comprehension', (rel, n.lineno), f'`{unparse(n)[:90]}` filters the keys of prop_keys(): a property left out here is still popped by Procedure.__make_event, which then takes the result of the preceding sibling', unparse(n)[:120])
				for lp in loops:
					it = deref(f.node, lp.iter) if isinstance(lp.iter, ast.Name) else lp.iter
					if 'prop_keys()' not in unparse(it):
						continue
					n_ += 1
					# a `continue` skips the key only when nothing was recorded for it before (`event[key] = ...; continue` is the early-exit spelling of if / else)
					lv = lp.target.id if isinstance(lp.target, ast.Name) else None
					def _records(st: ast.stmt) -> bool:
						return isinstance(st, (ast.Assign, ast.AnnAssign)) and any(isinstance(t, ast.Subscript) and lv is not None and unparse(t.slice) == lv for t in (st.targets if isinstance(st, ast.Assign) else [st.target]))
					skips = []
					for blk_owner in [lp] + [x for s_ in lp.body for x in ast.walk(s_) if isinstance(x, (ast.If, ast.Try, ast.With, ast.ExceptHandler))]:
						for fld in ('body', 'orelse', 'finalbody'):
							blk = getattr(blk_owner, fld, None)
							if not isinstance(blk, list):
								continue
							for i_, st in enumerate(blk):
								if isinstance(st, ast.Continue) and not any(_records(p_) for p_ in blk[:i_]):
									skips.append(st)
					swallowed = [h for s_ in lp.body for t in ast.walk(s_) if isinstance(t, ast.Try) for h in t.handlers if not any(isinstance(x, ast.Raise) for x in ast.walk(h))]
					why = 'skips a key with `continue`' if skips else ('swallows an exception raised for one key (`except ' + (unparse(swallowed[0].type) if swallowed and swallowed[0].type is not None else '') + '`)' if swallowed else '')
					r.check(not skips and not swallowed, f'{q}:loop', (rel, lp.lineno), f'the loop over prop_keys() in {q} {why}: the flatten side then pushes nothing for a property whose getter refuses its child (`"0123456789"[d]`, `(a, b)[i]`), while Procedure.__make_event still pops one result for it — the handler receives the result of the preceding sibling and the unmodified rejection (IllegalConvertion before any handler runs) turns into a misaligned run', unparse(lp)[:120])
	if n_ == 0:
		r.skip('prop_keys', None, 'no iteration over prop_keys() found in node.py / procedure.py')


def rule_embed_on_function(rep: Report, idx: SourceIndex, nm: NodeModel) -> None:
	"""`Meta.embed(Node, expandable)` files the decorated object under its name only when it is a plain function (`type(wrapped) is FunctionType`);
	handed anything else — the `property` object when the two decorators are written in the other order — it records class metadata instead and the
	property silently drops out of prop_keys(). The node then falls back to the resolvable-descendants walk while Procedure pops nothing for it: the
	results of its children stay on the stack and shift every enclosing event. So every decorator BELOW an expandable registration must hand on the
	function itself (`override`, `implements`): never `property`, `classmethod`, `staticmethod`, `cached_property`."""
	r = rep.rule('C09/expandable-registered-on-the-function', 'for every method of a node class decorated with Meta.embed(Node, expandable): no decorator applied before it (written below it) turns the function into a descriptor', floor=90)
	wrappers = {'property', 'classmethod', 'staticmethod', 'cached_property', 'functools.cached_property'}
	for c in nm.classes + [nm.node_cls]:
		for name, defs in c.methods.items():
			for f in defs:
				decs = f.node.decorator_list
				at = next((i for i, d in enumerate(decs) if isinstance(d, ast.Call) and unparse(d.func).endswith('Meta.embed') and any('expandable' in unparse(a) for a in d.args)), None)
				if at is None:
					continue
				below = [unparse(d) for d in decs[at + 1:]]
				bad = [b for b in below if b in wrappers]
				r.check(not bad, f'{c.name}.{name}', f.where, f'{c.name}.{name}: `@{bad[0] if bad else ""}` is applied BEFORE `@Meta.embed(Node, expandable)` (it is written below it): embed receives the {bad[0] if bad else ""} object, not the function, and registers nothing under `{name}` — prop_keys() of {c.name} loses the property, the walker flattens the node through the descendants fallback and Procedure pops no result for it (for `del a[0]`: the target results stay on the stack, the handler gets an empty event, the run ends with `Invalid number of stacks`)', ', '.join('@' + unparse(d) for d in decs)[:120])
