"""C12 — the grammar engine reproduces itself and its compiled rule files (translation validation of the shipped artifacts)."""
from __future__ import annotations

import os
import ast
import re

from vlib import metagram
from vlib.core import REPO, AnalysisError, Report
from vlib.match import X, atoms, concat_parts, deref, inline_predicates, nodes
from vlib.srcindex import const_str
from vlib.srcindex import SourceIndex, attr_chain, unparse

LEVEL = 'translation_validation'
EXPLANATION = (
	'Translation validation of the two shipped (grammar text, compiled rule module) pairs: an independent reader of the meta-grammar '
	'(vlib/metagram.py, no tranp import) turns data/syntax/gram.lark and py_gram.lark into the tuple tree documented by Rules.from_ast; '
	'the tuple literal passed to Rules.from_ast in gram_rules.py / py_rules.py is extracted with ast.literal_eval (the module is never executed); '
	'the two trees must be equal rule by rule and in the same order. Additional closure obligations: every referenced symbol is defined, no rule is defined twice, '
	'every terminal token conforms to the terminal regexps gram.lark itself declares, and the tools that consume the pairs import exactly these modules.'
)
ASSUMPTIONS = [
	'decides agreement of the shipped artifacts with the documented meta-grammar, not the behaviour of SyntaxParser.parse / Prettier.pretty on arbitrary generated grammars',
	'the meta-grammar reader mirrors gram.lark (5 structural rules); it is itself validated by requiring gram.lark == gram_rules.py, i.e. the fixed point',
]
TRUSTED_BASE = ['CPython ast.parse / ast.literal_eval', 'vlib/metagram.py (independent meta-grammar reader, ~150 lines)']

PAIRS = [('data/syntax/gram.lark', 'data/syntax/gram_rules.py', 12), ('data/syntax/py_gram.lark', 'data/syntax/py_rules.py', 60)]


def _read(path: str) -> str:
	try:
		with open(os.path.join(REPO, path), 'rb') as f:
			return f.read().decode('utf-8')
	except OSError as e:
		raise AnalysisError(f'anchor file vanished: {path} ({e})')


def _tokens(tree, out):
	if isinstance(tree[1], list):
		for c in tree[1]:
			_tokens(c, out)
	else:
		out.append(tree)


def _norm(tree):
	"""regexp tokens are compared as parsed regular expressions (sre parse tree), so `\\'` and `'` — which the generator's escape
	fix-up interchanges inside a Python string literal — compare equal while any change of the language of the regexp does not"""
	if isinstance(tree[1], list):
		return (tree[0], [_norm(c) for c in tree[1]])
	if tree[0] == 'regexp':
		import re._parser as sre
		try:
			return (tree[0], repr(sre.parse(tree[1][1:-1])))
		except re.error as e:
			return (tree[0], f'<invalid regexp {tree[1]!r}: {e}>')
	return tree


def rule_codec(rep: Report, idx) -> None:
	"""Prettier (rule set -> text) and Pattern.make (text -> pattern) must be inverse on terminals"""
	import ast
	from vlib.srcindex import unparse
	r = rep.rule('C12/terminal-print-parse-inverse', 'Prettier prints each terminal between the delimiters Pattern.make strips, and any escaping it applies to the text lies within what Pattern.make un-escapes', floor=3)
	m = idx.mod('rogw/tranp/implements/syntax/tranp/rule.py')
	rep.consulted(m.relpath)
	make = m.func('Pattern.make')
	pp = m.func('Prettier._pretty_pattern')
	# reader: delimiter -> comp, from the facts at each constructor call
	reader = {}
	mx = X(make)
	for c_ in nodes(mx, ast.Call):
		if not (isinstance(c_.func, ast.Name) and c_.func.id == 'cls' and c_.args):
			continue
		known = inline_predicates(make, atoms(mx, c_))
		starts = {const_str(a.args[0]) for a, p_ in known if p_ and isinstance(a, ast.Call) and isinstance(a.func, ast.Attribute) and a.func.attr == 'startswith' and a.args}
		ends = {const_str(a.args[0]) for a, p_ in known if p_ and isinstance(a, ast.Call) and isinstance(a.func, ast.Attribute) and a.func.attr == 'endswith' and a.args}
		for d in starts & ends:
			if d:
				reader[d] = sorted(set(reader.get(d, [])) | {unparse(c_.args[-1])})
				# the reader must remove exactly one delimiter character per side (what the printer adds), not every edge occurrence
				body = deref(mx, c_.args[0])
				bsrc = unparse(body)
				strips = [x for x in ast.walk(body) if isinstance(x, ast.Call) and isinstance(x.func, ast.Attribute) and x.func.attr in ('strip', 'lstrip', 'rstrip', 'replace')]
				if strips:
					r.violate(f'reader-strips-one:{d}', (m.relpath, c_.lineno), f'Pattern.make takes the text of a {d}...{d} terminal as `{bsrc}`: strip()/replace() remove every edge (or inner) occurrence of the delimiter, so a terminal whose text itself ends or begins with `{d}` (e.g. the regexp /:|\\//) comes back shorter than it was printed and from_ast(parse(pretty(g))) != g', bsrc)
				elif isinstance(body, ast.Subscript) and isinstance(body.slice, ast.Slice) and unparse(body.slice) == '1:-1':
					r.ok(f'reader-strips-one:{d}', (m.relpath, c_.lineno))
				elif isinstance(body, ast.Call) and isinstance(body.func, ast.Attribute) and isinstance(body.func.value, ast.Name) and body.func.value.id in ('cls', 'self') and len(body.args) == 1 and isinstance(body.args[0], ast.Subscript) and isinstance(body.args[0].slice, ast.Slice) and unparse(body.args[0].slice) == '1:-1':
					# `cls.__unescape(expression[1:-1])`: the delimiters are removed by the slice, the helper works on the text between them
					r.ok(f'reader-strips-one:{d}', (m.relpath, c_.lineno))
				elif isinstance(body, ast.Call) or isinstance(body, ast.Name):
					r.skip(f'reader-strips-one:{d}', (m.relpath, c_.lineno), f'delimiter removal `{bsrc}` not recognised')
	# is the reader's un-escaping restricted to exact two-character terminals?
	from vlib.match import closure as closure_
	mxs = closure_(make)  # Pattern.make and the same-class helpers it calls
	restricted = any(isinstance(n, ast.Compare) and isinstance(n.left, ast.Call) and unparse(n.left.func) == 'len' and isinstance(n.ops[0], ast.Eq) and unparse(n.comparators[0]) == '2' for n in nodes(mxs, ast.Compare))
	unescapes = any(isinstance(n, ast.Attribute) and n.attr.endswith('__space_codes') for n in nodes(mxs))
	# writer: comp -> (delimiter, expression transformed?)
	writer = {}
	px = X(pp)
	pparam = pp.params()[-1]
	for ret in nodes(px, ast.Return):
		if ret.value is None:
			continue
		comps = [unparse(a.comparators[0]) for a, p_ in atoms(px, ret) if p_ and isinstance(a, ast.Compare) and len(a.ops) == 1 and isinstance(a.ops[0], (ast.Eq, ast.Is)) and unparse(a.left) == f'{pparam}.comp']
		parts = concat_parts(ret.value)
		if len(comps) == 1 and len(parts) == 3 and parts[0][0] == 'const' and parts[2][0] == 'const' and parts[1][0] == 'expr':
			writer[comps[0]] = (parts[0][1], parts[2][1], unparse(parts[1][1]), ret.lineno)
	if set(writer) != {'Comps.Regexp', 'Comps.Equals'} or set(reader) != {'"', '/'}:
		r.skip('shape', pp.where, f'Prettier._pretty_pattern / Pattern.make changed shape (writer {sorted(writer)}, reader {sorted(reader)})')
		r.floor = 1
		return
	for comp, (a, b, expr, line) in writer.items():
		rd = reader.get(a, [])
		r.check(a == b and rd == [comp], f'delimiter:{comp}', (m.relpath, line), f'Prettier prints {comp} terminals as {a}...{b} but Pattern.make reads {a}...{a} as {rd}')
		verbatim = expr == f'{pparam}.expression'
		if verbatim:
			r.ok(f'text:{comp}', (m.relpath, line))
			if comp == 'Comps.Equals' and unescapes:
				# Pattern.make decodes "\n" .. to the control character and the printer writes the text verbatim: the printed grammar holds the raw
				# character between quotes, and the `string` terminal of the meta-grammar (both artifacts) must accept that token
				pc = m.cls('Pattern')
				codes = next((v for k, v in pc.class_attrs.items() if k.endswith('__space_codes')), None) if pc else None
				try:
					table = ast.literal_eval(codes) if codes is not None else None
				except ValueError:
					table = None
				if not isinstance(table, dict):
					r.skip('string-terminal-admits-decoded-codes', (m.relpath, line), 'Pattern.__space_codes is no longer a constant dict')
				else:
					for lark_path, rules_path, _ in PAIRS[:1]:
						left = metagram.rules_of(metagram.read_grammar(_read(lark_path), lark_path)).get('string')
						right = metagram.rules_of(metagram.read_rules_module(_read(rules_path), rules_path)).get('string')
						for art, rule in ((lark_path, left), (rules_path, right)):
							if rule is None or rule[1][2][0] != 'regexp':
								r.skip(f'string-terminal-admits-decoded-codes:{art}', (art, 1), 'terminal `string` is not a regexp rule')
								continue
							rx = rule[1][2][1][1:-1]
							bad = [k for k, ch in sorted(table.items()) if re.fullmatch(rx, f'"{ch}"') is None]
							r.check(not bad, f'string-terminal-admits-decoded-codes:{art}', (art, 1), f'the `string` terminal /{rx}/ of {art} does not match a quoted {["\\" + k for k in bad]} control character, but Pattern.make decodes these escapes and Prettier prints the decoded character between quotes: a rule set with such a terminal (gram_rules and py_rules themselves have "\\n") is printed to text the meta-grammar rejects, so from_ast(parse(pretty(g))) == g fails (`.` does not match a line feed under fullmatch without DOTALL)', rx)
		else:
			# the printer transforms the text: the reader must invert it for every terminal, not only for exact two-character escapes
			general = unescapes and not restricted and comp == 'Comps.Equals'
			r.check(general, f'text:{comp}', (m.relpath, line), f'Prettier prints the terminal text as `{expr}` (escaped), but Pattern.make only un-escapes a terminal that is exactly one escape long (len(candidate) == 2): a terminal such as two tabs or CR LF is printed as "\\t\\t" and parsed back as four literal characters, so from_ast(parse(pretty(g))) != g', expr)


def rule_groups(rep: Report, idx, gram_rules_by) -> None:
	"""every group form the meta-grammar can read must be printed by Prettier in a bracket form that reads back as the same group"""
	import ast
	from vlib.srcindex import unparse
	r = rep.rule('C12/group-print-parse-inverse', 'each repeat kind of a pattern group is printed in the bracket form the meta-grammar reads back as that kind: [x] for one-or-empty, (x)r for * + ?, (x) for a nested group without repeat', floor=3)
	m = idx.mod('rogw/tranp/implements/syntax/tranp/rule.py')
	f = m.func('Prettier._deco_repeat')
	# reader side: expr_opt := "[" expr "]" ; expr_rep := "(" expr ")" [repeat]
	opt = gram_rules_by.get('expr_opt')
	rp = gram_rules_by.get('expr_rep')
	def strings(rule):
		out = []
		def w(e):
			if e[0] == 'string':
				out.append(e[1][1:-1])
			elif isinstance(e[1], list):
				for c in e[1]:
					w(c)
		w(rule[1][2])
		return out
	if opt is None or rp is None or strings(opt) != ['[', ']'] or strings(rp) != ['(', ')']:
		r.skip('reader-forms', ('data/syntax/gram.lark', 1), 'gram.lark no longer defines expr_opt := "[" expr "]" / expr_rep := "(" expr ")" [repeat]')
		return
	repeat_optional = any(e[0] == 'expr_opt' for e in rp[1][2][1]) if rp[1][2][0] == 'terms' else False
	branches = {}
	fx = X(f)
	rparam = f.params()[-1]
	for ret in nodes(fx, ast.Return):
		if ret.value is None:
			continue
		pos = [unparse(a.comparators[0]).split('.')[-1] for a, p_ in atoms(fx, ret) if p_ and isinstance(a, ast.Compare) and len(a.ops) == 1 and isinstance(a.ops[0], (ast.Eq, ast.Is)) and unparse(a.left) == rparam]
		branches[pos[0] if len(pos) == 1 else '<else>' if not pos else '?'] = ret
	def form(ret) -> str:
		v = ret.value if ret is not None else None
		if isinstance(v, ast.Name):
			return 'bare'
		parts = concat_parts(v) if v is not None else []
		if parts and any(k == 'const' for k, _ in parts):
			return ''.join(str(t) if k == 'const' else '{}' for k, t in parts)
		return '?'
	forms = {k: form(v) for k, v in branches.items()}
	where = f.where
	# the same dispatch as a table: `{Repeators.OverZero: ('(', ')*'), ...}` looked up with the repeat kind and pasted around the group
	pcls = m.cls('Prettier')
	rcls = m.cls('Repeators')
	rep_values = {k: v.value for k, v in (rcls.class_attrs.items() if rcls else []) if isinstance(v, ast.Constant) and isinstance(v.value, str)}
	tables = [v for v in (pcls.class_attrs.values() if pcls else []) if isinstance(v, ast.Dict) and v.keys and all(isinstance(k, ast.Attribute) and unparse(k.value) == 'Repeators' for k in v.keys) and all(isinstance(x, ast.Tuple) and len(x.elts) == 2 and all(isinstance(y, ast.Constant) and isinstance(y.value, str) for y in x.elts) for x in v.values)]
	if len(tables) == 1 and any(isinstance(n, ast.Subscript) and isinstance(n.value, ast.Attribute) and n.value.attr in {k for k, v in pcls.class_attrs.items() if v is tables[0]} for n in ast.walk(f.node)):
		want_of = {k: ('[{}]' if k == 'OneOrEmpty' else '({})' + v) for k, v in rep_values.items() if k != 'NoRepeat'}
		for k_, v_ in zip(tables[0].keys, tables[0].values):
			kind = k_.attr
			got = v_.elts[0].value + '{}' + v_.elts[1].value
			if kind in want_of:
				r.check(got == want_of[kind], kind, (m.relpath, k_.lineno), f'a group with repeat {kind} is printed as `{got}`; the meta-grammar reads `{want_of[kind]}` back as that kind — `(x){rep_values.get(kind, "")}` printed as `{got}` parses back as another repeat kind (a `?` group printed `[x]` comes back one-or-EMPTY: an absent optional then leaves a placeholder in the tree and blocks the [1] unwrap), so from_ast(parse(pretty(g))) != g', unparse(v_))
		missing = sorted(set(want_of) - {k_.attr for k_ in tables[0].keys})
		r.check(not missing, 'table-complete', (m.relpath, tables[0].lineno), f'the bracket table of Prettier has no row for {missing}')
		if repeat_optional and 'NoRepeat' in forms:
			r.check(forms.get('NoRepeat') == '({})', 'NoRepeat', where, f'a group without repeat is printed `{forms.get("NoRepeat")}` (no brackets) although the meta-grammar lets it nest (expr_rep := "(" expr ")" [repeat]): `x := a (b | c)` is printed `x := a b | c`, which parses back to a different rule set', unparse(f.node)[-160:])
		return
	if '?' in set(forms.values()) - {forms.get('NoRepeat')} or 'OneOrEmpty' not in forms or '<else>' not in forms:
		r.skip('forms', where, f'_deco_repeat no longer returns one bracket form per repeat kind (recognised: {forms})')
		r.floor = 1
		return
	r.check(forms.get('OneOrEmpty') == '[{}]', 'OneOrEmpty', where, f'one-or-empty groups are printed as `{forms.get("OneOrEmpty")}`; the meta-grammar reads them as [x]')
	r.check(forms.get('<else>') == '({}){}', 'repeated', where, f'repeated groups are printed as `{forms.get("<else>")}`; the meta-grammar reads them as (x) followed by * + or ?')
	if repeat_optional:
		# (x) without repeat is a distinct, nestable group; printing it bare merges it into its parent: `a (b | c)` -> `a b | c`
		r.check(forms.get('NoRepeat') == '({})', 'NoRepeat', where, f'a group without repeat is printed `{forms.get("NoRepeat")}` (no brackets) although the meta-grammar lets it nest (expr_rep := "(" expr ")" [repeat]): `x := a (b | c)` is printed `x := a b | c`, which parses back to a different rule set', unparse(f.node)[-160:])


def run(rep: Report, tier: str) -> None:
	idx = SourceIndex()
	sync = rep.rule('C12/artifact-sync', 'each grammar rule in the .lark text equals (node by node) the rule in the checked-in *_rules.py tuple tree', floor=72)
	order = rep.rule('C12/rule-order', 'both artifacts list the same rule symbols in the same order, none missing, none extra', floor=2)
	closed = rep.rule('C12/symbols-defined', 'every symbol referenced in a rule body is defined by a rule of the same grammar; no rule symbol is defined twice', floor=72)
	term = rep.rule('C12/terminal-forms', 'every terminal token (string/regexp/symbol/repeat/unwrap) of both artifacts matches the terminal regexp that gram.lark declares for it', floor=200)
	wired = rep.rule('C12/consumers-wired', 'the tools that load these grammars import the checked-in rule/tokenizer modules validated here', floor=2)

	# terminal regexps, read from gram.lark itself
	gram_text = _read('data/syntax/gram.lark')
	gram_tree = metagram.read_grammar(gram_text, 'data/syntax/gram.lark')
	gram_rules_by = metagram.rules_of(gram_tree)
	terminal_re: dict[str, re.Pattern] = {}
	for name in ('symbol', 'string', 'regexp', 'repeat', 'unwrap'):
		r = gram_rules_by.get(name)
		if r is None or r[1][2][0] != 'regexp':
			raise AnalysisError(f'gram.lark no longer declares terminal `{name}` as a regexp')
		terminal_re[name] = re.compile(r[1][2][1][1:-1])

	for lark_path, rules_path, floor in PAIRS:
		rep.consulted(lark_path, rules_path)
		text = _read(lark_path)
		left = metagram.read_grammar(text, lark_path)
		right = metagram.read_rules_module(_read(rules_path), rules_path)
		if not (isinstance(right, tuple) and right and right[0] == 'entry' and isinstance(right[1], list)):
			raise AnalysisError(f'{rules_path}: from_ast argument is not an ("entry", [...]) tree')
		lrules, rrules = metagram.rules_of(left), {}
		for r in right[1]:
			try:
				rrules.setdefault(r[1][0][1], r)
			except Exception:
				raise AnalysisError(f'{rules_path}: malformed rule entry {r!r:.80}')
		lnames = [r[1][0][1] for r in left[1]]
		rnames = [r[1][0][1] for r in right[1]]
		if len(lnames) < floor:
			raise AnalysisError(f'{lark_path}: only {len(lnames)} rules read, expected at least {floor}')
		order.check(lnames == rnames, f'{lark_path}<->{rules_path}', (rules_path, 1),
			f'rule symbol sequences differ: only in .lark {sorted(set(lnames) - set(rnames))}, only in rules module {sorted(set(rnames) - set(lnames))}, '
			f'first order difference at index {next((i for i, (a, b) in enumerate(zip(lnames, rnames)) if a != b), min(len(lnames), len(rnames)))}')
		for name in lnames:
			if name not in rrules:
				sync.violate(f'{lark_path}:{name}', (rules_path, 1), f'rule `{name}` of {lark_path} is missing from {rules_path}')
				continue
			d = metagram.first_diff(_norm(lrules[name]), _norm(rrules[name]), name)
			line = next((i + 1 for i, l in enumerate(text.split('\n')) if re.match(rf'{re.escape(name)}(\[[1*]\])?\s*:=', l)), 1)
			if d:
				sync.violate(f'{lark_path}:{name}', (lark_path, line), f'{lark_path} and {rules_path} disagree at {d}', text.split('\n')[line - 1])
			else:
				sync.ok(f'{lark_path}:{name}', (lark_path, line))
		for name in rnames:
			if name not in lrules:
				sync.violate(f'{rules_path}:{name}', (rules_path, 1), f'rule `{name}` of {rules_path} has no counterpart in {lark_path}')

		for side, tree, names in ((lark_path, left, lnames), (rules_path, right, rnames)):
			defined = set(names)
			for r in tree[1]:
				name = r[1][0][1]
				toks: list = []
				_tokens(r[1][2], toks)
				missing = sorted({t[1] for t in toks if t[0] == 'symbol' and t[1] not in defined})
				dup = names.count(name) > 1
				closed.check(not missing and not dup, f'{side}:{name}', (side, 1), f'rule `{name}`: undefined symbols {missing}' + (' and the rule is defined twice (the later definition silently replaces the earlier one in Rules(dict))' if dup else ''))
				alltoks: list = []
				_tokens(r, alltoks)
				for t in alltoks:
					if t[0] == '__empty__':
						continue
					rx = terminal_re.get(t[0])
					if rx is None:
						term.violate(f'{side}:{name}:{t[0]}:{t[1]}', (side, 1), f'unknown token kind {t[0]!r} in rule `{name}`')
					else:
						term.check(rx.fullmatch(t[1]) is not None, f'{side}:{name}:{t[0]}:{t[1]}', (side, 1), f'token {t!r} in rule `{name}` does not match gram.lark terminal {t[0]} := /{rx.pattern}/')

	# consumers: gram_check builds its parser from gram_rules()/gram_tokenizer() of data/syntax; the python parser of the engine imports py_rules
	gc = idx.mod('rogw/tranp/bin/gram_check.py')
	rep.consulted(gc.relpath)
	imp = {k: v for k, v in gc.imports.items()}
	wired.check(imp.get('gram_rules') == ('data.syntax.gram_rules', 'gram_rules') and imp.get('gram_tokenizer') == ('data.syntax.gram_tokenizer', 'gram_tokenizer'),
		'gram_check imports', (gc.relpath, 1), f'gram_check.py no longer takes gram_rules/gram_tokenizer from data.syntax: {imp.get("gram_rules")}, {imp.get("gram_tokenizer")}')
	init = gc.func('App.__init__')
	import ast as _ast
	calls = [attr_chain(n.func) for n in _ast.walk(init.node) if isinstance(n, _ast.Call)]
	wired.check('SyntaxParser' in calls and 'gram_rules' in calls and 'gram_tokenizer' in calls, 'gram_check parser', init.where,
		'gram_check.App.__init__ no longer builds SyntaxParser(gram_rules(), gram_tokenizer())')
	ac = idx.mod('rogw/tranp/bin/ast_check.py')
	rep.consulted(ac.relpath)
	wired.check(ac.imports.get('gram_rules') == ('data.syntax.gram_rules', 'gram_rules') and ac.imports.get('gram_tokenizer') == ('data.syntax.gram_tokenizer', 'gram_tokenizer'),
		'ast_check imports', (ac.relpath, 1), 'ast_check.py no longer takes gram_rules/gram_tokenizer from data.syntax')
	wired.note('py_rules.py is imported by the test suite only (test_syntax.py, test_ast.py); no runtime consumer exists to be checked')
	rule_codec(rep, idx)
	rule_groups(rep, idx, gram_rules_by)
	rule_terminal_lexing(rep, idx)
	rule_engine_state(rep, idx)
	rule_renderer_escapes(rep, idx)
	rule_reader_pure(rep, idx)
	rep.extra_coverage['programs'] = len(sync.obligations)
	rep.extra_coverage['disagreements_checked'] = sum(1 for o in sync.obligations if o.status == 'violated')


def rule_terminal_lexing(rep: Report, idx) -> None:
	"""string ("...") and regexp (/.../) terminals of a .lark file are quote tokens of the grammar tokenizer: they are delimited by Lexer.parse_quote,
	the same scan the Python tokenizer uses. A terminal that contains an escaped delimiter or ends in an escaped backslash (`/[^\\\\\\/]+/`, `"\\\\"`) survives
	print -> parse only if that scan decides on the parity of the backslash run (shared with C13/quote-escape-independent-of-prefix)."""
	from checks import c13
	r = rep.rule('C12/terminals-delimited-by-escape-parity', 'the quote scan that delimits string and regexp terminals of a grammar file tests the constant backslash and ends on the parity of the backslash run before the closing delimiter', floor=2)
	scratch = Report('C13', rep.tier)
	c13.rule_quote_escape(scratch, idx.mod(c13.TOKENIZER_PY))
	rep.consulted(c13.TOKENIZER_PY)
	# where the scan resumes after an escaped candidate matters for closers longer than one character only; the grammar tokenizer's closers are read
	# from data/syntax/gram_tokenizer.py
	gt = idx.mod('data/syntax/gram_tokenizer.py')
	rep.consulted(gt.relpath)
	closers: list[str] | None = None
	for n in ast.walk(gt.func('gram_tokenizer').node) if gt.func('gram_tokenizer') is not None else []:
		if isinstance(n, ast.Assign) and isinstance(n.targets[0], ast.Attribute) and n.targets[0].attr == 'quote' and isinstance(n.value, ast.ListComp) and isinstance(n.value.generators[0].iter, (ast.List, ast.Tuple)):
			vals = [e.value for e in n.value.generators[0].iter.elts if isinstance(e, ast.Constant) and isinstance(e.value, str)]
			if len(vals) == len(n.value.generators[0].iter.elts) and isinstance(n.value.elt, ast.Call) and len(n.value.elt.args) == 2 and unparse(n.value.elt.args[1]) == unparse(n.value.generators[0].target):
				closers = vals
	for rule in scratch.rules:
		for o in rule.obligations:
			if o.key == 'scan-resumes-one-past-candidate':
				if closers is not None and all(len(c_) == 1 for c_ in closers):
					r.ok(o.key, (gt.relpath, 1), message=f'the closers of the grammar tokenizer are single characters ({closers}): the resume position after an escaped candidate is index + 1 either way')
					continue
				if closers is None and o.status == 'violated':
					r.skip(o.key, (gt.relpath, 1), 'closers of the grammar tokenizer not read from gram_tokenizer()')
					continue
			if o.status == 'violated':
				r.violate(o.key, (o.file, o.line), o.message, o.fragment)
			elif o.message.startswith('NOT EVALUATED'):
				r.skip(o.key, (o.file, o.line), o.message)
			else:
				r.ok(o.key, (o.file, o.line))


def rule_engine_state(rep: Report, idx) -> None:
	"""`from_ast(parse(pretty(g))) == g` for every g, and the two fixed points, in ONE process: the meta-grammar rules, the Python rules and any generated
	rule set are separate Rules objects. State of the engine classes that is shared between instances or survives a parse (a class-level Memoize keyed
	by 'keywords', a mutable default, a module-level container) makes the keywords / routes of one rule set answer for another. The inventory is C04's;
	here the entries of the engine package count."""
	from checks import c04
	r = rep.rule('C12/engine-state-per-rule-set', 'the classes of rogw/tranp/implements/syntax/tranp hold no object constructed in a class body, no mutated class-/module-level container and no mutable default (shared with C04/global-state-inventory)', floor=1)
	scratch = Report('C04', rep.tier)
	c04.rule_c(scratch, idx)
	n_ = 0
	for rule in scratch.rules:
		for o in rule.obligations:
			if 'rogw/tranp/implements/syntax/tranp/' not in o.key and 'data/syntax/' not in o.key:
				continue
			n_ += 1
			if o.status == 'violated':
				r.violate(o.key, (o.file, o.line), o.message, o.fragment)
			else:
				r.ok(o.key, (o.file, o.line))
	# ... and state an engine OBJECT keeps between two parses (gram_check and ast_check keep one SyntaxParser for every text they are given): a memo of
	# match results keyed by (symbol, cursor) forgets the token list, so after a rejected text the next one is answered from the rejected one's records
	owners = set()
	for rel in ('rogw/tranp/implements/syntax/tranp/syntax.py', 'rogw/tranp/implements/syntax/tranp/rule.py', 'rogw/tranp/implements/syntax/tranp/ast.py', 'rogw/tranp/implements/syntax/tranp/rules.py'):
		try:
			owners |= {c.name for c in idx.mod(rel).classes.values()}
		except Exception:
			continue
	scratch_g = Report('C04', rep.tier)
	c04.rule_g(scratch_g, idx)
	for rule in scratch_g.rules:
		for o in rule.obligations:
			if o.key.split('.')[0] not in owners:
				continue
			n_ += 1
			if o.status == 'violated':
				r.violate(o.key, (o.file, o.line), o.message + ' — one SyntaxParser parses every grammar text of a gram_check / ast_check session: what it remembers from a (rejected) text answers for the next, so from_ast(parse(pretty(g))) is the rule set of an EARLIER text, or a valid printout is rejected', o.fragment)
			else:
				r.ok(o.key, (o.file, o.line))
	if n_ == 0:
		r.ok('engine-package-clean', None, message='no class-level object, mutated shared container or mutable default in the engine package')


def rule_renderer_escapes(rep: Report, idx) -> None:
	"""gram_check -o writes the rule module as Python source: every token text becomes a single-quoted literal. The text must be escaped per token
	(backslashes doubled, quote characters escaped) before it is wrapped in its delimiters. Substituting on the whole pretty-printed tree cannot tell
	a quote inside a token from the delimiters around it: a terminal containing a bare `'` (`q := "'"`, `/[a-z']+/`) renders to a module that is not
	valid Python, so that grammar has no compiled form at all."""
	r = rep.rule('C12/rule-module-escapes-per-token', 'the renderer of the rule module escapes backslashes and quote characters of each token text before delimiting it, not by substitution over the pretty-printed tree', floor=1)
	gc = idx.mod('rogw/tranp/bin/gram_check.py')
	rr = gc.func('App.render_rules')
	if rr is None:
		r.skip('render_rules', (gc.relpath, 1), 'App.render_rules vanished')
		return
	whole_tree = []
	for n in ast.walk(rr.node):
		if isinstance(n, ast.Call) and isinstance(n.func, ast.Attribute) and n.func.attr in ('split', 'replace') and n.args and isinstance(n.args[0], ast.Constant) and isinstance(n.args[0].value, str) and set(n.args[0].value) & set("\\'"):
			recv = n.func.value
			names = {x.id for x in ast.walk(recv) if isinstance(x, ast.Name)}
			# the receiver is the rendered text of the WHOLE tree (derived from tree.pretty(...)), not one token's text
			derived = {t.id for st in ast.walk(rr.node) if isinstance(st, ast.Assign) for t in st.targets if isinstance(t, ast.Name) and any(isinstance(c_, ast.Call) and isinstance(c_.func, ast.Attribute) and c_.func.attr == 'pretty' for c_ in ast.walk(st.value))}
			changed = True
			while changed:
				changed = False
				for st in ast.walk(rr.node):
					if isinstance(st, ast.Assign):
						for t in st.targets:
							if isinstance(t, ast.Name) and t.id not in derived and {x.id for x in ast.walk(st.value) if isinstance(x, ast.Name)} & derived:
								derived.add(t.id)
								changed = True
			if names & derived:
				whole_tree.append(n)
	r.check(not whole_tree, 'render_rules:escapes-per-token', rr.where, f'App.render_rules fixes the escapes with `{unparse(whole_tree[0])[:70] if whole_tree else ""}` on the text of the whole pretty-printed tree: a `\'` inside a token is indistinguishable from the delimiters, so a terminal containing a bare single quote renders to a module that does not compile', unparse(whole_tree[0])[:100] if whole_tree else '')


def rule_reader_pure(rep: Report, idx) -> None:
	"""`from_ast(t)` reads the tuple tree t. The lists inside t belong to the caller (the tree parsed from a .lark file is compared with the shipped tree, printed,
	and handed to from_ast again): ASTSerializer._children returns the very list stored in the tuple, so a pop / append / del / sort on it edits the
	caller's tree. After one from_ast the fixed point `parse(gram.lark) == gram_rules tree` no longer holds for that tree object, and a second from_ast on it
	builds other rules (or fails)."""
	r = rep.rule('C12/from-ast-does-not-mutate-its-input', 'no method of ASTSerializer applies an in-place list operation to a value taken from the input tree (the result of _children(...), a subscript of the tree, or a local bound to one)', floor=5)
	m = idx.mod('rogw/tranp/implements/syntax/tranp/rule.py')
	cls = m.cls('ASTSerializer')
	if cls is None:
		r.skip('ASTSerializer', (m.relpath, 1), 'ASTSerializer vanished')
		return
	MUT = {'pop', 'append', 'extend', 'insert', 'remove', 'clear', 'sort', 'reverse'}
	n_methods = 0
	for name, defs in cls.methods.items():
		f = defs[-1]
		params = [p_ for p_ in f.params() if p_ not in ('cls', 'self')]
		if not params:
			continue
		n_methods += 1
		tainted = set(params)
		# locals bound to (parts of) the input without copying
		changed = True
		while changed:
			changed = False
			for st in ast.walk(f.node):
				if isinstance(st, (ast.Assign, ast.AnnAssign)) and getattr(st, 'value', None) is not None:
					v = st.value
					alias = (isinstance(v, ast.Call) and unparse(v.func).endswith(('_children', '_as_tree', '_as_token', 'as_a', 'cast')) and any(isinstance(x, ast.Name) and x.id in tainted for a in v.args for x in ast.walk(a))) \
						or (isinstance(v, ast.Subscript) and not isinstance(v.slice, ast.Slice) and any(isinstance(x, ast.Name) and x.id in tainted for x in ast.walk(v.value))) \
						or (isinstance(v, ast.Name) and v.id in tainted)
					for t in (st.targets if isinstance(st, ast.Assign) else [st.target]):
						if alias and isinstance(t, ast.Name) and t.id not in tainted:
							tainted.add(t.id)
							changed = True
		bad = []
		for n in ast.walk(f.node):
			recv = None
			if isinstance(n, ast.Call) and isinstance(n.func, ast.Attribute) and n.func.attr in MUT:
				recv = n.func.value
			elif isinstance(n, ast.Delete):
				recv = n.targets[0].value if isinstance(n.targets[0], ast.Subscript) else None
			elif isinstance(n, (ast.Assign, ast.AugAssign)):
				t0 = n.targets[0] if isinstance(n, ast.Assign) else n.target
				recv = t0.value if isinstance(t0, ast.Subscript) else None
			if recv is None:
				continue
			direct = isinstance(recv, ast.Name) and recv.id in tainted
			through = isinstance(recv, ast.Call) and unparse(recv.func).endswith('_children') or (isinstance(recv, ast.Subscript) and any(isinstance(x, ast.Name) and x.id in tainted for x in ast.walk(recv)))
			if direct or through:
				bad.append(n)
		r.check(not bad, f'ASTSerializer.{name}', f.where, f'ASTSerializer.{name} applies `{unparse(bad[0])[:70] if bad else ""}` to a list that lives inside the input tree: from_ast edits the tree it was given (the last entry of every repeat group disappears), so the parsed tree no longer equals the shipped one afterwards and a second from_ast on the same tree yields different rules', unparse(bad[0])[:100] if bad else '')
	if n_methods == 0:
		r.skip('methods', cls.where, 'ASTSerializer has no method with an input parameter')
